#!/opt/veriftools/pyvenv/bin/python
"""add_known.py PID ID 'what' PATTERN [PATTERN...] : adds a status=known entry
whose witness is taken from the newest replay file matching the first pattern."""
import sys, json, os, glob, fnmatch
HERE = os.path.dirname(os.path.dirname(os.path.abspath(__file__)))
pid, kid, what = sys.argv[1:4]
pats = sys.argv[4:]
wit = None
for f in sorted(glob.glob(os.path.join(HERE, "replays", pid, "*.json")), key=os.path.getmtime, reverse=True):
    r = json.load(open(f))
    if any(fnmatch.fnmatchcase(r["sig"], p) or r["sig"] == p for p in pats):
        wit = {"sig": r["sig"], "case": r["case"], "observed": r["what"][:600]}
        break
path = os.path.join(HERE, "known_findings.json")
d = json.load(open(path))
d["findings"] = [e for e in d["findings"] if e.get("id") != kid]
d["findings"].insert(0, {"property": pid, "id": kid, "status": "known", "sigs": pats, "what": what, "witness": wit})
json.dump(d, open(path, "w"), indent=1)
print("added", kid, "witness" if wit else "NO WITNESS")
