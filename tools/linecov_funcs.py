#!/venv/bin/python
"""tools/linecov_funcs.py <dir> <module-substring...>: per function, how many executable
lines the checks never executed (uses the lc_*.json files of VERIF_LINECOV runs)."""
import ast, glob, json, os, sys
d = sys.argv[1]; filt = sys.argv[2:]
seen = {}
for f in glob.glob(os.path.join(d, "**", "lc_*.json"), recursive=True):
    for fn, line in json.load(open(f)):
        seen.setdefault(os.path.realpath(fn), set()).add(line)
src = os.path.realpath("/repo/src/whoosh")
import warnings; warnings.simplefilter("ignore")
for root, _, files in os.walk(src):
    for n in sorted(files):
        p = os.path.join(root, n); rel = os.path.relpath(p, src)
        if not n.endswith(".py") or (filt and not any(x in rel for x in filt)):
            continue
        text = open(p, encoding="utf8").read()
        code = compile(text, p, "exec")
        tree = ast.parse(text)
        hit = seen.get(p, set())
        def walk(code, qual):
            ex = set(l for _, _, l in code.co_lines() if l)
            own = set(ex)
            for c in code.co_consts:
                if hasattr(c, "co_lines"):
                    sub = walk(c, getattr(c, "co_qualname", c.co_name))
                    own -= sub
            miss = sorted(own - hit)
            if miss and qual != "<module>" and len(own) > 1:
                never = not (own & hit - {code.co_firstlineno})
                print("%-28s %-55s %3d/%3d missed%s %s" % (rel, qual, len(miss), len(own), " (NEVER CALLED)" if never else "", miss[:12]))
            return ex
        walk(code, "<module>")
