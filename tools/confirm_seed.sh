#!/bin/sh
# confirm_seed.sh <PID> <k> : confirms seed k of /tmp/seed_<PID> in a scratch worktree and runs check PID (quick) against it
pid="$1"; k="$2"; sd=/tmp/seed_$pid
wt=/tmp/wt_cs_$pid$k
git -C /repo worktree add -q "$wt" HEAD || exit 2
mkdir -p /tmp/cs_tmp_$pid$k
echo "=== $pid seed $k"
(cd "$wt" && TMPDIR=/tmp/cs_tmp_$pid$k PYTHONPATH="$wt/src" /venv/bin/python "$sd/demo$k.py" >/dev/null 2>&1; echo "demo on clean tree rc=$?")
if git -C "$wt" apply "$sd/patch$k.diff"; then
  (cd "$wt" && TMPDIR=/tmp/cs_tmp_$pid$k PYTHONPATH="$wt/src" /venv/bin/python -m pytest -q -p no:cacheprovider --timeout=900 2>&1 | tail -1)
  (cd "$wt" && TMPDIR=/tmp/cs_tmp_$pid$k PYTHONPATH="$wt/src" /venv/bin/python "$sd/demo$k.py" >/dev/null 2>&1; echo "demo with patch rc=$?")
else echo "PATCH DOES NOT APPLY"; fi
git -C /repo worktree remove --force "$wt"; rm -rf /tmp/cs_tmp_$pid$k
/verif/tools/try_patch.sh "$sd/patch$k.diff" quick $pid
