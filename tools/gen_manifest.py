#!/opt/veriftools/pyvenv/bin/python
"""Regenerates /verif/MANIFEST.json from the table below (single source)."""
import json, os, subprocess, sys
HERE = os.path.dirname(os.path.dirname(os.path.abspath(__file__)))
sys.path.insert(0, HERE)
from mc.registry import CHECKS, NOT_APPLICABLE, HOOK_COMMITS

ALL = ["C%02d" % i for i in range(1, 21)]
checks = []
for pid in ALL:
    if pid not in CHECKS:
        continue
    c = CHECKS[pid]
    checks.append({
        "property_id": pid,
        "quick_cmd": "./check %s --tier quick" % pid,
        "thorough_cmd": "./check %s --tier thorough" % pid,
        "evidence_file": "/verif/evidence/%s.json" % pid,
        "replay_cmd_template": "./check %s --replay {path}" % pid,
        "engine": c["engine"],
        "level_claimed": {"category": c["level"], "text": c["text"], "design_ref": "DESIGN.md section 5, %s" % pid},
        "level_note": c["note"],
        "technique": c["technique"],
    })
na = [{"property_id": p, "reason": NOT_APPLICABLE.get(p, "check not built yet in this session; see DESIGN.md section 5 for the planned bounded-exhaustive check")}
      for p in ALL if p not in CHECKS]
man = {
    "version": 1,
    "setup_cmd": "./check --selftest",
    "hooks": {
        "guard": "WHOOSH_VERIF",
        "enable": "pure Python: checks import /repo/src directly in a fresh process with WHOOSH_VERIF=1; all seams are harness-side subclasses / module-attribute patches, no source hooks",
        "baseline_off_cmd": "cd /repo && env -u WHOOSH_VERIF /venv/bin/python -m pytest -ra -q -p no:cacheprovider --timeout=900 --continue-on-collection-errors",
        "source_commits": HOOK_COMMITS,
        "add_only": True,
    },
    "engines": [
        {"name": "E1", "path": "mc/core.py + mc/corpus.py + mc/qast.py", "kind_free_text": "bounded-exhaustive differential enumeration of inputs/configurations on the real code against a reference model",
         "serves_properties": [p for p in ALL if p in CHECKS and CHECKS[p]["engine"] == "E1"]},
        {"name": "E2", "path": "mc/crashfs.py", "kind_free_text": "crash-state enumeration: every storage-operation boundary x every admissible truncation of open files",
         "serves_properties": [p for p in ALL if p in CHECKS and CHECKS[p]["engine"] == "E2"]},
        {"name": "E3", "path": "mc/sched.py", "kind_free_text": "stateless schedule exploration of real threads under a cooperative scheduler with iterative preemption bounding",
         "serves_properties": [p for p in ALL if p in CHECKS and CHECKS[p]["engine"] == "E3"]},
        {"name": "E4", "path": "mc/bfs.py", "kind_free_text": "explicit-state BFS over operation sequences of the real objects with canonical state hashing",
         "serves_properties": [p for p in ALL if p in CHECKS and CHECKS[p]["engine"] == "E4"]},
    ],
    "checks": checks,
    "not_applicable": na,
    "notes": "All checks explore the implementation in /repo/src directly (no separate model). Known findings: /verif/known_findings.json. Seeded property-breaking changes and which check catches them: /verif/seeded/ and DESIGN.md section 8.",
}
with open(os.path.join(HERE, "MANIFEST.json"), "w") as f:
    json.dump(man, f, indent=1)
    f.write("\n")
import jsonschema
jsonschema.validate(man, json.load(open("/root/.vp/MANIFEST.schema.json")))
print("MANIFEST.json written: %d checks, %d not_applicable" % (len(checks), len(na)))
