#!/venv/bin/python
"""tools/linecov.py <dir> [module-substring ...]: merges the lc_*.json files written
by checks run with VERIF_LINECOV=<dir> and lists, per whoosh module, the executable
lines no check executed (development aid for finding blind spots of the drivers)."""
import glob, json, os, sys
d = sys.argv[1]
filt = sys.argv[2:]
seen = {}
for f in glob.glob(os.path.join(d, "**", "lc_*.json"), recursive=True):
    for fn, line in json.load(open(f)):
        seen.setdefault(os.path.realpath(fn), set()).add(line)
src = os.path.realpath(os.environ.get("WHOOSH_REPO", "/repo") + "/src/whoosh")

def exec_lines(path):
    out = set()
    def walk(code):
        for _, _, ln in code.co_lines():
            if ln:
                out.add(ln)
        for c in code.co_consts:
            if hasattr(c, "co_lines"):
                walk(c)
    import warnings
    warnings.simplefilter("ignore")
    walk(compile(open(path, encoding="utf8").read(), path, "exec"))
    return out

rows = []
for root, _, files in os.walk(src):
    for n in files:
        if not n.endswith(".py"):
            continue
        p = os.path.join(root, n)
        rel = os.path.relpath(p, src)
        if filt and not any(x in rel for x in filt):
            continue
        ex = exec_lines(p)
        hit = seen.get(p, set()) & ex
        rows.append((rel, len(ex), len(hit), sorted(ex - hit)))
tot = sum(r[1] for r in rows); th = sum(r[2] for r in rows)
print("total executable lines %d, executed %d (%.1f%%)" % (tot, th, 100.0 * th / max(tot, 1)))
def ranges(ls):
    out = []; s = p = None
    for l in ls:
        if s is None: s = p = l
        elif l == p + 1: p = l
        else: out.append((s, p)); s = p = l
    if s is not None: out.append((s, p))
    return " ".join("%d" % a if a == b else "%d-%d" % (a, b) for a, b in out)
for rel, n, h, miss in sorted(rows, key=lambda r: r[1] - r[2], reverse=True):
    if n == h:
        continue
    print("%-32s %4d/%4d  missed: %s" % (rel, h, n, ranges(miss) if filt else ranges(miss)[:160]))
