#!/opt/veriftools/pyvenv/bin/python
"""mk_seed_prompt.py PID WAVE: creates a scratch worktree /tmp/wt_seed<WAVE>_<PID> of /repo HEAD, an
output directory /tmp/seed<WAVE>_<PID> and a prompt file /tmp/seedprompt<WAVE>_<PID>.txt for a fresh
sub-agent that sees only the property text (nothing from /verif except one-line summaries of the
mechanisms earlier seeds already used, so that it picks a different one)."""
import glob, json, os, subprocess, sys
pid, wave = sys.argv[1], sys.argv[2]
n = int(sys.argv[3]) if len(sys.argv) > 3 else 2
prop = [json.loads(l) for l in open("/verif/properties.jsonl") if json.loads(l)["id"] == pid][0]
wt = "/tmp/wt_seed%s_%s" % (wave, pid)
out = "/tmp/seed%s_%s" % (wave, pid)
if not os.path.exists(wt):
    subprocess.check_call("git -C /repo worktree add -q %s HEAD" % wt, shell=True)
os.makedirs(out, exist_ok=True)
used = []
for m in sorted(glob.glob("/verif/seeded/%s-*/notes.txt" % pid)):
    for line in open(m):
        line = line.strip()
        if len(line) > 30:
            used.append("  - " + line[:200]); break
text = """You are helping to evaluate a verification harness for the pure-Python search library whoosh
(mchaput/whoosh). You will NOT see the harness. Your job: produce %(n)d independent, realistic changes
to whoosh that each BREAK the semantic property below while the library still imports and its
existing test suite still passes, each with a small demonstration program.

PROPERTY %(pid)s - %(title)s
Statement: %(statement)s
Quantified over: %(qtext)s
Why unit tests cannot settle it: %(why)s
Code it is anchored in: %(files)s

Where to work
* Your own scratch git worktree of the repository: %(wt)s (source in %(wt)s/src/whoosh, tests in
  %(wt)s/tests). Work ONLY there and in the output directory %(out)s. Never touch /repo or /verif,
  never run git commands outside your worktree, never commit.
* Python: /venv/bin/python. ALWAYS run with PYTHONPATH=%(wt)s/src so that your worktree's whoosh is
  imported (check `python -c "import whoosh; print(whoosh.__file__)"` once), and with a private
  TMPDIR (e.g. TMPDIR=%(out)s/tmp, create it) because in-memory indexes put temp files under the
  shared temp dir.
* Test suite: cd %(wt)s && TMPDIR=%(out)s/tmp PYTHONPATH=%(wt)s/src /venv/bin/python -m pytest -q -p no:cacheprovider --timeout=900
  (587 tests, about 20-40 s). It must be fully green with each change applied (each change alone).

What kind of change
* Something a plausible refactoring, optimisation, caching or "clean-up" could introduce; a few
  lines to a few dozen lines; it must look reasonable in review.
* It must need something SPECIFIC to manifest - a particular interleaving, a crash or fault at a
  particular point, a multi-step sequence of operations, an unusual input shape or boundary, a
  particular segment layout / deletion pattern / configuration, or two cooperating sites that each
  look fine alone - NOT something ordinary use (or the existing tests) exposes at once.
* The %(n)d changes must use different mechanisms in different functions, and must differ from these
  mechanisms that earlier rounds already used for this property (pick other code paths):
%(used)s
* Each change is independent: patch k applies alone to the clean tree.

Deliverables, in %(out)s, for k = 1..%(n)d:
* patch<k>.diff - `git diff` output of your worktree for change k alone (relative to the clean HEAD;
  make it, save it, then `git checkout -- .` in your worktree before starting the next change).
  It must apply with `git apply` to a clean checkout.
* demo<k>.py - a small stand-alone program (uses only whoosh + stdlib, imports whoosh from
  PYTHONPATH, uses tempfile.mkdtemp for its own directories and sets tempfile.tempdir to a private
  directory first) that exits 0 on the clean tree and exits non-zero (assertion failure) with
  change k, deterministically. It should demonstrate the PROPERTY violation as a user would see it.
* notes<k>.txt - first line: a one-line title "CHANGE <k> (%(pid)s) - <what>"; then file/function,
  why it looks reasonable, what exactly is needed for it to manifest, the observable violation,
  and the results you measured (suite summary line with the change, demo exit codes with/without).
Before finishing: verify for each k on a clean worktree: demo exits 0 without the patch; with the
patch applied the suite is green and the demo exits non-zero. Leave the worktree clean
(`git -C %(wt)s checkout -- .`; remove files you created there). Final message: a 5-line summary per change.
""" % dict(n=n, pid=pid, title=prop["title"], statement=prop["statement"], qtext=prop["quantifier"]["text"],
           why=prop["why_tests_cant"], files=", ".join(prop["anchors"]["files"]), wt=wt, out=out,
           used="\n".join(used) or "  (none)")
pf = "/tmp/seedprompt%s_%s.txt" % (wave, pid)
open(pf, "w").write(text)
print(pf)
