#!/opt/veriftools/pyvenv/bin/python
"""record_seed.py PID K [extra check ids...]: confirms seed K of /tmp/seed_PID in a scratch
worktree (suite green with the change, demo fails with / passes without), runs check PID
(+extras) quick against it and stores everything under /verif/seeded/PID-K/."""
import json, os, shutil, subprocess, sys, tempfile, re
pid, k = sys.argv[1], sys.argv[2]
extra = sys.argv[3:]
# SEED_SRC_PREFIX=/tmp/seed3_ SEED_LABEL_OFFSET=2 records a later wave
src = os.environ.get("SEED_SRC_PREFIX", "/tmp/seed_") + pid
dst = "/verif/seeded/%s-%s" % (pid, int(k) + int(os.environ.get("SEED_LABEL_OFFSET", "0")))
os.makedirs(dst, exist_ok=True)
patch = os.path.join(src, "patch%s.diff" % k)
for a, b in (("patch%s.diff" % k, "patch.diff"), ("demo%s.py" % k, "demo.py"), ("notes%s.txt" % k, "notes.txt")):
    if os.path.exists(os.path.join(src, a)):
        shutil.copy(os.path.join(src, a), os.path.join(dst, b))
patch = os.path.join(dst, "patch.diff")
def sh(cmd, **kw):
    return subprocess.run(cmd, shell=True, capture_output=True, text=True, **kw)
wt = tempfile.mkdtemp(prefix="wt_rec_", dir="/tmp")
os.rmdir(wt)
sh("git -C /repo worktree add -q %s HEAD" % wt)
tmp = tempfile.mkdtemp(prefix="rec_tmp_", dir="/tmp")
env = "TMPDIR=%s PYTHONPATH=%s/src" % (tmp, wt)
meta = {"property": pid, "seed": int(k) + int(os.environ.get("SEED_LABEL_OFFSET", "0")), "repo_head": sh("git -C /repo rev-parse --short HEAD").stdout.strip()}
r = sh("cd %s && %s /venv/bin/python %s/demo.py" % (wt, env, dst))
meta["demo_on_unchanged_tree_rc"] = r.returncode
ap = sh("git -C %s apply %s" % (wt, patch))
meta["patch_applies"] = ap.returncode == 0
if ap.returncode == 0:
    r = sh("cd %s && %s /venv/bin/python -m pytest -q -p no:cacheprovider --timeout=900 2>&1 | tail -1" % (wt, env))
    meta["suite_with_change"] = r.stdout.strip()
    r = sh("cd %s && %s /venv/bin/python %s/demo.py" % (wt, env, dst))
    meta["demo_with_change_rc"] = r.returncode
    meta["demo_with_change_tail"] = (r.stdout + r.stderr)[-400:]
sh("git -C /repo worktree remove --force %s" % wt)
shutil.rmtree(tmp, ignore_errors=True)
det = {}
if meta["patch_applies"]:
    for chk in [pid] + extra:
        r = sh("/verif/tools/try_patch.sh %s quick %s" % (patch, chk))
        line = [l for l in r.stdout.splitlines() if l.startswith(chk)]
        det[chk] = line[0][:500] if line else (r.stdout + r.stderr)[-300:]
meta["detection_quick"] = det
meta["caught_by"] = sorted(c for c, l in det.items() if " CAUGHT" in l)
notes = ""
if os.path.exists(os.path.join(dst, "notes.txt")):
    notes = open(os.path.join(dst, "notes.txt")).read()
meta["needs_to_manifest"] = notes[:1500]
meta["ran"] = ["unedited test suite in a scratch worktree with the change applied (private TMPDIR)",
               "demo.py with and without the change", "tools/try_patch.sh patch.diff quick <checks> (scratch worktree via WHOOSH_REPO)"]
json.dump(meta, open(os.path.join(dst, "meta.json"), "w"), indent=1)
print(pid, k, "applies" if meta["patch_applies"] else "NOAPPLY", meta.get("suite_with_change"), "demo", meta.get("demo_on_unchanged_tree_rc"), meta.get("demo_with_change_rc"), "caught_by", meta["caught_by"])
