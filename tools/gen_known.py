#!/opt/veriftools/pyvenv/bin/python
"""Regenerates the 'fixed' half of known_findings.json from /repo's git log
(fix: commits) and the commit -> property table below; 'known' entries are
kept as they are in the file.  Run by hand after adding fix commits; never at
check time."""
import json, os, subprocess
HERE = os.path.dirname(os.path.dirname(os.path.abspath(__file__)))
PROP = {
 "C01": ["AndNotMatcher must skip", "len(results) of a limited search undercounted", "len(results) of a limited search ignored",
         "InverseMatcher could stop on a deleted"],
 "C05": ["dropped documents scoring zero or less while its top-N", "SpanNot raised when the excluded", "AndNotMatcher.skip_to_quality", "RequireMatcher.skip_to_quality", "additive matchers skipped", "stale cached document id",
         "InverseMatcher reported", "collapsing a limited search", "DisjunctionMaxMatcher.replace dropped", "limited searches crashed",
         "limited searches with a final", "AndMaybeMatcher.replace() without", "asked an exhausted sub-matcher", "could return a deleted document", "did not re-check spans after a quality skip"],
 "C09": ["DisjunctionMaxMatcher scored", "DFree weighting", "ConstantScoreQuery was not constant", "ListMatcher ignored an all_weights", "dropped documents scoring zero or less", "depended on how many terms they expanded"],
 "C12": ["PL2 claimed", "ReverseWeighting advertised", "ArrayUnionMatcher.max_quality", "And of three or more terms could lose", "IntersectionMatcher.replace() returned one operand", "quality methods failed on exhausted", "query boost of 0 crashed", "ConstantScoreWrapperMatcher passed quality", "CoordMatcher (Or with scale=)", "DFree claimed block-quality"],
 "C11": ["W3LeafMatcher did not implement copy", "UnionMatcher.reset()", "AndMaybeMatcher.skip_to()", "span matchers did not",
         "ListMatcher.copy()", "MultiMatcher.copy()", "MultiMatcher.reset()", "MultiMatcher advertised", "AndMaybeMatcher.weight()",
         "SpanCondition matcher", "ArrayUnionMatcher and PreloadedUnionMatcher", "ArrayUnionMatcher.skip_to()"],
 "C20": ["MultiIdSet membership", "BitSet.discard()", "SortedIntSet.discard()", "BitSet could not be built", "BitSet.invert_update",
         "ReverseIdSet.last()", "iterating an OnDiskBitSet", "hash type 2", "OrderedHashWriter rejected"],
 "C10": ["W3Codec(inlinelimit", "ListMatcher.value()", "Existence-format term vectors", "vector_as()", "plain-text codec", "codecs without cancel_doc"],
 "C14": ["an empty filter", "ResultsPage of an empty", "sorting raised TypeError", "collapse keys 0", "collapsed_counts did not",
         "overlapping facets crashed", "NUMERIC(float, sortable=True)", "ignored the limit with groupedby", "collapse with collapse_order",
         "reversed sort on a text column", "grouped under the column default"],
 "C15": ["contains a query type without a boost", "Sequence queries differing only in slop", "And([q, Every()])", "DisjunctionMax.normalize()", "simplify() raised TypeError on", "Wildcard.normalize()", "Sequence/Ordered lost",
         "estimate_size() raised", "FuzzyTerm.simplify()", "NestedParent, NestedChildren", "an unfielded Every()", "Or([NestedParent"],
 "C16": ['"a NOT AND b"', '"a ANDNOT ANDNOT b"', '"a (+b)"', "a range the field cannot interpret", "a quoted value on a BOOLEAN",
         "GtLtPlugin raised", "unparseable text on a DATETIME", "an empty quoted sequence", "an invalid regular expression",
         "exclusive bounds were ignored", "on a field the index lacks", "invalid text on a decimal_places NUMERIC",
         "the date parser plugin let", "a query on a STORED or COLUMN field"],
 "C13": ["a DATETIME range bound typed down to the microsecond", "numeric ranges at the bottom", "empty numeric intervals", "decimal_places=N", "NUMERIC(float, signed=False)"],
 "C08": ["multi-segment column reader", "VarBytesColumn lost", "several column types had no default", "iterating a CompressedBytesColumn", "NUMERIC(default=x, sortable=True)", "sortable DATETIME field failed"],
 "C19": ["contains U+10FFFF", "terms_within", "prefix longer than the word"],
 "C17": ["MultiFilter crashed", "BiWordFilter failed", "BiWordFilter paired stop words", "IntraWordFilter(", "IntraWordFilter missed", "CharsetTokenizer", "highlighter marked stop words", "highlighting without recorded terms", "NgramTokenizer produced"], "C04": ["RamStorage index blocked forever"], "C18": ["raised ValueError for a field no buffered document has", "EmptyReader had no column_reader", "buffered by a BufferedWriter lost their column", "multi-process commit failed when a sub-writer", "BufferedWriter.commit() raced", "terms_from raised TermNotFound for a schema field"], "C02": [], "C03": ["kept reading through the old schema", "opened on an empty index raised TypeError", "refresh() resurrected segments", "refresh() kept showing documents deleted", "RamStorage index could fail during a concurrent commit", "kept the old generation number"], "C06": ["in-memory column files did not cover", "doc_field_length() returned None", "min_field_length()/max_field_length() raised", "split a document group across segments"], "C07": ["ColumnQuery", "update_document() deleted only the first", "undeleting a document raised", "cancel() did not undo add_field"],
}
log = subprocess.run(["git", "-C", "/repo", "log", "--reverse", "--format=%h\t%s"], capture_output=True, text=True).stdout
fixed = []
unmapped = []
for line in log.splitlines():
    h, s = line.split("\t", 1)
    if not s.startswith("fix:"):
        continue
    subj = s[4:].strip()
    pid = None
    for p, keys in PROP.items():
        if any(k in subj for k in keys):
            pid = p
            break
    if pid is None:
        unmapped.append(line)
        continue
    fixed.append({"property": pid, "id": "%s-fixed-%s" % (pid, h), "status": "fixed", "commit": h,
                  "what": "fixed: property=%s %s %s" % (pid, h, subj)})
path = os.path.join(HERE, "known_findings.json")
old = json.load(open(path))
known = [e for e in old["findings"] if e.get("status") == "known"]
# keep hand-written witnesses of earlier fixed entries
wit = dict((e.get("commit"), e.get("witness")) for e in old["findings"] if e.get("status") == "fixed" and e.get("witness"))
for e in fixed:
    if wit.get(e["commit"]):
        e["witness"] = wit[e["commit"]]
old["findings"] = known + fixed
json.dump(old, open(path, "w"), indent=1)
print("known=%d fixed=%d unmapped=%d" % (len(known), len(fixed), len(unmapped)))
for u in unmapped:
    print("UNMAPPED", u)
