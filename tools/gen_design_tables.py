#!/opt/veriftools/pyvenv/bin/python
"""Rewrites the generated blocks of DESIGN.md (detection table from
seeded/*/meta.json, findings list from known_findings.json)."""
import glob, json, os, re
HERE = os.path.dirname(os.path.dirname(os.path.abspath(__file__)))
p = os.path.join(HERE, "DESIGN.md")
s = open(p).read()

rows = []
for m in sorted(glob.glob(os.path.join(HERE, "seeded", "*", "meta.json"))):
    d = json.load(open(m))
    sid = os.path.basename(os.path.dirname(m))
    notes = d.get("needs_to_manifest", "")
    first = ""
    for line in notes.splitlines():
        line = line.strip()
        if len(line) > 30:
            first = line
            break
    first = re.sub(r"\s+", " ", first)[:170]
    det = d.get("detection_quick", {})
    caught = d.get("caught_by", [])
    missed = sorted(c for c in det if c not in caught)
    status = "caught by " + ", ".join(caught) if caught else ("NOT caught (" + ", ".join(missed) + ")" if det else "patch no longer applies")
    if d.get("superseded"):
        status += "; " + d["superseded"]
    if d.get("history"):
        status += "; first run: " + d["history"]
    if d.get("rebased"):
        status += "; rebased: " + d["rebased"]
    rows.append("| %s | %s | suite %s; demo rc %s -> %s | %s |" % (
        sid, first.replace("|", "/"), (d.get("suite_with_change") or "?").split(",")[0],
        d.get("demo_on_unchanged_tree_rc"), d.get("demo_with_change_rc"), status))
block = ("| seed | change (first line of its notes) | confirmed | quick check result |\n|---|---|---|---|\n"
         + "\n".join(rows) + "\n")
s = re.sub(r"<!-- BEGIN:DETECTION -->.*?<!-- END:DETECTION -->",
           "<!-- BEGIN:DETECTION -->\n" + block + "<!-- END:DETECTION -->", s, flags=re.S)

kf = json.load(open(os.path.join(HERE, "known_findings.json")))["findings"]
known = [e for e in kf if e["status"] == "known"]
fixed = [e for e in kf if e["status"] == "fixed"]
lines = ["**Known findings (genuine, not repaired; reported as KNOWN-FINDING lines):**", ""]
for e in sorted(known, key=lambda e: e["id"]):
    lines.append("* `%s` (%s) - %s  \n  signatures: %s" % (e["id"], e["property"], e["what"], ", ".join("`%s`" % x for x in e["sigs"])))
lines += ["", "**Repaired by `fix:` commits in /repo (%d):**" % len(fixed), ""]
for e in sorted(fixed, key=lambda e: (e["property"], e["commit"])):
    lines.append("* %s" % e["what"])
s = re.sub(r"<!-- BEGIN:FINDINGS -->.*?<!-- END:FINDINGS -->",
           "<!-- BEGIN:FINDINGS -->\n" + "\n".join(lines) + "\n<!-- END:FINDINGS -->", s, flags=re.S)
import sys
sys.path.insert(0, HERE)
from mc.registry import CHECKS
st = []
for pid in sorted(CHECKS):
    c = CHECKS[pid]
    ev = {}
    try:
        ev = json.load(open(os.path.join(HERE, "evidence", pid + ".json")))
    except Exception:
        pass
    cov = ev.get("coverage", {})
    nums = []
    for k in ("evaluations", "distinct_nontrivial", "states", "transitions", "traces_validated_against_impl"):
        if k in cov:
            nums.append("%s=%s" % (k, cov[k]))
    st.append("### %s  (engine %s, level %s)\n*Technique.* %s.\n\n*Covered.* %s\n\n*Trusted / bounds.* %s\n\n"
              "*Last committed evidence (%s tier, seed %s).* %s; exhaustive=%s; wall %ss.\n"
              % (pid, c["engine"], c["level"], c["technique"], c["text"], c["note"], ev.get("tier"), ev.get("seed"),
                 ", ".join(nums), cov.get("exhaustive"), ev.get("wall_s")))
s = re.sub(r"<!-- BEGIN:STATUS -->.*?<!-- END:STATUS -->",
           "<!-- BEGIN:STATUS -->\n" + "\n".join(st) + "<!-- END:STATUS -->", s, flags=re.S)
open(p, "w").write(s)
print("DESIGN.md tables regenerated: %d seeds, %d known, %d fixed" % (len(rows), len(known), len(fixed)))
