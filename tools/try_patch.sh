#!/bin/sh
# tools/try_patch.sh <patch.diff> <tier> <PID> [PID...]
# Applies the patch to a scratch worktree of /repo HEAD (NOT to /repo), runs the
# given checks against it (WHOOSH_REPO), prints per check: CAUGHT / MISSED.
patch="$1"; tier="$2"; shift 2
wt=/tmp/wt_try_$$
git -C /repo worktree add -q "$wt" HEAD || exit 2
if ! git -C "$wt" apply "$patch"; then echo "PATCH DOES NOT APPLY: $patch"; git -C /repo worktree remove --force "$wt"; exit 2; fi
out=/tmp/try_out_$$; mkdir -p "$out"
for pid in "$@"; do
  WHOOSH_REPO="$wt" VERIF_OUT="$out" /verif/check "$pid" --tier "$tier" > "$out/$pid.log" 2>&1
  rc=$?
  n=$(grep -c '^VIOLATION' "$out/$pid.log")
  if [ "$rc" = 1 ] && [ "$n" -gt 0 ]; then echo "$pid CAUGHT ($n groups): $(grep -m2 'sig=' "$out/$pid.log" | cut -c1-230 | tr '\n' ' ')"; 
  elif [ "$rc" = 0 ]; then echo "$pid MISSED (exit 0)"; else echo "$pid rc=$rc: $(tail -3 "$out/$pid.log" | cut -c1-300)"; fi
done
git -C /repo worktree remove --force "$wt"
rm -rf "$out"
