#!/opt/veriftools/pyvenv/bin/python
"""redetect.py SEED-ID [extra check ids...]: re-runs the quick checks against seed
/verif/seeded/SEED-ID (scratch worktree, never /repo) and refreshes detection_quick /
caught_by in its meta.json. If the seed was missed when it was first recorded and is
caught now, the first-run result is kept in `history`."""
import json, os, subprocess, sys
sid = sys.argv[1]
extra = sys.argv[2:]
d = "/verif/seeded/" + sid
mp = os.path.join(d, "meta.json")
meta = json.load(open(mp))
pid = meta["property"]
checks = [pid] + [c for c in extra if c != pid]
if os.environ.get("REDETECT_ONLY"):      # only the extra checks (the own check's result is kept)
    checks = [c for c in extra]
old_caught = list(meta.get("caught_by", []))
if isinstance(old_caught, str):
    old_caught = eval(old_caught)
det = dict(meta.get("detection_quick", {})) if isinstance(meta.get("detection_quick"), dict) else {}
for chk in checks:
    r = subprocess.run("/verif/tools/try_patch.sh %s/patch.diff quick %s" % (d, chk), shell=True, capture_output=True, text=True)
    line = [l for l in r.stdout.splitlines() if l.startswith(chk)]
    det[chk] = line[0][:500] if line else (r.stdout + r.stderr)[-300:]
meta["detection_quick"] = det
meta["caught_by"] = sorted(c for c, l in det.items() if " CAUGHT" in l)
if pid not in old_caught and pid in meta["caught_by"] and not meta.get("history"):
    meta["history"] = os.environ.get("SEED_HISTORY") or "missed by the quick check as it was when the seed arrived; caught after the check was widened (see the list above the table)"
meta["repo_head_redetect"] = subprocess.run("git -C /repo rev-parse --short HEAD", shell=True, capture_output=True, text=True).stdout.strip()
json.dump(meta, open(mp, "w"), indent=1)
print(sid, "caught_by", meta["caught_by"], "|", {k: v[:120] for k, v in det.items() if k in checks})
