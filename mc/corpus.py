"""Universe corpora, layouts and the builder that realises them as real
indexes (RAM or file storage), plus canonical helper functions.

U(D): D documents; field ``s`` holds one term "s%02d" % mask for every
non-empty subset ``mask`` of documents, present exactly in the documents of
the subset - so Term("s", s<mask>) realises ANY posting list over D docs.
Frequencies are decorated by a seed-rotated pattern so weights, lengths,
scores and block statistics differ between postings.
"""
import datetime
import itertools
import os
import random

from mc import core
from mc.qast import Model, fmt_dt

LEX = ["a", "ab", "abc", "abd", "b", "ba", "bab", "c", "ca", "cab"]
PHR = ["x y z", "y x", "x x y", "z", "y z x y", "x z y", "z y x", "y"]
NUMS = [-128, -1, 0, 5, 127, 5, 64, -64]
DATES = [datetime.datetime(2001, 1, 1), datetime.datetime(2001, 1, 1, 0, 0, 0, 1),
         datetime.datetime(1999, 12, 31, 23, 59, 59, 999999),
         datetime.datetime(2030, 6, 15, 12), datetime.datetime(1970, 1, 1),
         datetime.datetime(2001, 1, 2), datetime.datetime(1, 1, 1),
         datetime.datetime(9999, 12, 31, 23, 59, 59, 999999)]


def sterm(mask):
    return "s%02d" % mask


def universe_docs(D, seed=0, decorate=True, mix=False):
    """Model documents of U(D).  mix=True: the frequency of a term in a document
    depends on the document AND the term (the default pattern, 1 + (i + seed) % 3,
    gives every term of a document the same frequency, so the weights of two
    posting lists rise and fall together)."""
    docs = []
    nlex = len(LEX)
    for i in range(D):
        toks = []
        for mask in range(1, 1 << D):
            if mask & (1 << i):
                if decorate:
                    # frequency pattern 1..3, varies by (doc, term, seed)
                    if mix:
                        f = 1 + ((i * i * 5 + (i + 1) * mask + (mask >> 2) * 3 + seed) % 4)
                    else:
                        f = 1 + ((i * 7 + mask * 3 + seed) % 3)
                else:
                    f = 1
                toks.extend([sterm(mask)] * f)
        # padding tokens change the field length without adding postings
        # that matter (term "pad" is never queried)
        if decorate:
            toks.extend(["pad"] * ((i * 5 + seed) % 4))
        w = [LEX[j] for j in range(nlex) if (i * 3 + j * 5 + seed) % 3 == 0]
        if (i + seed) % 5 == 4:
            w = []
        p = PHR[(i + seed) % len(PHR)].split()
        n = NUMS[(i + seed) % len(NUMS)]
        d = DATES[(i + 2 * seed) % len(DATES)]
        b = bool((i + seed) % 2)
        # one doc lacks the numeric/date/bool values
        if i == (seed + 1) % D and D > 2:
            n = None
            d = None
            b = None
        docs.append({"key": "k%d" % i, "live": True, "s": toks, "w": w,
                     "p": p, "n": n, "d": d, "b": b})
    return docs


def make_model(docs):
    return Model(docs, numeric=("n",), dates=("d",), bools=("b",))


def universe_schema():
    from whoosh import fields, analysis
    return fields.Schema(
        key=fields.ID(stored=True, unique=True),
        s=fields.KEYWORD(scorable=True),
        w=fields.KEYWORD(scorable=True),
        p=fields.TEXT(analyzer=analysis.SpaceSeparatedTokenizer(), phrase=True),
        n=fields.NUMERIC(int, bits=8, signed=True, sortable=True),
        d=fields.DATETIME(sortable=True),
        b=fields.BOOLEAN,
        o=fields.NUMERIC(int, sortable=True),
    )


def whoosh_doc(d, order=None):
    out = {"key": d["key"]}
    for f in ("s", "w", "p"):
        if d.get(f):
            out[f] = " ".join(d[f])
    for f in ("n", "d", "b"):
        if d.get(f) is not None:
            out[f] = d[f]
    if order is not None:
        out["o"] = order
    return out


def compositions(n):
    """All compositions of n into positive parts, simplest (fewest parts) first."""
    out = []
    for k in range(1, n + 1):
        for cuts in itertools.combinations(range(1, n), k - 1):
            parts = []
            prev = 0
            for c in cuts + (n,):
                parts.append(c - prev)
                prev = c
            out.append(parts)
    return out


def open_storage(kind, path=None):
    from whoosh.filedb.filestore import RamStorage, FileStorage
    if kind == "ram":
        return RamStorage()
    if path is None:
        path = core.fresh_dir("ix")
    if kind == "file":
        return FileStorage(path, supports_mmap=True)
    if kind == "file_nommap":
        return FileStorage(path, supports_mmap=False)
    raise ValueError(kind)


def codec_for(layout):
    from whoosh.codec.whoosh3 import W3Codec
    bl = layout.get("blocklimit")
    if bl is None:
        return None
    return W3Codec(blocklimit=bl, compression=layout.get("compression", 3))


def build_index(docs, layout, schema=None, to_doc=None):
    """Realise ``docs`` under ``layout``:
      segs:     list of segment sizes (consecutive docs), committed merge=False
      deleted:  list of doc indexes deleted afterwards (delete-only commit)
      optimize: final commit(optimize=True)
      storage:  ram | file | file_nommap
      blocklimit: posting block size (None = codec default)
      compound: False => loose segment files
    Returns (index, docs-with-live-flags)."""
    random.seed(layout.get("nameseed", 0))
    st = open_storage(layout.get("storage", "ram"))
    schema = schema or universe_schema()
    to_doc = to_doc or whoosh_doc
    ix = st.create_index(schema)
    pos = 0
    for n in layout["segs"]:
        w = ix.writer(codec=codec_for(layout))
        if layout.get("compound") is False:
            w.compound = False
        for i in range(pos, pos + n):
            w.add_document(**to_doc(docs[i], i))
        pos += n
        w.commit(merge=False)
    assert pos == len(docs), (pos, len(docs))
    deleted = layout.get("deleted") or []
    docs = [dict(d) for d in docs]
    if deleted:
        w = ix.writer(codec=codec_for(layout))
        for i in deleted:
            w.delete_by_term("key", docs[i]["key"])
            docs[i]["live"] = False
        w.commit(merge=False)
    if layout.get("optimize"):
        w = ix.writer(codec=codec_for(layout))
        if layout.get("compound") is False:
            w.compound = False
        w.commit(optimize=True)
    return ix, docs


def destroy_index(ix):
    st = ix.storage
    try:
        ix.close()
    except Exception:
        pass
    folder = getattr(st, "folder", None)
    if folder and os.path.isdir(folder):
        import shutil
        shutil.rmtree(folder, ignore_errors=True)


def keys_of(searcher, docnums):
    return [searcher.stored_fields(n)["key"] for n in docnums]
