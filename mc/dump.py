"""Canonical logical dump of a real whoosh index.

The dump describes what an index *means* independently of how its documents
are spread over segments (DESIGN.md section 3, rule 3): documents are
identified by a stored unique key, never by document number.

    d = dump.logical_dump(ix_or_reader, keyfield="key")

returns a JSON-able dict with three groups of entries:

layout-independent (always comparable between two builds of the same
logical content):
    "doc_count"   number of live documents
    "docs"        {key: [entry, ...]}  (a list because a key may, in principle,
                  occur more than once; entries are sorted canonically)
                  entry = {"stored": {...}, "lengths": {field: n},
                           "vectors": {field: [[term, weight32, {astype: v}]..]},
                           "columns": {field: value}}
    "stored_all"  sorted multiset of all_stored_fields() (filtered to the
                  current schema) - must agree with "docs"
    "terms"       {field: {term: [[key, weight32, {astype: value}], ...]}}
                  the *logical* lexicon: terms with at least one live posting,
                  postings sorted by key; astype in frequency / positions /
                  characters / position_boosts / character_boosts as far as
                  the field's format supports them

comparable only when neither build holds deleted documents:
    "stats"       {"doc_count_all", "fields": {f: {field_length, min, max}},
                   "terms": {f: {term: {df, cf, weight, minlen, maxlen,
                   maxweight}}}}

layout-dependent (never compared across layouts; used for invariants such as
"one segment after optimize" and group adjacency):
    "physical"    {"doc_count_all", "has_deletions", "segments",
                   "lexicon": {field: [terms]}  (reader.all_terms()),
                   "docnums": {key: [[docnum, segment_index], ...]},
                   "indexed_fields": [...], "raw_stored_fields": [...],
                   "column_files": {field: n segments having the column}}

Exceptions raised by a read API are not propagated: the value becomes the
string "!<ExceptionClass>@<function>" so that a crash on one layout shows up
as an ordinary difference with a recognisable name.

``diff(a, b)`` compares the comparable parts of two dumps and returns a list
of (kind, detail, text) tuples; kind is one of stored / lexicon / postings /
positions / chars / boosts / vectors / columns / lengths / doc_count / stats;
detail is "<field>:<aspect>" wherever a field is concerned.  ``collapse``
folds an aspect that differs for three or more fields at once into one entry
"*:<aspect>" (one generic cause, not one per field).
"""
import struct
import traceback

DECODE_AS = ("frequency", "positions", "characters", "position_boosts",
             "character_boosts")


def f32(x):
    """Weights are stored as 32 bit floats: compare at that precision."""
    try:
        return struct.unpack("<f", struct.pack("<f", float(x)))[0]
    except (OverflowError, struct.error):
        return float(x)


def exc_name(e):
    tb = traceback.extract_tb(e.__traceback__)
    fr = [f for f in tb if "/whoosh/" in f.filename] or list(tb)
    where = "%s:%s" % (fr[-1].filename.split("/")[-1], fr[-1].name) if fr else "?"
    return "!%s@%s" % (type(e).__name__, where)


def _guard(fn, *args):
    try:
        return fn(*args)
    except Exception as e:  # recorded, see module docstring
        return exc_name(e)


def jsonable(v):
    """Stored / column values -> something JSON can hold without losing the
    distinction between types that matter (bytes vs text, tuple vs list is
    not kept)."""
    if v is None or isinstance(v, (bool, int, str)):
        return v
    if isinstance(v, float):
        return v
    if isinstance(v, bytes):
        return "0x" + v.hex()
    if isinstance(v, (list, tuple)):
        return [jsonable(x) for x in v]
    if isinstance(v, dict):
        return dict((str(k), jsonable(x)) for k, x in v.items())
    return repr(v)


def term_text(fieldobj, btext):
    """Readable, unambiguous name of a term."""
    if isinstance(btext, str):
        return btext
    try:
        t = fieldobj.from_bytes(btext)
    except Exception:
        t = None
    if isinstance(t, str):
        return t
    return "0x" + bytes(btext).hex()


def _decode_value(fmt, vbytes):
    out = {}
    if fmt is None or vbytes is None:
        return out
    for name in DECODE_AS:
        if fmt.supports(name):
            try:
                out[name] = jsonable(fmt.decode_as(name, vbytes))
            except Exception as e:
                out[name] = exc_name(e)
    return out


def _canon(x):
    import json
    return json.dumps(x, sort_keys=True, default=repr)


def _read_postings(reader, fieldname, btext, fmt, key_of):
    """[[key, weight32, decoded], ...] of the live postings of a term."""
    out = []
    m = reader.postings(fieldname, btext)
    while m.is_active():
        docnum = m.id()
        out.append([key_of(docnum), f32(m.weight()), _decode_value(fmt, m.value())])
        m.next()
    out.sort(key=_canon)
    return out


def _read_vector(reader, docnum, fieldname, vfmt):
    v = reader.vector(docnum, fieldname)
    out = []
    while v.is_active():
        t = v.id()
        if isinstance(t, bytes):
            try:
                t = t.decode("utf8")
            except UnicodeDecodeError:
                t = "0x" + t.hex()
        out.append([t, f32(v.weight()), _decode_value(vfmt, v.value())])
        v.next()
    return out


def logical_dump(ix_or_reader, keyfield="key", stats=True, physical=True):
    """Canonical logical dump (see module docstring).  Accepts an Index or an
    IndexReader; a reader passed in is not closed."""
    own = False
    reader = ix_or_reader
    if not hasattr(reader, "all_doc_ids"):
        reader = ix_or_reader.reader()
        own = True
    try:
        return _dump_reader(reader, keyfield, stats, physical)
    finally:
        if own:
            reader.close()


def _dump_reader(reader, keyfield, stats, physical):
    schema = reader.schema
    names = sorted(schema.names()) if schema is not None else []
    out = {}
    leaves = list(reader.leaf_readers())
    offsets = [off for _, off in leaves]

    def segment_of(docnum):
        si = 0
        for i, off in enumerate(offsets):
            if docnum >= off:
                si = i
        return si

    # -- documents -------------------------------------------------------
    keycache = {}

    def key_of(docnum):
        k = keycache.get(docnum)
        if k is None:
            try:
                k = reader.stored_fields(docnum).get(keyfield)
            except Exception as e:
                k = exc_name(e)
            k = keycache[docnum] = jsonable(k) if not isinstance(k, str) else k
        return k

    scorable = [n for n in names if schema[n].scorable]
    vecfields = [n for n in names if schema[n].vector]
    colfields = [n for n in names if schema[n].column_type]
    colreaders = {}
    for n in colfields:
        colreaders[n] = _guard(reader.column_reader, n)

    docs = {}
    docnums = {}
    livenums = list(reader.all_doc_ids())
    for docnum in livenums:
        stored = _guard(reader.stored_fields, docnum)
        if isinstance(stored, dict):
            stored = dict((k, jsonable(v)) for k, v in stored.items())
        entry = {"stored": stored, "lengths": {}, "vectors": {}, "columns": {}}
        for n in scorable:
            entry["lengths"][n] = _guard(reader.doc_field_length, docnum, n)
        for n in vecfields:
            hv = _guard(reader.has_vector, docnum, n)
            if hv is True or (hv and not isinstance(hv, str)):
                entry["vectors"][n] = _guard(_read_vector, reader, docnum, n, schema[n].vector)
            elif isinstance(hv, str):
                entry["vectors"][n] = hv
        for n in colfields:
            cr = colreaders[n]
            if isinstance(cr, str):
                entry["columns"][n] = cr
            else:
                entry["columns"][n] = jsonable(_guard(cr.__getitem__, docnum))
        k = key_of(docnum)
        docs.setdefault(k, []).append(entry)
        docnums.setdefault(k, []).append([docnum, segment_of(docnum)])
    for k in docs:
        docs[k].sort(key=_canon)
    out["doc_count"] = _guard(reader.doc_count)
    out["docs"] = docs
    asf = _guard(lambda: list(reader.all_stored_fields()))
    if isinstance(asf, list):
        asf = sorted((dict((k, jsonable(v)) for k, v in d.items() if k in schema)
                      for d in asf), key=_canon)
    out["stored_all"] = asf

    # -- terms -------------------------------------------------------------
    terms = {}
    lexicon = {}
    tstats = {}
    allterms = _guard(lambda: list(reader.all_terms()))
    if isinstance(allterms, str):
        terms["!"] = allterms
        allterms = []
    for fieldname, btext in allterms:
        fieldobj = schema[fieldname]
        tt = term_text(fieldobj, btext)
        lexicon.setdefault(fieldname, []).append(tt)
        posts = _guard(_read_postings, reader, fieldname, btext, fieldobj.format, key_of)
        if posts:
            terms.setdefault(fieldname, {})[tt] = posts
        if fieldname == keyfield:
            # key lookup (what Searcher.document_number(key=...) is built on): the
            # first LIVE document of the term, or TermNotFound when every posting of
            # the term is deleted - independent of whether the segment was rewritten
            try:
                fid = reader.first_id(fieldname, btext)
                fk = "dead-doc:%s" % key_of(fid) if reader.is_deleted(fid) else key_of(fid)
            except Exception as e:
                fk = None if type(e).__name__ in ("TermNotFound", "KeyError") else exc_name(e)
            if fk is not None or (posts and not isinstance(posts, str)):
                out.setdefault("first_key", {})[tt] = fk
        if stats:
            def _ti():
                ti = reader.term_info(fieldname, btext)
                return {"df": ti.doc_frequency(), "weight": f32(ti.weight()),
                        "minlen": ti.min_length(), "maxlen": ti.max_length(),
                        "maxweight": f32(ti.max_weight()),
                        "r_df": reader.doc_frequency(fieldname, btext),
                        "r_cf": f32(reader.frequency(fieldname, btext))}
            tstats.setdefault(fieldname, {})[tt] = _guard(_ti)
    out["terms"] = terms

    if stats:
        fstats = {}
        for n in scorable:
            fstats[n] = {"field_length": _guard(reader.field_length, n),
                         "min": _guard(reader.min_field_length, n),
                         "max": _guard(reader.max_field_length, n)}
        out["stats"] = {"doc_count_all": _guard(reader.doc_count_all),
                        "fields": fstats, "terms": tstats}

    if physical:
        ph = {"doc_count_all": _guard(reader.doc_count_all),
              "has_deletions": bool(_guard(reader.has_deletions)),
              "segments": len(leaves), "lexicon": lexicon, "docnums": docnums}
        ifn = set()
        raw = set()
        colfiles = {}
        for r, _ in leaves:
            try:
                ifn.update(r.indexed_field_names())
            except Exception as e:
                ifn.add(exc_name(e))
            pd = getattr(r, "_perdoc", None)
            if pd is not None:
                try:
                    for dn in pd.all_doc_ids():
                        raw.update(pd.stored_fields(dn).keys())
                except Exception as e:
                    raw.add(exc_name(e))
                for n in names:
                    try:
                        if pd.has_column(n):
                            colfiles[n] = colfiles.get(n, 0) + 1
                    except Exception:
                        pass
        ph["indexed_fields"] = sorted(ifn)
        ph["raw_stored_fields"] = sorted(raw)
        ph["column_files"] = colfiles
        ph["perdoc"] = [pd is not None for pd in
                        (getattr(r, "_perdoc", None) for r, _ in leaves)]
        out["physical"] = ph
    return out


def segment_signature(reader, keyfield="key"):
    """Layout signature used to merge equivalent exploration states: for each
    segment, in order, the keys of ALL its documents (deleted ones too) with a
    live flag, plus which per-document columns and indexed fields the segment
    physically holds."""
    sig = []
    schema = reader.schema
    names = sorted(schema.names()) if schema is not None else []
    for r, _ in reader.leaf_readers():
        docs = []
        for dn in range(r.doc_count_all()):
            try:
                k = r.stored_fields(dn).get(keyfield)
            except Exception:
                k = "?"
            docs.append((k, not r.is_deleted(dn)))
        pd = getattr(r, "_perdoc", None)
        cols = tuple(n for n in names if pd is not None and _has_col(pd, n))
        try:
            ifn = tuple(sorted(r.indexed_field_names()))
        except Exception:
            ifn = ("?",)
        sig.append((tuple(docs), cols, ifn))
    return (tuple(names), tuple(sig))


def _has_col(pd, n):
    try:
        return bool(pd.has_column(n))
    except Exception:
        return False


# -------------------------------------------------------------------------
# comparison

def _close(a, b, tol=1e-6):
    if isinstance(a, (int, float)) and isinstance(b, (int, float)) \
            and not isinstance(a, bool) and not isinstance(b, bool):
        return abs(a - b) <= tol * max(1.0, abs(a), abs(b))
    return a == b


def _eq(a, b):
    """Structural equality with float tolerance."""
    if isinstance(a, dict) and isinstance(b, dict):
        return a.keys() == b.keys() and all(_eq(a[k], b[k]) for k in a)
    if isinstance(a, (list, tuple)) and isinstance(b, (list, tuple)):
        return len(a) == len(b) and all(_eq(x, y) for x, y in zip(a, b))
    return _close(a, b)


def _short(x, n=160):
    s = _canon(x)
    return s if len(s) <= n else s[:n] + "..."


def _posting_kind(pa, pb):
    """Which aspect of two posting lists (same term) differs."""
    ka = [p[0] for p in pa]
    kb = [p[0] for p in pb]
    if ka != kb:
        return "postings", "docs"
    for x, y in zip(pa, pb):
        if not _close(x[1], y[1]):
            return "postings", "weight"
        dx, dy = x[2], y[2]
        for name, kind in (("frequency", "postings"), ("positions", "positions"),
                           ("characters", "chars"), ("position_boosts", "boosts"),
                           ("character_boosts", "boosts")):
            if not _eq(dx.get(name), dy.get(name)):
                return kind, name
    return "postings", "value"


def diff(a, b, with_stats=False, labels=("got", "expected")):
    """Differences between the layout-independent parts of two dumps (plus
    the statistics when with_stats).  Returns [(kind, detail, text)], one per
    (kind, detail) class, empty when equal."""
    out = {}

    def add(kind, detail, text):
        out.setdefault((kind, detail), text)

    la, lb = labels
    if a.get("doc_count") != b.get("doc_count"):
        add("doc_count", "", "doc_count %s=%r %s=%r" % (la, a.get("doc_count"), lb, b.get("doc_count")))
    da, db = a["docs"], b["docs"]
    for k in sorted(set(da) | set(db), key=str):
        if k not in da:
            add("stored", "missing-doc", "document %r missing in %s" % (k, la))
            continue
        if k not in db:
            add("stored", "extra-doc", "document %r only in %s" % (k, la))
            continue
        ea, eb = da[k], db[k]
        if len(ea) != len(eb):
            add("stored", "multiplicity", "key %r: %d docs in %s, %d in %s" % (k, len(ea), la, len(eb), lb))
            continue
        for x, y in zip(ea, eb):
            if not _eq(x["stored"], y["stored"]):
                fl = sorted(f for f in set(x["stored"]) | set(y["stored"])
                            if not _eq(x["stored"].get(f), y["stored"].get(f))) \
                    if isinstance(x["stored"], dict) and isinstance(y["stored"], dict) else ["?"]
                add("stored", ",".join(fl), "doc %r stored %s=%s %s=%s" % (k, la, _short(x["stored"]), lb, _short(y["stored"])))
            for sect, kind in (("lengths", "lengths"), ("vectors", "vectors"), ("columns", "columns")):
                sx, sy = x[sect], y[sect]
                for f in sorted(set(sx) | set(sy)):
                    vx, vy = sx.get(f, "<absent>"), sy.get(f, "<absent>")
                    if not _eq(vx, vy):
                        det = "%s:value" % f
                        if kind == "lengths":
                            det = _len_class(vx, vy)
                            if det == "n/n":
                                det = "%s:value" % f
                        elif isinstance(vx, str) and vx.startswith("!"):
                            det = "%s:%s" % (f, vx)
                        elif isinstance(vy, str) and vy.startswith("!"):
                            det = "%s:%s" % (f, vy)
                        elif kind == "vectors":
                            det = "%s:%s" % (f, "presence" if "<absent>" in (vx, vy) else "content")
                        add(kind, det, "doc %r %s[%s] %s=%s %s=%s" % (k, sect, f, la, _short(vx), lb, _short(vy)))
    fa_, fb_ = a.get("first_key") or {}, b.get("first_key") or {}
    for t in sorted(set(fa_) | set(fb_), key=str):
        if fa_.get(t) != fb_.get(t):
            add("first_id", "key-lookup", "first_id(key field, %r) %s=%r %s=%r" % (t, la, fa_.get(t), lb, fb_.get(t)))
    if not _eq(a.get("stored_all"), b.get("stored_all")):
        add("stored", "all_stored_fields", "all_stored_fields() %s=%s %s=%s" % (la, _short(a.get("stored_all")), lb, _short(b.get("stored_all"))))
    ta, tb = a["terms"], b["terms"]
    for f in sorted(set(ta) | set(tb)):
        fa, fb = ta.get(f, {}), tb.get(f, {})
        if isinstance(fa, str) or isinstance(fb, str):
            add("lexicon", "%s:%s" % (f, fa if isinstance(fa, str) else fb), "all_terms raised")
            continue
        for t in sorted(set(fa) | set(fb)):
            if t not in fa or t not in fb:
                add("lexicon", "%s:terms" % f, "term %s:%r only in %s" % (f, t, la if t in fa else lb))
                continue
            pa, pb = fa[t], fb[t]
            if isinstance(pa, str) or isinstance(pb, str):
                add("postings", "%s:%s" % (f, pa if isinstance(pa, str) else pb), "postings(%s:%r) %s=%s %s=%s" % (f, t, la, _short(pa), lb, _short(pb)))
                continue
            if not _eq(pa, pb):
                kind, det = _posting_kind(pa, pb)
                add(kind, "%s:%s" % (f, det), "postings(%s:%r) %s=%s %s=%s" % (f, t, la, _short(pa, 300), lb, _short(pb, 300)))
    if with_stats:
        sa, sb = a.get("stats") or {}, b.get("stats") or {}
        if sa.get("doc_count_all") != sb.get("doc_count_all"):
            add("stats", "doc_count_all", "doc_count_all %s=%r %s=%r" % (la, sa.get("doc_count_all"), lb, sb.get("doc_count_all")))
        fa, fb = sa.get("fields", {}), sb.get("fields", {})
        for f in sorted(set(fa) | set(fb)):
            xa, xb = fa.get(f, {}), fb.get(f, {})
            for q in sorted(set(xa) | set(xb)):
                if not _eq(xa.get(q), xb.get(q)):
                    v = xa.get(q)
                    w = xb.get(q)
                    cls = v if isinstance(v, str) else (w if isinstance(w, str) else "value")
                    if cls != "value" and q in ("min", "max"):
                        q = "minmax"
                    add("stats", "field:%s:%s" % (q, cls), "%s(%s) %s=%r %s=%r" % (q, f, la, v, lb, w))
        ta, tb = sa.get("terms", {}), sb.get("terms", {})
        for f in sorted(set(ta) | set(tb)):
            xa, xb = ta.get(f, {}), tb.get(f, {})
            for t in sorted(set(xa) & set(xb)):
                va, vb = xa[t], xb[t]
                if isinstance(va, str) or isinstance(vb, str):
                    if va != vb:
                        add("stats", "%s:term_info:%s" % (f, va if isinstance(va, str) else vb), "term_info(%s:%r) %s=%r %s=%r" % (f, t, la, va, lb, vb))
                    continue
                for q in sorted(set(va) | set(vb)):
                    if not _eq(va.get(q), vb.get(q)):
                        add("stats", "%s:term_info.%s" % (f, q), "term_info(%s:%r).%s %s=%r %s=%r" % (f, t, q, la, va.get(q), lb, vb.get(q)))
            for t in sorted(set(xa) ^ set(xb)):
                add("stats", "%s:term_info.lexicon" % f, "term %s:%r has statistics only in %s" % (f, t, la if t in xa else lb))
    return [(k, d, t) for (k, d), t in sorted(out.items())]


PER_FIELD_KINDS = ("lexicon", "postings", "positions", "chars", "boosts", "vectors", "columns", "stats")


def collapse(problems, least=3):
    """[(kind, detail, text)] -> the same list where, for the per-field
    kinds, an aspect reported for >= ``least`` different fields becomes the
    single entry (kind, "*:aspect", first text)."""
    groups = {}
    for k, d, t in problems:
        if k in PER_FIELD_KINDS and ":" in d and not d.startswith("field:"):
            f, rest = d.split(":", 1)
            groups.setdefault((k, rest), []).append(f)
    wide = set(kr for kr, fs in groups.items() if len(set(fs)) >= least)
    out = []
    done = set()
    for k, d, t in problems:
        if k in PER_FIELD_KINDS and ":" in d and not d.startswith("field:"):
            f, rest = d.split(":", 1)
            if (k, rest) in wide:
                if (k, rest) not in done:
                    done.add((k, rest))
                    out.append((k, "*:" + rest, t))
                continue
        out.append((k, d, t))
    return out


def _len_class(vx, vy):
    def c(v):
        if v is None:
            return "None"
        if isinstance(v, str):
            return v
        if v == 0:
            return "0"
        return "n"
    return "/".join(sorted([c(vx), c(vy)]))
