"""E3: stateless schedule exploration of real threads under a cooperative
scheduler with iterative preemption bounding.

Exactly one managed thread runs between two scheduling points.  Scheduling
points are placed (harness side) at
  * every storage-layer call of SchedStorage (a FileStorage subclass),
  * lock acquire / release (SchedFileLock around the real flock lock,
    SchedThreadLock replacing threading.Lock in RamStorage),
  * every sleep of the library's polling loops (virtual clock),
  * optionally every source line of designated functions (sys.settrace).
A run is determined by its list of choices: at every point the enabled
threads are listed in canonical order (the running thread first unless it
yielded voluntarily, then the others by id) and choice i picks the i-th.
Choice 0 everywhere is the non-preemptive default schedule.
"""
import os
import sys
import threading
import traceback
import gc


class Divergence(Exception):
    """Replaying a recorded prefix met a different set of enabled threads."""


class Horizon(Exception):
    pass


class _T(object):
    def __init__(self, tid, fn):
        self.tid = tid
        self.fn = fn
        self.sem = threading.Semaphore(0)
        self.done = False
        self.started = False
        self.exc = None
        self.result = None
        self.label = ("start",)
        self.yielding = False
        self.block_on = None      # object with .is_free() or None
        self.thread = None
        self.n = 0                # scheduling points passed


class Scheduler(object):
    MAXPOINTS = 6000

    def __init__(self, prefix=(), trace_funcs=None):
        self.prefix = list(prefix)
        self.choices = []
        self.decisions = []     # (n_enabled, preemptible, chosen tid, label of chosen)
        self.trace = []         # (tid, label) in execution order
        self.threads = {}
        self.order = []
        self.main_sem = threading.Semaphore(0)
        self.current = None
        self.clock = 0.0
        self.active = False
        self.by_ident = {}
        self.deadlock = None
        self.horizon = False
        self.trace_funcs = trace_funcs or set()
        self.monitors = []      # callables(sched, tid, label) run at every point
        self.problems = []      # monitor findings
        self.state_fn = None    # () -> hashable digest of the shared state
        self.states = set()     # distinct (thread positions, shared state) seen at decisions

    # -- called by the driver ---------------------------------------------
    def spawn(self, tid, fn):
        t = _T(tid, fn)
        self.threads[tid] = t
        self.order.append(tid)
        th = threading.Thread(target=self._body, args=(t,), name="mc-%s" % (tid,))
        th.daemon = True
        t.thread = th
        th.start()
        return t

    def _body(self, t):
        self.by_ident[threading.get_ident()] = t
        t.sem.acquire()
        if self.trace_funcs:
            sys.settrace(self._tracer)
        try:
            t.result = t.fn()
        except BaseException as e:
            t.exc = e
            t.tb = traceback.format_exc()
        finally:
            sys.settrace(None)
            # finalizers of what this body dropped run HERE, in this thread,
            # while its scheduling points still count (cyclic collection is
            # switched off during an execution, see run(): its timing is not
            # owned by the scheduler)
            try:
                t.fn = None
                gc.collect()
            except BaseException as e:
                if t.exc is None:
                    t.exc = e
                    t.tb = traceback.format_exc()
            t.done = True
            self.main_sem.release()

    def _tracer(self, frame, event, arg):
        code = frame.f_code
        qual = getattr(code, "co_qualname", code.co_name)
        key = (os.path.basename(code.co_filename), qual)
        if key in self.trace_funcs or (key[0], "*") in self.trace_funcs:
            return self._line_tracer
        return None

    def _line_tracer(self, frame, event, arg):
        if event == "line":
            code = frame.f_code
            self.point(("line", os.path.basename(code.co_filename), code.co_name, frame.f_lineno))
        return self._line_tracer

    def me(self):
        return self.by_ident.get(threading.get_ident())

    def point(self, label, yielding=False, block_on=None):
        """Scheduling point of the calling managed thread (no-op elsewhere)."""
        if not self.active:
            return
        t = self.me()
        if t is None or t.done:
            return
        t.label = label
        t.yielding = yielding
        t.block_on = block_on
        t.n += 1
        self.main_sem.release()
        t.sem.acquire()
        t.block_on = None
        t.yielding = False

    def sleep(self, seconds):
        self.clock += max(seconds, 0.0)
        self.point(("sleep", round(seconds, 3)), yielding=True)

    def now(self):
        return self.clock

    def _enabled(self):
        out = []
        for tid in self.order:
            t = self.threads[tid]
            if t.done:
                continue
            if t.block_on is not None and not t.block_on.is_free():
                continue
            out.append(t)
        return out

    def run(self):
        """Runs all spawned threads to completion under the choice prefix
        (then choice 0).  Returns True when every thread finished."""
        self.active = True
        gc_was = gc.isenabled()
        gc.collect()
        gc.disable()
        try:
            return self._run()
        finally:
            if gc_was:
                gc.enable()

    def _run(self):
        i = 0
        npoints = 0
        while True:
            en = self._enabled()
            if not en:
                pending = [t for t in self.threads.values() if not t.done]
                if pending:
                    self.deadlock = [(t.tid, t.label) for t in pending]
                break
            if self.state_fn is not None:
                try:
                    shared = self.state_fn()
                except Exception:
                    shared = "?"
                self.states.add((tuple((tid, self.threads[tid].n, self.threads[tid].done) for tid in self.order),
                                 shared))
            cur = self.current
            if cur is not None and cur in en and not cur.yielding:
                order = [cur] + [t for t in en if t is not cur]
                costs = [0] + [1] * (len(order) - 1)
            else:
                # the running thread finished, blocked or yielded: switching
                # is free; round-robin order starting after it.  Re-selecting a
                # thread that has just yielded (a polling loop going round
                # again while others could run) counts as a deviation.
                if cur is not None and cur.tid in self.order:
                    k = self.order.index(cur.tid)
                    rot = self.order[k + 1:] + self.order[:k + 1]
                else:
                    rot = list(self.order)
                order = sorted(en, key=lambda t: rot.index(t.tid))
                costs = [(1 if (t is cur and len(order) > 1) else 0) for t in order]
            preemptible = costs
            if i < len(self.prefix):
                c = self.prefix[i]
                if c >= len(order):
                    raise Divergence("choice %d of %d at decision %d" % (c, len(order), i))
            else:
                c = 0
            chosen = order[c]
            self.choices.append(c)
            self.decisions.append((len(order), preemptible, chosen.tid, chosen.label))
            self.trace.append((chosen.tid, chosen.label))
            i += 1
            npoints += 1
            if npoints > self.MAXPOINTS:
                self.horizon = True
                break
            for mon in self.monitors:
                try:
                    mon(self, chosen.tid, chosen.label)
                except Exception as e:
                    self.problems.append("monitor error %r" % (e,))
            self.current = chosen
            chosen.started = True
            chosen.sem.release()
            self.main_sem.acquire()
        self.active = False
        return self.deadlock is None and not self.horizon

    def abandon(self):
        """Unblocks threads left over after a deadlock/horizon so that they
        can die; they run unscheduled with hooks turned into no-ops."""
        self.active = False
        for t in self.threads.values():
            if not t.done:
                for _ in range(50):
                    t.sem.release()


# ---------------------------------------------------------------------------
# exploration

def explore(make_run, bound, max_execs=None, on_exec=None):
    """DFS over choice sequences with preemption bounding.

    make_run(prefix) -> (scheduler after run, outcome object).  Returns dict
    with executions, decisions, distinct outcomes ... ; on_exec(sched,
    outcome) is called for every execution and may return a violation.
    Iterative: bound 0, 1, ..., bound (executions of smaller bounds are a
    subset, so a single pass with the cost filter visits each schedule once)."""
    stats = {"executions": 0, "decisions": 0, "max_decisions": 0, "capped": False,
             "preemption_bound": bound}
    stack = [[]]
    while stack:
        prefix = stack.pop()
        if max_execs is not None and stats["executions"] >= max_execs:
            stats["capped"] = True
            break
        sched, outcome = make_run(prefix)
        stats["executions"] += 1
        stats["decisions"] += len(sched.decisions)
        stats["max_decisions"] = max(stats["max_decisions"], len(sched.decisions))
        if on_exec is not None:
            stop = on_exec(sched, outcome)
            if stop:
                stats["stopped"] = True
                break
        # branch: at every decision after the prefix, try the alternatives
        cost = 0
        before = []
        for (n, altcosts, tid, label), c in zip(sched.decisions, sched.choices):
            before.append(cost)
            cost += altcosts[c]
        for i in range(len(sched.decisions) - 1, len(prefix) - 1, -1):
            n, altcosts, tid, label = sched.decisions[i]
            base = before[i]
            for alt in range(1, n):
                if alt == sched.choices[i]:
                    continue
                if base + altcosts[alt] > bound:
                    continue
                stack.append(sched.choices[:i] + [alt])
    return stats


# ---------------------------------------------------------------------------
# seams

class VirtualTime(object):
    """Stands in for the ``time`` module inside whoosh modules."""

    def __init__(self, sched):
        self.s = sched

    def time(self):
        return 1000000.0 + self.s.clock

    def sleep(self, d):
        self.s.sleep(d)


class SchedFileLock(object):
    """Wraps the real FileLock: same defaults (non-blocking acquire)."""

    def __init__(self, real, sched, name, registry):
        self.real = real
        self.s = sched
        self.name = name
        self.reg = registry
        self.holder = None

    def is_free(self):
        return not self.reg.get(self.name)

    def acquire(self, blocking=False):
        self.s.point(("lock.acquire", self.name))
        ok = self.real.acquire(False)
        while not ok and blocking:
            self.s.point(("lock.wait", self.name), block_on=self)
            ok = self.real.acquire(False)
        if ok:
            t = self.s.me()
            self.holder = t.tid if t else "main"
            self.reg.setdefault(self.name, []).append(self.holder)
        return ok

    def release(self):
        self.s.point(("lock.release", self.name))
        try:
            self.reg.get(self.name, []).remove(self.holder)
        except ValueError:
            pass
        self.holder = None
        return self.real.release()


class SchedThreadLock(object):
    """Replaces threading.Lock inside RamStorage: same defaults (BLOCKING
    acquire), but waiting is visible to the scheduler."""

    def __init__(self, sched, name="ramlock"):
        self.s = sched
        self.name = name
        self._held = False
        self.holder = None

    def is_free(self):
        return not self._held

    def acquire(self, blocking=True, timeout=-1):
        self.s.point(("lock.acquire", self.name))
        while self._held:
            if not blocking:
                return False
            self.s.point(("lock.wait", self.name), block_on=self)
        self._held = True
        t = self.s.me()
        self.holder = t.tid if t else "main"
        return True

    def release(self):
        self.s.point(("lock.release", self.name))
        if not self._held:
            # exactly what threading.Lock does
            raise RuntimeError("release unlocked lock")
        self._held = False
        self.holder = None

    def locked(self):
        return self._held

    def __enter__(self):
        self.acquire()
        return self

    def __exit__(self, *a):
        self.release()


class SchedRLock(object):
    """Scheduler-aware re-entrant lock (BufferedWriter uses threading.RLock)."""

    def __init__(self, sched, name="rlock"):
        self.s = sched
        self.name = name
        self.owner = None
        self.count = 0

    def is_free(self):
        t = self.s.me()
        return self.owner is None

    def acquire(self, blocking=True, timeout=-1):
        t = self.s.me()
        me = t.tid if t else "main"
        self.s.point(("rlock.acquire", self.name))
        while self.owner is not None and self.owner != me:
            if not blocking:
                return False
            self.s.point(("rlock.wait", self.name), block_on=self)
        self.owner = me
        self.count += 1
        return True

    def release(self):
        self.count -= 1
        if self.count == 0:
            self.owner = None
        self.s.point(("rlock.release", self.name))

    def __enter__(self):
        self.acquire()
        return self

    def __exit__(self, *a):
        self.release()


def make_sched_storage(sched, path, lockreg, mutation_log=None, supports_mmap=True):
    """FileStorage subclass instance whose calls are scheduling points."""
    from whoosh.filedb.filestore import FileStorage

    class SchedStorage(FileStorage):
        def _pt(self, op, name):
            sched.point((op, name))

        def create_file(self, name, **kw):
            self._pt("create_file", name)
            if mutation_log is not None:
                mutation_log.append((sched.me().tid if sched.me() else "main", "create", self._rel(name)))
            f = FileStorage.create_file(self, name, **kw)
            orig_close = f.close

            def close():
                sched.point(("close_file", name))
                return orig_close()
            f.close = close
            return f

        def _rel(self, name):
            return os.path.relpath(os.path.join(self.folder, name), path)

        def open_file(self, name, **kw):
            self._pt("open_file", name)
            return FileStorage.open_file(self, name, **kw)

        def list(self):
            self._pt("list", "")
            return FileStorage.list(self)

        def file_exists(self, name):
            self._pt("file_exists", name)
            return FileStorage.file_exists(self, name)

        def file_length(self, name):
            self._pt("file_length", name)
            return FileStorage.file_length(self, name)

        def delete_file(self, name):
            self._pt("delete_file", name)
            if mutation_log is not None:
                mutation_log.append((sched.me().tid if sched.me() else "main", "delete", self._rel(name)))
            return FileStorage.delete_file(self, name)

        def rename_file(self, a, b, safe=False):
            self._pt("rename_file", b)
            if mutation_log is not None:
                mutation_log.append((sched.me().tid if sched.me() else "main", "rename", self._rel(b)))
            return FileStorage.rename_file(self, a, b, safe=safe)

        def lock(self, name):
            return SchedFileLock(FileStorage.lock(self, name), sched, name, lockreg)

        def temp_storage(self, name=None):
            from whoosh.util import random_name
            name = name or "%s.tmp" % random_name()
            self._pt("temp_storage", name)
            p = os.path.join(self.folder, name)
            st = SchedStorage(p, supports_mmap=self.supports_mmap)
            return st.create()

    return SchedStorage(path, supports_mmap=supports_mmap)


def make_sched_ram_storage(sched):
    """RamStorage subclass instance whose calls are scheduling points (its
    lock objects come from whoosh.filedb.filestore.Lock, patched by the
    driver to SchedThreadLock)."""
    from whoosh.filedb.filestore import RamStorage

    class SchedRamStorage(RamStorage):
        def create_file(self, name, **kw):
            sched.point(("create_file", name))
            f = RamStorage.create_file(self, name, **kw)
            orig_close = f.close

            def close():
                sched.point(("close_file", name))
                return orig_close()
            f.close = close
            return f

        def open_file(self, name, *a, **kw):
            sched.point(("open_file", name))
            return RamStorage.open_file(self, name, *a, **kw)

        def list(self):
            sched.point(("list", ""))
            return RamStorage.list(self)

        def file_exists(self, name):
            sched.point(("file_exists", name))
            return RamStorage.file_exists(self, name)

        def file_length(self, name):
            sched.point(("file_length", name))
            return RamStorage.file_length(self, name)

        def delete_file(self, name):
            sched.point(("delete_file", name))
            return RamStorage.delete_file(self, name)

        def rename_file(self, a, b, safe=False):
            sched.point(("rename_file", b))
            return RamStorage.rename_file(self, a, b, safe=safe)

    return SchedRamStorage()


def dir_digest(path):
    """Cheap signature of a directory image: names and sizes, recursively."""
    out = []
    try:
        for dirpath, dirnames, filenames in os.walk(path):
            rel = os.path.relpath(dirpath, path)
            for fn in filenames:
                try:
                    out.append((rel, fn, os.path.getsize(os.path.join(dirpath, fn))))
                except OSError:
                    out.append((rel, fn, -1))
    except OSError:
        pass
    return tuple(sorted(out))


def ram_digest(st):
    try:
        return tuple(sorted((n, len(st.files[n])) for n in list(st.files)))
    except Exception:
        return ()
