"""setup_cmd: nothing to compile (pure Python).  Verifies the environment the
checks rely on and the determinism of a small slice of the machinery."""
import json
import os
import sys


def run():
    from mc import core
    import whoosh
    src = os.path.realpath(os.path.dirname(os.path.dirname(whoosh.__file__)))
    if src != os.path.realpath(core.REPO_SRC):
        sys.stderr.write("selftest: whoosh imported from %s, expected %s\n" % (src, core.REPO_SRC))
        return 2
    # known findings file parses and has the expected shape
    with open(os.path.join(core.VERIF, "known_findings.json")) as f:
        kf = json.load(f)
    for e in kf["findings"]:
        assert e["status"] in ("known", "fixed") and e["property"] and e["id"] and e["what"]
        if e["status"] == "known":
            assert e.get("sigs"), e["id"]
    # reference evaluator sanity + determinism of one tiny exploration slice
    from mc.checks import c01
    from mc import corpus
    lay = {"segs": [2, 1], "deleted": [1], "blocklimit": 1}
    r1 = c01.task((3, 0, lay, "d1_noternary", 50, 3, "light"))
    r2 = c01.task((3, 0, lay, "d1_noternary", 50, 3, "light"))
    assert r1 == r2, "non-deterministic exploration slice"
    assert r1["counts"]["evaluations"] > 0
    print("selftest ok: whoosh from %s; slice evaluations=%d" % (src, r1["counts"]["evaluations"]))
    return 0
