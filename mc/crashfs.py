"""E2: crash-state enumeration.

RecordingStorage is a FileStorage subclass (harness side, no repository
hook): every call is passed through to the real FileStorage on a tmpfs
directory and every MUTATION is appended to an operation log with paths
relative to the index directory:

  ("create", path) ("write", path, offset, bytes) ("close", path)
  ("rename", old, new) ("delete", path) ("mkdir", path) ("rmdir", path)
  ("lock", path) ("unlock", path) ("mark", label)

A crash point is an index into the log.  The crash states at a point are
computed from the log alone on an in-memory model of the directory (dict path
-> bytes): the log prefix applied to the initial directory image, with every
file that is still OPEN at that instant replaced by each admissible prefix of
its own write records (a process crash loses user-space buffers, so any prefix
of an open file's write stream may be what reached the OS).  Each state is
materialised into a fresh directory and handed to the recovery oracle.
"""
import os

from whoosh.filedb.filestore import FileStorage
from whoosh.filedb.structfile import StructFile


class _RecFile(object):
    """Raw file proxy that logs writes with their offsets."""

    def __init__(self, fileobj, log, relpath):
        self._f = fileobj
        self._log = log
        self._p = relpath
        self._closed = False

    # no fileno attribute on purpose: StructFile then never mmaps a file that
    # is open for writing (it would not anyway)

    def write(self, data):
        off = self._f.tell()
        data = bytes(data)
        if data:
            self._log.append(("write", self._p, off, data))
        return self._f.write(data)

    def seek(self, *a):
        return self._f.seek(*a)

    def tell(self):
        return self._f.tell()

    def read(self, *a):
        return self._f.read(*a)

    def readline(self, *a):
        return self._f.readline(*a)

    def flush(self):
        return self._f.flush()

    def truncate(self, *a):
        raise NotImplementedError("truncate is not modelled")

    def close(self):
        if not self._closed:
            self._closed = True
            self._log.append(("close", self._p))
        return self._f.close()

    @property
    def closed(self):
        return self._f.closed


class _RecLock(object):
    def __init__(self, lock, log, relpath):
        self._l = lock
        self._log = log
        self._p = relpath

    def acquire(self, blocking=False):
        r = self._l.acquire(blocking)
        if r:
            self._log.append(("lock", self._p))
        return r

    def release(self):
        self._log.append(("unlock", self._p))
        return self._l.release()


class RecordingStorage(FileStorage):
    def __init__(self, path, log=None, prefix="", supports_mmap=True):
        FileStorage.__init__(self, path, supports_mmap=supports_mmap)
        self.log = log if log is not None else []
        self.prefix = prefix

    def _rel(self, name):
        return self.prefix + name

    def create_file(self, name, excl=False, mode="wb", **kwargs):
        path = self._fpath(name)
        fileobj = open(path, mode)
        self.log.append(("create", self._rel(name)))
        return StructFile(_RecFile(fileobj, self.log, self._rel(name)), name=name, **kwargs)

    def delete_file(self, name):
        FileStorage.delete_file(self, name)
        self.log.append(("delete", self._rel(name)))

    def rename_file(self, oldname, newname, safe=False):
        existed = os.path.exists(self._fpath(newname))
        FileStorage.rename_file(self, oldname, newname, safe=safe)
        if existed and not safe:
            self.log.append(("delete", self._rel(newname)))
        self.log.append(("rename", self._rel(oldname), self._rel(newname)))

    def lock(self, name):
        return _RecLock(FileStorage.lock(self, name), self.log, self._rel(name))

    def temp_storage(self, name=None):
        from whoosh.util import random_name
        name = name or "%s.tmp" % random_name()
        path = os.path.join(self.folder, name)
        existed = os.path.isdir(path)
        st = RecordingStorage(path, self.log, self._rel(name) + "/", self.supports_mmap)
        st.create()
        if not existed:
            self.log.append(("mkdir", self._rel(name)))
        return st

    def clean(self, ignore=False):
        for fname in self.list():
            try:
                os.remove(os.path.join(self.folder, fname))
                self.log.append(("delete", self._rel(fname)))
            except OSError:
                if not ignore:
                    raise

    def destroy(self):
        self.clean()
        try:
            os.rmdir(self.folder)
            self.log.append(("rmdir", self.prefix.rstrip("/")))
        except (IOError, OSError):
            pass

    def mark(self, label):
        self.log.append(("mark", label))


# ---------------------------------------------------------------------------
# directory images

def read_image(root):
    """dict relpath -> bytes, plus '<dir>/' entries for sub-directories."""
    img = {}
    for dirpath, dirnames, filenames in os.walk(root):
        rel = os.path.relpath(dirpath, root)
        rel = "" if rel == "." else rel + "/"
        if rel:
            img[rel] = None
        for fn in filenames:
            with open(os.path.join(dirpath, fn), "rb") as f:
                img[rel + fn] = f.read()
    return img


def write_image(img, root):
    os.makedirs(root, exist_ok=True)
    for p in sorted(img):
        if p.endswith("/"):
            os.makedirs(os.path.join(root, p), exist_ok=True)
    for p, data in img.items():
        if p.endswith("/"):
            continue
        full = os.path.join(root, p)
        d = os.path.dirname(full)
        if not os.path.isdir(d):
            os.makedirs(d, exist_ok=True)
        with open(full, "wb") as f:
            f.write(data)


def _apply_write(buf, off, data):
    if len(buf) < off:
        buf.extend(b"\0" * (off - len(buf)))
    buf[off:off + len(data)] = data


class CrashModel(object):
    """Replays a log over an initial image and yields crash states."""

    def __init__(self, initial, log):
        self.initial = initial
        self.log = log

    def points(self, every_write=False):
        """Indexes i such that 'crash after log[:i]' is explored.  One per
        storage-layer mutation (create, close, rename, delete, mkdir, rmdir)
        and one at the end of every maximal run of write() calls; a crash
        *inside* a run of writes is what the torn variants of the open files
        at the end of the run represent.  every_write=True makes every
        single write() call a point as well."""
        pts = [0]
        log = self.log
        for i, op in enumerate(log):
            k = op[0]
            if k in ("create", "close", "rename", "delete", "mkdir", "rmdir"):
                pts.append(i + 1)
            elif k == "write":
                nxt = None
                for op2 in log[i + 1:]:
                    if op2[0] in ("mark", "lock", "unlock"):
                        continue
                    nxt = op2
                    break
                if every_write or nxt is None or nxt[0] != "write":
                    pts.append(i + 1)
        return sorted(set(pts))

    def state_at(self, i):
        """(image with every write so far applied, {open path: [write records]})"""
        img = dict((p, (bytearray(d) if d is not None else None)) for p, d in self.initial.items())
        openw = {}
        for op in self.log[:i]:
            k = op[0]
            if k == "create":
                img[op[1]] = bytearray()
                openw[op[1]] = []
            elif k == "write":
                _apply_write(img[op[1]], op[2], op[3])
                if op[1] in openw:
                    openw[op[1]].append((op[2], op[3]))
            elif k == "close":
                openw.pop(op[1], None)
            elif k == "rename":
                img[op[2]] = img.pop(op[1])
                if op[1] in openw:
                    openw[op[2]] = openw.pop(op[1])
            elif k == "delete":
                img.pop(op[1], None)
                openw.pop(op[1], None)
            elif k == "mkdir":
                img[op[1] + "/"] = None
            elif k == "rmdir":
                img.pop(op[1] + "/", None)
        return img, openw

    def crash_states(self, i, byte_cuts=True, rich=True):
        """Yields (variant description, image).  Variant 0 = everything
        written so far reached the disk.  Then, for each open file on its own:
        the write-record prefixes {0,1,2,n/4,n/2,3n/4,n-3,n-2,n-1} of its n
        write records, the last record additionally cut at {1, mid, len-1}
        (every byte if it is <= 8 bytes long);
        finally 'every open file empty'."""
        img, openw = self.state_at(i)
        base = dict((p, (bytes(d) if d is not None else None)) for p, d in img.items())
        yield ("full", base)
        seen = set()
        for path, recs in sorted(openw.items()):
            if not recs:
                continue
            variants = []
            n = len(recs)
            # record prefixes: the first and last few and evenly spaced ones
            if rich:
                js = sorted(set([0, 1, 2, n // 4, n // 2, (3 * n) // 4, n - 3, n - 2, n - 1]) & set(range(n)))
            else:
                js = sorted(set([0, n // 2, n - 1]) & set(range(n)))
            for j in js:
                # records [0..j) applied fully
                variants.append((j, None))
                if byte_cuts and j == n - 1:
                    ln = len(recs[j][1])
                    if ln <= 8:
                        cuts = range(1, ln)
                    else:
                        cuts = sorted(set([1, ln // 2, ln - 1]))
                    for c in cuts:
                        variants.append((j, c))
            for j, c in variants:
                buf = bytearray()
                for off, data in recs[:j]:
                    _apply_write(buf, off, data)
                if c is not None:
                    off, data = recs[j]
                    _apply_write(buf, off, data[:c])
                content = bytes(buf)
                key = (path, content)
                if key in seen or content == base[path]:
                    continue
                seen.add(key)
                v = dict(base)
                v[path] = content
                yield ("%s:records=%d%s" % (path, j, "" if c is None else "+%dB" % c), v)
        if len([p for p, r in openw.items() if r]) > 1:
            v = dict(base)
            for path in openw:
                v[path] = b""
            yield ("all-open-empty", v)


# ---------------------------------------------------------------------------
# OS-level recording (crash points INSIDE storage-layer methods)

class _OsProxy(object):
    """Stands in for the name `os` inside whoosh.filedb.filestore while a
    transaction is recorded: every mutating OS call under the index root is
    appended to the log when it returns, so 'the process died between two
    system calls of ONE storage method' is a crash point like any other.
    Everything else is delegated to the real module."""

    def __init__(self, rec):
        self._rec = rec
        self._fds = {}

    def __getattr__(self, name):
        return getattr(os, name)

    def open(self, path, flags, *a, **kw):
        rel = self._rec.rel(path)
        existed = os.path.exists(path)
        fd = os.open(path, flags, *a, **kw)
        if rel is not None and (flags & (os.O_WRONLY | os.O_RDWR | os.O_CREAT)):
            if not existed or (flags & os.O_TRUNC):
                self._rec.log.append(("create", rel))
            else:
                raise NotImplementedError("OS-level recorder: in-place open of existing %r for writing is not modelled" % rel)
            self._fds[fd] = rel
        return fd

    def fdopen(self, fd, *a, **kw):
        f = os.fdopen(fd, *a, **kw)
        rel = self._fds.pop(fd, None)
        if rel is not None:
            return _RecFile(f, self._rec.log, rel)
        return f

    def close(self, fd):
        rel = self._fds.pop(fd, None)
        r = os.close(fd)
        if rel is not None:
            self._rec.log.append(("close", rel))
        return r

    def write(self, fd, data):
        raise NotImplementedError("OS-level recorder: os.write is not modelled")

    def remove(self, path, *a, **kw):
        r = os.remove(path, *a, **kw)
        rel = self._rec.rel(path)
        if rel is not None:
            self._rec.log.append(("delete", rel))
        return r

    unlink = remove

    def rename(self, old, new, *a, **kw):
        r = os.rename(old, new, *a, **kw)
        ro, rn = self._rec.rel(old), self._rec.rel(new)
        if ro is not None or rn is not None:
            if ro is None or rn is None:
                raise NotImplementedError("OS-level recorder: rename across the index root")
            self._rec.log.append(("rename", ro, rn))
        return r

    replace = rename

    def mkdir(self, path, *a, **kw):
        r = os.mkdir(path, *a, **kw)
        rel = self._rec.rel(path)
        if rel:
            self._rec.log.append(("mkdir", rel))
        return r

    def makedirs(self, path, *a, **kw):
        existed = os.path.isdir(path)
        r = os.makedirs(path, *a, **kw)
        rel = self._rec.rel(path)
        if rel and not existed:
            self._rec.log.append(("mkdir", rel))
        return r

    def rmdir(self, path, *a, **kw):
        r = os.rmdir(path, *a, **kw)
        rel = self._rec.rel(path)
        if rel:
            self._rec.log.append(("rmdir", rel))
        return r

    def truncate(self, *a, **kw):
        raise NotImplementedError("OS-level recorder: truncate is not modelled")


class OsRecorder(object):
    """with OsRecorder(root) as rec: st = rec.storage(); ... ; rec.log

    The real FileStorage methods run unmodified (nothing is overridden except
    lock(), which only adds marks); the names `os` and `open` of the module
    whoosh.filedb.filestore are replaced for the duration."""

    def __init__(self, root, supports_mmap=True):
        self.root = os.path.abspath(root)
        self.log = []
        self.supports_mmap = supports_mmap
        self._saved = None

    def rel(self, path):
        p = os.path.abspath(os.fspath(path))
        if p == self.root:
            return ""
        if p.startswith(self.root + os.sep):
            return p[len(self.root) + 1:]
        return None

    def _open(self, path, mode="r", *a, **kw):
        rel = self.rel(path)
        if rel is None or not any(c in mode for c in "wax+"):
            return open(path, mode, *a, **kw)
        if "a" in mode or "+" in mode and "w" not in mode:
            raise NotImplementedError("OS-level recorder: open mode %r is not modelled" % mode)
        f = open(path, mode, *a, **kw)
        self.log.append(("create", rel))
        return _RecFile(f, self.log, rel)

    def __enter__(self):
        from whoosh.filedb import filestore
        if getattr(filestore, "os", None) is not os:
            raise RuntimeError("seam whoosh.filedb.filestore.os not found / already patched")
        self._saved = filestore
        filestore.os = _OsProxy(self)
        filestore.open = self._open
        return self

    def __exit__(self, *exc):
        fs = self._saved
        fs.os = os
        try:
            del fs.open
        except AttributeError:
            pass
        return False

    def storage(self):
        rec = self

        class _St(FileStorage):
            def lock(self, name):
                r = rec.rel(self._fpath(name))
                return _RecLock(FileStorage.lock(self, name), rec.log, r)

        return _St(self.root, supports_mmap=self.supports_mmap)

    def mark(self, label):
        self.log.append(("mark", label))
