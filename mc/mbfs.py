"""E4 for matchers: explicit-state breadth-first search over call programs on
REAL matcher objects.

A state is the program (list of ops) that reaches it; it is rebuilt by replay
on a fresh matcher (live matchers do not deep-copy reliably and copy() is
itself under test).  States are merged by a generic digest of the real
object graph (class names + every scalar attribute + child matchers,
recursively) together with the model position, so merged states have the
same futures.  The list model L of a matcher is recorded once by a fresh
next()-only traversal.
"""
import traceback


SCALARS = (int, float, bool, type(None), str, bytes)


def mdigest(m, depth=0):
    from whoosh.matching import Matcher
    if depth > 12:
        return ("deep",)
    items = [type(m).__name__]
    d = getattr(m, "__dict__", None)
    if d:
        for k in sorted(d):
            v = d[k]
            if isinstance(v, SCALARS):
                items.append((k, v))
            elif isinstance(v, Matcher):
                items.append((k, mdigest(v, depth + 1)))
            elif isinstance(v, (list, tuple)) and v and all(isinstance(x, Matcher) for x in v):
                items.append((k, tuple(mdigest(x, depth + 1) for x in v)))
    return tuple(items)


def whoosh_where(e):
    tb = traceback.extract_tb(e.__traceback__)
    fr = [f for f in tb if "/whoosh/" in f.filename] or list(tb)
    return "%s:%s" % (fr[-1].filename.split("/")[-1], fr[-1].name)


def close(a, b, tol=1e-9):
    return abs(a - b) <= tol * max(1.0, abs(a), abs(b))


class Reader(object):
    """What is read at an entry; fields that the matcher cannot deliver are
    recorded as the marker 'n/a' (decided on the fresh traversal)."""

    def __init__(self, scored=True):
        self.scored = scored

    def read(self, m, want=None):
        e = {"id": m.id()}
        if self.scored and (want is None or "score" in want):
            e["score"] = m.score()
        if want is None or "weight" in want:
            try:
                e["weight"] = m.weight()
            except Exception:
                e["weight"] = "n/a"
        if want is None or "value" in want:
            try:
                e["value"] = m.value()
            except Exception:
                e["value"] = "n/a"
        if want is None or "spans" in want:
            try:
                ok = m.supports("positions")
            except Exception:
                ok = False
            if ok:
                try:
                    e["spans"] = [(s.start, s.end) for s in m.spans()]
                except Exception:
                    e["spans"] = "n/a"
            else:
                e["spans"] = "n/a"
        if want is None or "terms" in want:
            try:
                e["terms"] = sorted(set(m.matching_terms(m.id())))
            except Exception:
                e["terms"] = "n/a"
        return e


def entries_equal(a, b):
    """None if equal, else the name of the first differing field."""
    for k in a:
        if k not in b:
            continue
        x, y = a[k], b[k]
        if x == "n/a" or y == "n/a":
            continue
        if isinstance(x, float) and isinstance(y, float):
            if not close(x, y):
                return k
        elif x != y:
            return k
    return None


def reference_list(make, reader):
    """Fresh next()-only traversal."""
    m = make()
    L = []
    guard = 0
    while m.is_active():
        L.append(reader.read(m))
        m.next()
        guard += 1
        if guard > 10000:
            raise RuntimeError("runaway matcher")
    return L


class Violation(Exception):
    def __init__(self, kind, detail):
        Exception.__init__(self, kind + ": " + detail)
        self.kind = kind
        self.detail = detail


class ProtocolRunner(object):
    """Runs one program against a fresh matcher, tracking the model position
    in the list model L, and raises Violation at the first disagreement."""

    general_thresholds = False   # skip_to_quality(q>0) as BFS transitions (off: outside C11's alphabet)

    def __init__(self, make, L, reader, maxid):
        self.make = make
        self.L = L
        self.reader = reader
        self.maxid = maxid

    def fresh(self):
        self.m = self.make()
        self.pos = 0
        self.replaced = False
        self.taint = None     # largest threshold given to skip_to_quality so far
        self.originals = []   # (matcher, pos) that must stay where they are
        self.check_here("fresh")

    def check_here(self, after):
        m, L, pos = self.m, self.L, self.pos
        act = m.is_active()
        if act != (pos < len(L)):
            raise Violation("active", "after %s: is_active()=%r but model position %d of %d"
                            % (after, act, pos, len(L)))
        if act:
            i = m.id()
            if i != L[pos]["id"]:
                raise Violation("id", "after %s: id()=%r, model says %r (list %r)"
                                % (after, i, L[pos]["id"], [e["id"] for e in L]))
            e = self.reader.read(m)
            diff = entries_equal(L[pos], e)
            if diff and self.taint is not None and diff in ("score", "weight", "terms", "spans", "value"):
                # after skip_to_quality(q) an additive matcher may have moved
                # one side past postings of entries that cannot beat q: such
                # entries may read LOWER (a contribution is missing), never
                # higher, and entries scoring more than q must read exactly
                sc = L[pos].get("score")
                if isinstance(sc, float) and sc <= self.taint * (1 + 1e-9) + 1e-12:
                    got = e.get("score")
                    if not isinstance(got, float) or got <= sc * (1 + 1e-9) + 1e-12:
                        diff = None
            if diff:
                raise Violation("read:" + diff, "after %s at id %r: %s read %r, fresh traversal read %r"
                                % (after, i, diff, e.get(diff), L[pos].get(diff)))

    def enabled(self, with_quality=True):
        """Ops whose documented precondition holds in the current state."""
        ops = []
        if self.pos < len(self.L):
            ops.append(("next",))
            for t in range(0, self.maxid + 2):
                ops.append(("skip_to", t))
            if with_quality:
                try:
                    sq = self.m.supports_block_quality()
                except Exception:
                    sq = False
                if sq:
                    ops.append(("skip_to_quality", 0))
                    # thresholds taken from the list itself: the score of the
                    # current entry and the best remaining score (so the
                    # matcher really has to move), applied to the LIVE object
                    # whose id() has just been read (cached ids must be
                    # refreshed by the skip)
                    rest = [e.get("score") for e in self.L[self.pos:] if isinstance(e.get("score"), float)]
                    if rest and self.general_thresholds:
                        qs = sorted(set([rest[0], max(rest)]))
                        for q in qs:
                            if q > 0:
                                ops.append(("skip_to_quality", q))
        ops.append(("replace", 0))
        ops.append(("copy",))
        ops.append(("copy_adv",))
        if not self.replaced:
            ops.append(("reset",))
        return ops

    def apply(self, op):
        m, L = self.m, self.L
        name = op[0]
        if hasattr(self, "prog"):
            self.prog.append(op)
        if name == "next":
            m.next()
            self.pos += 1
        elif name == "skip_to":
            t = op[1]
            m.skip_to(t)
            p = self.pos
            while p < len(L) and L[p]["id"] < t:
                p += 1
            self.pos = p
        elif name == "skip_to_quality" and op[1] != 0:
            q = op[1]
            self.taint = q if self.taint is None else max(self.taint, q)
            m.skip_to_quality(q)
            if m.is_active():
                i = m.id()
                idx = None
                for j in range(self.pos, len(L)):
                    if L[j]["id"] == i:
                        idx = j
                        break
                if idx is None:
                    raise Violation("skipq-off-list", "after skip_to_quality(%r) id()=%r is not a remaining entry "
                                    "(remaining %r)" % (q, i, [e["id"] for e in L[self.pos:]]))
                lost = [e["id"] for e in L[self.pos:idx] if e.get("score", 0) > q * (1 + 1e-9) + 1e-12]
                if lost:
                    raise Violation("skipq-lost", "skip_to_quality(%r) passed over entries %r scoring more" % (q, lost))
                if idx != self.pos:
                    self.moved_by_skipq = getattr(self, "moved_by_skipq", 0) + 1
                self.pos = idx
            else:
                lost = [e["id"] for e in L[self.pos:] if e.get("score", 0) > q * (1 + 1e-9) + 1e-12]
                if lost:
                    raise Violation("skipq-lost", "skip_to_quality(%r) exhausted the matcher although entries %r "
                                    "score more" % (q, lost))
                self.pos = len(L)
        elif name == "skip_to_quality":
            # threshold 0 with all scores > 0: nothing may be passed over
            if all(e.get("score", 1.0) > 0 for e in L[self.pos:]):
                m.skip_to_quality(0)
            else:
                return
        elif name == "replace":
            self.m = m.replace()
            self.replaced = True
        elif name == "copy":
            c = m.copy()
            self.originals.append((m, self.pos))
            self.m = c
        elif name == "copy_adv":
            c = m.copy()
            if c.is_active():
                c.next()
                if c.is_active() and self.pos + 1 < len(L):
                    if c.id() != L[self.pos + 1]["id"]:
                        raise Violation("copy-id", "advanced copy is at %r, model says %r"
                                        % (c.id(), L[self.pos + 1]["id"]))
        elif name == "reset":
            m.reset()
            self.pos = 0
            self.taint = None
        else:
            raise ValueError(op)
        self.check_here(repr(op))
        for om, opos in self.originals:
            act = om.is_active()
            if act != (opos < len(L)) or (act and om.id() != L[opos]["id"]):
                raise Violation("copy-aliasing", "after %r the matcher that was copied moved: "
                                "active=%r id=%r, expected position %d" %
                                (op, act, om.id() if act else None, opos))

    def run(self, prog):
        self.fresh()
        self.prog = []
        for op in prog:
            self.apply(op)

    def blind(self, prog):
        """Applies the moving ops of prog to a fresh matcher WITHOUT reading
        anything in between (no id()/score() calls that could warm caches)."""
        m = self.make()
        for op in prog:
            name = op[0]
            if name == "next":
                m.next()
            elif name == "skip_to":
                m.skip_to(op[1])
            elif name == "skip_to_quality":
                m.skip_to_quality(op[1])
            elif name == "replace":
                m = m.replace()
            elif name == "copy":
                m = m.copy()
            elif name == "reset":
                m.reset()
        return m

    def key(self):
        return (mdigest(self.m), self.pos, self.replaced, self.taint,
                tuple((mdigest(om), op) for om, op in self.originals))


def bfs(make, reader, maxid, maxdepth, extra_state_check=None, with_quality=True):
    """Returns dict(states, transitions, executions, maxdepth_reached,
    violation) ; violation = (kind, detail, program) or None."""
    out = {"states": 0, "transitions": 0, "executions": 0, "depth": 0, "violation": None}
    try:
        L = reference_list(make, reader)
    except Exception as e:
        out["violation"] = ("exc:%s@%s" % (type(e).__name__, whoosh_where(e)),
                            "fresh next()-only traversal raised %r" % (e,), [])
        return out
    # ids strictly increasing
    ids = [e["id"] for e in L]
    if any(b <= a for a, b in zip(ids, ids[1:])):
        out["violation"] = ("order", "ids not strictly increasing: %r" % (ids,), [])
        return out
    try:
        allids = list(make().all_ids())
    except Exception as e:
        out["violation"] = ("exc:%s@%s" % (type(e).__name__, whoosh_where(e)),
                            "all_ids() raised %r" % (e,), [("all_ids",)])
        return out
    if allids != ids:
        out["violation"] = ("all_ids", "all_ids()=%r, stepping gives %r" % (allids, ids), [("all_ids",)])
        return out
    out["L"] = L
    runner = ProtocolRunner(make, L, reader, maxid)
    seen = set()
    frontier = [[]]
    runner.fresh()
    seen.add(runner.key())
    out["states"] = 1
    depth = 0
    while frontier and depth < maxdepth:
        nxt = []
        for prog in frontier:
            try:
                runner.run(prog)
                out["executions"] += 1
                ops = runner.enabled(with_quality)
            except Violation as v:
                out["violation"] = (v.kind, v.detail, prog)
                return out
            for op in ops:
                p2 = prog + [op]
                out["transitions"] += 1
                try:
                    runner.run(prog)
                    runner.apply(op)
                    out["executions"] += 1
                    if extra_state_check is not None:
                        extra_state_check(runner)
                    k = runner.key()
                except Violation as v:
                    out["violation"] = (v.kind, v.detail, p2)
                    return out
                except Exception as e:
                    out["violation"] = ("exc:%s@%s" % (type(e).__name__, whoosh_where(e)),
                                        "%r raised %r" % (op, e), p2)
                    return out
                if k not in seen:
                    seen.add(k)
                    nxt.append(p2)
        depth += 1
        frontier = nxt
    out["states"] = len(seen)
    out["depth"] = depth
    out["frontier_left"] = len(frontier)
    return out
