"""Single table of the checks that exist (MANIFEST.json is generated from it)."""
HOOK_COMMITS = []

CHECKS = {
    "C01": {
        "engine": "E1", "level": "exploration",
        "technique": "bounded-exhaustive enumeration of query trees x posting-list alignments x segment layouts x access paths on the real code, against a reference evaluator",
        "text": "Every query tree up to the stated depth over a universe corpus that realises every posting-list alignment for D<=4..5 documents, on every segment composition / deletion set, through every access path, is compared with an independent set-semantics evaluator. Complete within the bound; says nothing about larger documents counts or deeper trees.",
        "note": "Trusted: the reference evaluator in mc/qast.py (documented meaning), identification of documents by stored key. Bounds: D<=5 documents, tree depth<=2, block size 1-2.",
    },
    "C02": {
        "engine": "E2", "level": "fault_enumeration",
        "technique": "exhaustive crash-point enumeration: the real writer runs over a recording storage layer, a crash is reconstructed after every storage mutation with every admissible torn prefix of open files, each crash image is re-opened by the real code and compared with the old/new logical state",
        "text": "For every transaction of the alphabet (add, add+delete, update, delete-only, schema add/remove field, empty) x ending (commit merge=False / default merge with MERGE_SMALL firing / optimize / CLEAR / custom merge / cancel / exception in with-block) x compound or loose segments, from every start state of the family (empty, 1-2 segments, with deletions, 5 small segments): a crash after every storage-layer mutation, with torn variants of every open file. Each materialised crash image must open, equal exactly the old or the new state (monotonically; old before commit() is entered, new after it returns, always old for cancel), be searchable, accept a new writer, and that writer's commit must leave no orphaned segment file, extra TOC or temp directory.",
        "note": "Trusted: the process-crash model (closed files, renames and deletes are durable in order; any write-record prefix of an open file may be lost), the canonical dump in mc/checks/c02.py. Power-loss reordering is outside the model.",
    },
    "C03": {
        "engine": "E3", "level": "model_checking",
        "technique": "stateless schedule exploration of a real writer thread against a real reader thread under a cooperative scheduler with iterative preemption bounding at storage-call granularity; oracle = per-generation probe model from a sequential run",
        "text": "For storage {file mmap, file no-mmap, RAM} x {compound, loose} x 14 writer histories (append, optimize, delete-only, add+optimize, CLEAR, default merge, update, delete+optimize, a second delete on a segment, an empty commit, two-transaction histories), reader and writer on separate Index objects or sharing ONE Index object (with a cancelled delete in between), multi- and single-segment start states: a reader opens a searcher, probes stored fields/lexicon/postings/search, probes lazily opened parts (sort column, vectors), asks up_to_date(), refreshes, probes, opens a fresh searcher and probes, while the writer commits; every schedule with <=2 (thorough 3) preemptions runs on the real code. Every probe must equal the model of the generation the searcher reports; opened/refreshed searchers must report a generation between the last commit completed before the call and the last completed by its end; up_to_date() must agree; no exception may escape.",
        "note": "Trusted: scheduler owns storage-level nondeterminism (threads stand in for processes); generation models come from a sequential run of the same history; commit instant = TOC rename.",
    },
    "C04": {
        "engine": "E3", "level": "model_checking",
        "technique": "stateless schedule exploration of real writer threads under a cooperative scheduler with iterative preemption bounding (storage-call, lock and polling-sleep granularity), monitors at every step and an end-state oracle",
        "text": "2-3 real writer threads race on one index (FileStorage with the real flock; RamStorage with its lock made visible to the scheduler) for every pair of endings {commit, cancel, exception in with-block, clean with-block}, with and without polling timeouts, with deletes and merging commits, an AsyncWriter (write-through or buffering with its replay thread) against a writer that keeps its transaction open, and three writers with open(2)/flock(2) of the lock file as separate steps: every schedule with <=2 preemptions (3 writers: 1; thorough 3/2) is executed on the real code. Checked: at most one lock holder and no index-file mutation without the lock at every step; no deadlock/livelock; only LockError escapes writer(); final documents = fold of successful commits; generation advanced by exactly the number of successful commits; the index is writable afterwards.",
        "note": "Trusted: the scheduler owns all nondeterminism that threads share through the directory (storage calls, locks, polling sleeps under a virtual clock); a determinism gate replays the default schedule twice. Cross-process flock is represented by flock between file descriptors of one process.",
    },
    "C05": {
        "engine": "E1", "level": "exploration",
        "technique": "bounded-exhaustive enumeration of query trees x posting-list alignments x k x weighting models x block sizes x layouts, differential against the exhaustive ranking of the same searcher",
        "text": "Every binary operator over all 64x64 posting-list alignments of a 6-document universe corpus with 1-3 postings per block (so block skipping and matcher replacement engage, which is measured), 3-leaf/nested/boosted/special-leaf trees over 12 representative alignments, k=1..5, twelve weighting configurations, filter/mask/collapse/terms variants, plus 12 positional queries (Phrase with slop, Phrase inside Or/And/AndMaybe, SpanNear/Near2/First/Or/Not/Before/Contains) over every assignment of 8 token sequences to 4 (thorough 5) documents x block size x segment split: the limited search must equal the prefix of the unlimited one. Complete within those bounds.",
        "note": "Trusted: search(limit=None) as the reference ranking (its own correctness is C01/C09), float tolerance 1e-9. Bounds: 6 documents, depth<=2.",
    },
    "C06": {
        "engine": "E1", "level": "exploration",
        "technique": "bounded-exhaustive enumeration of operation lists x commit splits x per-commit merge choices x block sizes x writer front-ends on the real code, layouts merged by physical signature, each compared with the single-commit optimised build and a dictionary model",
        "text": "Operation lists up to length 3-7 over {add, group(parent,child), update, delete, update of a deleted key, remove_field} on a schema covering positions/chars/boosts, vectors, columns of indexed fields, pure COLUMN fields (neither indexed nor stored) and stored-only fields; every split into commits x {merge=False, default MERGE_SMALL, optimize, custom merge of the two oldest segments} x blocklimit {2,128} x {plain, BufferedWriter, AsyncWriter, SerialMpWriter, MpWriter in real processes}. Every reached physical layout is dumped (stored values, lexicon, postings with weights/positions/chars/boosts, lengths, vectors, columns, statistics and BM25F scores when nothing is deleted) and must equal the reference; optimize must leave one clean segment; groups must stay adjacent.",
        "note": "Trusted: canonical dump (mc/dump.py) keyed by the stored unique key; layouts with equal segment signatures are assumed to have equal futures; layout-dependent quantities are only compared when no document is deleted.",
    },
    "C07": {
        "engine": "E4", "level": "model_checking",
        "technique": "explicit-state BFS where one transition is one writer transaction on a real index, states deduplicated by a canonical form of the real index, dictionary model checked through every read API in every state",
        "text": "Transactions of 0-2 ops (thorough 3) from {add, update, delete_by_term on key/word, delete_by_query over Or/Not/Every/And, delete_document on every live docnum, undelete, add_field/remove_field} x endings {commit merge=False / default / optimize, cancel, exception in with-block, with-exit, Index convenience calls} x unique-field configurations {ID, NUMERIC, two unique fields} x storage, from the empty index and from a 5-segment index with deletions; BFS to depth 3-4 (thorough 4-5). plus undelete/delete swaps inside one segment that already has a deletion. In every state all read APIs (including a posting list positioned with skip_to() on every document number) must agree with the dictionary model, and a searcher held from before the transaction and refresh()ed after the commit must read exactly like a freshly opened one; delete_by_* return values are exact; cancel/exception leave dump, generation and lock exactly as before.",
        "note": "Trusted: dictionary model with the documented update/delete semantics; canonical state = per-segment (key, text, deleted) lists + schema.",
    },
    "C08": {
        "engine": "E1", "level": "exploration",
        "technique": "bounded-exhaustive enumeration of value alphabets x presence patterns x segment layouts x storage configurations, and of column types x row counts around internal thresholds x sparse patterns, on the real code against a Python list/dict model",
        "text": "Index level: 11 field families (every shipped stored/sortable type, the _stored_ override, all column types) x all 16 presence patterns over 4 documents x all 8 segment compositions x {plain, optimize, merge, delete+optimize} x {RAM, mmap, no mmap} x {compound, loose} incl. copy_to_ram; column level: 35 column configurations x 3 back-ends, every assignment to <=3-4 rows, 255/256/257 rows x sparse patterns, RefBytes around 65536 distinct values, VarBytes offsets/retyping through forced small cutoffs and 32K/64K/70KB values. Every stored value, column value, default and Hit fallback must equal the model.",
        "note": "Trusted: the Python list/dict model; documents identified by an indexed unique key. Offsets above 2^31 are out of bound.",
    },
    "C09": {
        "engine": "E1", "level": "exploration",
        "technique": "bounded-exhaustive enumeration of postings x weighting models x boosts x layouts (leaf law against documented formulas over re-derived statistics) and of query trees x alignments x access paths (composition law against leaf scores measured on the same searcher)",
        "text": "Leaf law: every posting of U(5) under all 16 segment compositions (+optimised, file storage, loose files), 13 weighting configurations, field/document/query boosts: Term score equals the documented formula on float32 weight, byte-approximated length and statistics re-derived from the corpus. Composition law: every tree of the families leaf/two/three (ArrayUnionMatcher)/boosted/zero/const/opaque/nested/multiterm over all posting alignments of U(4)-U(5) with deletions: score equals the documented composition of leaf scores through search, terms=True, limited search, matcher stepping, filter/mask/collapse/groupedby and (no deletions) every layout.",
        "note": "Trusted: formulas written from the documentation (BM25F, idf, TF_IDF, Frequency); PL2/DFree only as the shipped functions applied to model-derived arguments; tolerance 1e-9 (1e-6 for float32).",
    },
    "C10": {
        "engine": "E1", "level": "exploration",
        "technique": "bounded-exhaustive enumeration of token streams x posting formats x block sizes x compression x inlining x codecs x write paths on the real code, against a plain-Python token model",
        "text": "Every token stream up to length 2-3 over a 4-term alphabet (long and non-BMP terms, boosts, position gaps), every posting-list length around block multiples for block sizes 1,2,3,128, all six posting/vector formats, W3 (compound/loose, compression, inline limit), memory and plain-text codecs, through IndexWriter, merges and the raw codec API: postings, term statistics and vectors read back must equal the model. Complete within those bounds. The same corpora are also kept in 2-3 segments and read through the multi-segment reader (MultiMatcher, combined term infos) and then through every segment's own reader; the in-memory codec is also written by several writers in turn; every term statistic is asked twice.",
        "note": "Trusted: the token model in mc/checks/c10.py; weights compared to float32 precision; min/max length accepted exact or through the documented byte approximation.",
    },
    "C11": {
        "engine": "E4", "level": "model_checking",
        "technique": "explicit-state BFS over matcher call programs on real matcher objects with state hashing (digest of the real object graph + model position), against a list model",
        "text": "For every matcher built from the C01 query families over U(2..4) (scored and boolean contexts, with deletions, multi-segment MultiMatcher leaves) and directly constructed array/preloaded/filter/inverse/wrapping/list/span matchers: all call programs over {next, skip_to(t), skip_to_quality(0), replace(), copy, copy+advance, reset} up to depth 4 (thorough 6) are explored breadth-first with deduplication; in every state the cursor must sit at the model position and read what a fresh next()-only traversal read there; the list must equal the reference evaluator's result.",
        "note": "Trusted: the object's own fresh next()-only traversal as list model (cross-checked against mc/qast.py), the generic state digest. Only calls whose documented precondition holds are made.",
    },
    "C12": {
        "engine": "E4", "level": "model_checking",
        "technique": "explicit-state BFS over matcher call programs on real matcher objects (states merged by object-graph digest), quality invariants and threshold operations checked in every reachable state against the list model",
        "text": "For every matcher tree of the families leaf/two/three/and3/boost/nested/direct over U(6) with 1-3 postings per block, single and multi-segment, with deletions, and every weighting that claims quality support (BM25F variants, TF_IDF, Frequency, Multi; PL2/DFree/Reverse/Function must not claim it): in every state reachable by {next, skip_to, copy, replace(0)} programs to depth 3-4: block_quality() >= current score (leaf: >= every score of the block), max_quality() >= every remaining score; for every threshold from the remaining scores, bounds, midpoints, 0, -1, max+1: skip_to_quality(q), replace(q) and replace(q)+skip_to_quality(q) never lose an entry scoring above q nor change its score. Plus monotonicity of length_to_byte/byte_to_length and of the scoring functions on the stored grid.",
        "note": "Trusted: list model from a fresh next()-only traversal; mbfs state digest; tolerance 1e-9.",
    },
    "C13": {
        "engine": "E1", "level": "exploration",
        "technique": "exhaustive enumeration of 8-bit numeric domains (all values, all start<=end pairs, all shift steps) and boundary-alphabet exhaustive enumeration for wider types, on the real code against Python comparison",
        "text": "8-bit signed/unsigned: sortable encoding is a strictly monotone bijection; split_ranges tiles [start,end] exactly for every pair and step; tiered_ranges for every (start,end,excl,excl) incl. None; NumericRange on real indexes holding every value (and one with holes). 16/32/64-bit ints, float, Decimal, DATETIME: every ordered pair of 37-53 boundary values x 4 exclusivity combinations on an index holding the alphabet, round trips, sort order; out-of-domain values must be rejected in five contexts. DATETIME: every value of the boundary alphabet typed as a period of every precision (year .. microsecond) through the query parser, as a term and as open/closed range bounds, incl. the periods touching both ends of the domain.",
        "note": "Trusted: Python's own comparison on the original values. Wider types are covered through boundary alphabets only.",
    },
    "C14": {
        "engine": "E1", "level": "exploration",
        "technique": "bounded-exhaustive enumeration of sort-key assignments x key types x segment layouts x deletions x limits/pages x filter/mask forms x facets x collapse settings on the real code, against a plain-Python model (sorted(), partitions, slices)",
        "text": "Every assignment docs -> {missing,v1,v2,v3} for D=3..5 documents applied to every key type (text/numeric/date/boolean with and without column, stored-field, query/range/function facets, score), every segment composition incl. segments lacking the column, two-key sorts with mixed directions, every filter x mask set in every object form, all pages, overlapping facets, collapse limits and orders: order, groups, collapse survivors, filtered subsequence, page slices and len() must equal the model. After a filtered search the caller's filter/mask objects (set, BitSet, Results) must be unchanged and give the model answer when re-used alone and together on the same searcher.",
        "note": "Trusted: the model in mc/checks/c14.py; only the documented placement of missing values is demanded; ties in collapse_order accepted either way.",
    },
    "C15": {
        "engine": "E1", "level": "exploration",
        "technique": "bounded-exhaustive enumeration of query trees x rewrites, differential on an all-document-contents corpus (equivalence on it implies equivalence on every index over the vocabulary)",
        "text": "Every query tree to depth 2 (thorough 3) over 40 leaf kinds and all constructors/operators, and every well-formed parser string up to 3 clauses: normalize (idempotent, exception-free), &,|,-, with_boost, replace, apply/accept, deepcopy, pickle, simplify, estimate_size and parse(normalize=True) vs False are compared with the original query on the corpus V in 1- and 2-segment form.",
        "note": "Trusted: the original query executed by docs_for_query as the reference (cross-checked with search(limit=None)); documented removal of empty queries accepted.",
    },
    "C16": {
        "engine": "E1", "level": "exploration",
        "technique": "bounded-exhaustive enumeration of token strings x parser configurations (totality) and of expression trees x renderings x configurations against the reference evaluator on an all-contents corpus (meaning)",
        "text": "Totality: every string of <=3 tokens over a 42-token grammar-aware alphabet, 4-5 tokens over reduced alphabets, and range templates on every field type, through 8 parser configurations; parse() may only return a Query or raise QueryParserError and the result searched on three indexes may only raise QueryError. Meaning: every expression tree up to 4 leaves over the documented constructs, three parenthesisation styles, 4 configurations: matched documents equal the reference reading (NOT > AND > OR > binary operators > implicit grouping).",
        "note": "Trusted: mc/qast.py reference evaluator; undocumented constructs (unparenthesised mixing of ANDNOT/ANDMAYBE/REQUIRE, *:*) are not generated.",
    },
    "C17": {
        "engine": "E1", "level": "exploration",
        "technique": "bounded-exhaustive enumeration of texts (all concatenations of <=3-4 chunks from a 13-chunk alphabet) x 64 analyzer/field configurations on the real code, checked by relations between whoosh's own index-time, query-time, phrase, offset and highlighting paths",
        "text": "Every text of <=3 (thorough 4) chunks over an alphabet of letters, case, stop word, accented/multi-char-lowercase characters, alphanumerics, hyphen/apostrophe/URL forms, whitespace, punctuation and a 70-character word, for every shipped analyzer and filter chain on TEXT/KEYWORD/ID/NGRAM/NGRAMWORDS fields: the document is found by each index-time token, by the conjunction of its query-time tokens and by the parser's reading of the text, by every phrase of consecutive tokens; positions are non-decreasing, offsets are in range and re-analyse to the token; highlights stripped of markup are substrings and marked spans are matched terms for every fragmenter x formatter. R6: the highlighter's re-tokenisation (index mode, stop words kept but marked stopped) must leave exactly the index-time tokens with the same offsets. Five field types are also registered as dynamic (glob) fields.",
        "note": "Trusted: only relations between whoosh's own paths plus Python string slicing (no second tokenizer). Single-segment RAM index per shard.",
    },
    "C18": {
        "engine": "E3", "level": "model_checking",
        "technique": "bounded-exhaustive enumeration of operation lists x storage x packing x writer front-end against a reference dump (sequential product), plus stateless schedule exploration of AsyncWriter/BufferedWriter threads under a cooperative scheduler with line-level points inside the front-ends",
        "text": "Part A: every operation list of length <=2 (thorough 3) over {add, update, delete} x 2 keys x 2 texts through {RAM, file mmap, file no-mmap, copy_to_ram} x {compound, loose} x {plain, BufferedWriter limit 1-3, AsyncWriter, SerialMpWriter, MpWriter with real processes (procs 2; procs 3 multisegment)} must give the reference canonical dump. Part C: operation lists incl. sparse documents on a schema whose ID/TEXT/KEYWORD/NUMERIC fields all have sort columns plus a dynamic (glob) field, through BufferedWriter limit 1-4: after EVERY operation the writer's own searcher (stored fields, every column value, vectors, lengths, postings, sort orders) and after close() the reopened index must equal the plain-writer reference. Part D: the same lists and schema through plain/Buffered/Async/SerialMp/Mp (2 procs; 3 procs multisegment)/copy_to_ram. Part B: an AsyncWriter racing a plain writer that holds the lock (commit/cancel/optimize; the holder renumbers documents or adds the term the AsyncWriter deletes), and a BufferedWriter shared by two adder threads, an observer (searcher() must show exactly the documents whose add had returned / started) and its flush timer: every schedule with <=1 (thorough 2) preemptions; afterwards close() must leave exactly all documents on disk. Part E: a BufferedWriter kept open across flushes whose commits optimise / merge by default / do not merge, from start states with deleted documents on disk, every operation list of length <=4 (thorough 5) over {add, update, delete} x 2 keys: its own searcher after every operation and the index after close() equal the plain-writer reference.",
        "note": "Trusted: reference = plain writer on RAM with one transaction per operation; scheduler owns storage/lock/sleep and (inside BufferedWriter methods) line-level nondeterminism. Real MpWriter process timing is not controlled, only its outcome is compared.",
    },
    "C19": {
        "engine": "E1", "level": "exploration",
        "technique": "bounded-exhaustive enumeration of lexicons x query words x distances x prefixes x segment layouts on the real code, against independent edit-distance references",
        "text": "Every subset of the 6 words of length <=2 over 2 letters, the full lexicons of all words of length <=4 over 3 letters and over a multi-byte alphabet, every query word of length <=5 (incl. empty), maxdist 0..3, prefix 0..4 (incl. longer than the word), one-segment (automaton) and multi-segment (brute force) readers: terms_within, FuzzyTerm, suggest and correct_query against reference distances; results must also agree across layouts.",
        "note": "Trusted: the reference distances in mc/qast.py and mc/checks/c19.py. Where restricted and unrestricted Damerau-Levenshtein differ only cross-layout equality is demanded.",
    },
    "C20": {
        "engine": "E4", "level": "model_checking",
        "technique": "explicit-state BFS over id-set operation sequences with canonical state hashing against Python sets, plus bounded-exhaustive enumeration of hash-file key sequences, encodings, external sorts and compound files",
        "text": "Id sets: BFS to depth 4 (thorough: to the fixpoint of the state space) over ~300 operations per state on BitSet/SortedIntSet/ReverseIdSet with OnDiskBitSet and MultiIdSet views of every state, all observations compared with a Python set in every state. Tables/codecs: every key sequence <=4 over 11 keys incl. forced bucket/slot/hash collisions, ordered-file probes, varint/GrowableArray boundaries, StructFile items, external sort inputs <=5 items, compound files over member subsets.",
        "note": "Trusted: Python set / dict / sorted() as reference models; canonical state = the real representation (bit-array bytes etc.).",
    },
}

NOT_APPLICABLE = {}
