"""Single table of the checks that exist (MANIFEST.json is generated from it)."""
HOOK_COMMITS = []

CHECKS = {
    "C01": {
        "engine": "E1", "level": "exploration",
        "technique": "bounded-exhaustive enumeration of query trees x posting-list alignments x segment layouts x access paths on the real code, against a reference evaluator",
        "text": "Every query tree up to the stated depth over a universe corpus that realises every posting-list alignment for D<=4..5 documents, on every segment composition / deletion set, through every access path, is compared with an independent set-semantics evaluator. Complete within the bound; says nothing about larger documents counts or deeper trees.",
        "note": "Trusted: the reference evaluator in mc/qast.py (documented meaning), identification of documents by stored key. Bounds: D<=5 documents, tree depth<=2, block size 1-2.",
    },
}

NOT_APPLICABLE = {}
