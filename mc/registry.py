"""Single table of the checks that exist (MANIFEST.json is generated from it)."""
HOOK_COMMITS = []

CHECKS = {
    "C01": {
        "engine": "E1", "level": "exploration",
        "technique": "bounded-exhaustive enumeration of query trees x posting-list alignments x segment layouts x access paths on the real code, against a reference evaluator",
        "text": "Every query tree up to the stated depth over a universe corpus that realises every posting-list alignment for D<=4..5 documents, on every segment composition / deletion set, through every access path, is compared with an independent set-semantics evaluator. Complete within the bound; says nothing about larger documents counts or deeper trees.",
        "note": "Trusted: the reference evaluator in mc/qast.py (documented meaning), identification of documents by stored key. Bounds: D<=5 documents, tree depth<=2, block size 1-2.",
    },
    "C05": {
        "engine": "E1", "level": "exploration",
        "technique": "bounded-exhaustive enumeration of query trees x posting-list alignments x k x weighting models x block sizes x layouts, differential against the exhaustive ranking of the same searcher",
        "text": "Every binary operator over all 64x64 posting-list alignments of a 6-document universe corpus with 1-3 postings per block (so block skipping and matcher replacement engage, which is measured), 3-leaf/nested/boosted/special-leaf trees over 12 representative alignments, k=1..5, eight weighting configurations, filter/mask/collapse/terms variants: the limited search must equal the prefix of the unlimited one. Complete within those bounds.",
        "note": "Trusted: search(limit=None) as the reference ranking (its own correctness is C01/C09), float tolerance 1e-9. Bounds: 6 documents, depth<=2.",
    },
}

NOT_APPLICABLE = {}
