"""Query ASTs (JSON-able tuples/lists), their translation to whoosh query
objects, and the *reference evaluator* that gives their documented meaning on
a corpus model.  The evaluator never touches whoosh.

AST forms (lists so they survive JSON):
  ["term", f, text]            ["every"]  ["everyf", f]   ["null"]
  ["prefix", f, text]  ["wild", f, pat]  ["regex", f, pat]
  ["trange", f, lo, hi, loexcl, hiexcl]      (lo/hi may be None)
  ["nrange", f, lo, hi, loexcl, hiexcl]      numeric field
  ["drange", f, lo, hi, loexcl, hiexcl]      datetime field, ISO strings
  ["fuzzy", f, text, maxdist, prefixlen]
  ["phrase", f, [w1, w2..], slop]
  ["and", [kids]] ["or", [kids]] ["dismax", [kids]]
  ["not", kid] ["andnot", a, b] ["andmaybe", a, b] ["require", a, b]
  ["boost", kid, factor]       (only meaningful for scores)
  ["const", kid, score]        ConstantScoreQuery
"""
import re
import fnmatch
import datetime


def to_whoosh(ast):
    from whoosh import query as Q
    k = ast[0]
    if k == "term":
        return Q.Term(ast[1], ast[2])
    if k == "every":
        return Q.Every()
    if k == "everyf":
        return Q.Every(ast[1])
    if k == "null":
        return Q.NullQuery
    if k == "prefix":
        return Q.Prefix(ast[1], ast[2])
    if k == "wild":
        return Q.Wildcard(ast[1], ast[2])
    if k == "regex":
        return Q.Regex(ast[1], ast[2])
    if k == "trange":
        return Q.TermRange(ast[1], ast[2], ast[3], ast[4], ast[5])
    if k == "nrange":
        return Q.NumericRange(ast[1], ast[2], ast[3], ast[4], ast[5])
    if k == "drange":
        lo = parse_dt(ast[2])
        hi = parse_dt(ast[3])
        return Q.DateRange(ast[1], lo, hi, ast[4], ast[5])
    if k == "fuzzy":
        return Q.FuzzyTerm(ast[1], ast[2], maxdist=ast[3], prefixlength=ast[4])
    if k == "phrase":
        return Q.Phrase(ast[1], list(ast[2]), slop=ast[3])
    if k == "and":
        return Q.And([to_whoosh(x) for x in ast[1]])
    if k == "or":
        return Q.Or([to_whoosh(x) for x in ast[1]])
    if k == "dismax":
        return Q.DisjunctionMax([to_whoosh(x) for x in ast[1]])
    if k == "not":
        return Q.Not(to_whoosh(ast[1]))
    if k == "andnot":
        return Q.AndNot(to_whoosh(ast[1]), to_whoosh(ast[2]))
    if k == "andmaybe":
        return Q.AndMaybe(to_whoosh(ast[1]), to_whoosh(ast[2]))
    if k == "require":
        return Q.Require(to_whoosh(ast[1]), to_whoosh(ast[2]))
    if k == "boost":
        return to_whoosh(ast[1]).with_boost(ast[2])
    if k == "const":
        return Q.ConstantScoreQuery(to_whoosh(ast[1]), ast[2])
    raise ValueError("unknown ast %r" % (ast,))


def parse_dt(s):
    if s is None:
        return None
    # (not strptime/strftime: %Y is not zero-padded for years below 1000 on glibc)
    d, t = s.split("T")
    y, mo, da = d.split("-")
    hms, us = t.split(".")
    h, mi, se = hms.split(":")
    return datetime.datetime(int(y), int(mo), int(da), int(h), int(mi), int(se), int(us))


def fmt_dt(d):
    if d is None:
        return None
    return "%04d-%02d-%02dT%02d:%02d:%02d.%06d" % (d.year, d.month, d.day, d.hour, d.minute, d.second, d.microsecond)


# -- documented edit distance (restricted Damerau-Levenshtein, as in
#    whoosh.support.levenshtein's docstring: insert/delete/substitute/
#    transpose adjacent) ------------------------------------------------------

def damerau(a, b):
    la, lb = len(a), len(b)
    d = [[0] * (lb + 1) for _ in range(la + 1)]
    for i in range(la + 1):
        d[i][0] = i
    for j in range(lb + 1):
        d[0][j] = j
    for i in range(1, la + 1):
        for j in range(1, lb + 1):
            cost = 0 if a[i - 1] == b[j - 1] else 1
            v = min(d[i - 1][j] + 1, d[i][j - 1] + 1, d[i - 1][j - 1] + cost)
            if (i > 1 and j > 1 and a[i - 1] == b[j - 2]
                    and a[i - 2] == b[j - 1]):
                v = min(v, d[i - 2][j - 2] + 1)
            d[i][j] = v
    return d[la][lb]


def levenshtein(a, b):
    prev = list(range(len(b) + 1))
    for i in range(1, len(a) + 1):
        cur = [i] + [0] * len(b)
        for j in range(1, len(b) + 1):
            cur[j] = min(prev[j] + 1, cur[j - 1] + 1,
                         prev[j - 1] + (a[i - 1] != b[j - 1]))
        prev = cur
    return prev[len(b)]


# -- reference evaluator -----------------------------------------------------

class Model(object):
    """docs: list of dicts {"key": str, "live": bool, field: tokens-or-value}.
    Token fields hold a list of token strings in position order; numeric /
    datetime / boolean fields hold the value or None."""

    def __init__(self, docs, numeric=(), dates=(), bools=()):
        self.docs = docs
        self.numeric = set(numeric)
        self.dates = set(dates)
        self.bools = set(bools)

    def live(self):
        return set(d["key"] for d in self.docs if d.get("live", True))

    def lexicon(self, f):
        # physical lexicon may still contain terms of deleted docs; matching
        # is always decided per live document so that makes no difference
        s = set()
        for d in self.docs:
            v = d.get(f)
            if isinstance(v, list):
                s.update(v)
        return s

    def has_field(self, d, f):
        v = d.get(f)
        if isinstance(v, list):
            return len(v) > 0
        return v is not None


def _in_range(x, lo, hi, loexcl, hiexcl):
    if lo is not None:
        if x < lo or (loexcl and x == lo):
            return False
    if hi is not None:
        if x > hi or (hiexcl and x == hi):
            return False
    return True


def doc_matches(ast, d, model):
    k = ast[0]
    if k == "term":
        v = d.get(ast[1])
        return isinstance(v, list) and ast[2] in v
    if k == "every":
        return True
    if k == "everyf":
        return model.has_field(d, ast[1])
    if k == "null":
        return False
    if k in ("prefix", "wild", "regex", "trange", "fuzzy"):
        v = d.get(ast[1])
        if not isinstance(v, list):
            return False
        for t in set(v):
            if term_selected(ast, t):
                return True
        return False
    if k == "nrange":
        v = d.get(ast[1])
        if v is None:
            return False
        return _in_range(v, ast[2], ast[3], ast[4], ast[5])
    if k == "drange":
        v = d.get(ast[1])
        if v is None:
            return False
        return _in_range(v, parse_dt(ast[2]), parse_dt(ast[3]), ast[4], ast[5])
    if k == "phrase":
        v = d.get(ast[1])
        if not isinstance(v, list):
            return False
        return phrase_matches(v, list(ast[2]), ast[3])
    if k == "and":
        return all(doc_matches(x, d, model) for x in ast[1])
    if k in ("or", "dismax"):
        return any(doc_matches(x, d, model) for x in ast[1])
    if k == "not":
        return not doc_matches(ast[1], d, model)
    if k == "andnot":
        return doc_matches(ast[1], d, model) and not doc_matches(ast[2], d, model)
    if k == "andmaybe":
        return doc_matches(ast[1], d, model)
    if k == "require":
        return doc_matches(ast[1], d, model) and doc_matches(ast[2], d, model)
    if k in ("boost", "const"):
        return doc_matches(ast[1], d, model)
    raise ValueError("unknown ast %r" % (ast,))


def term_selected(ast, t):
    k = ast[0]
    if k == "prefix":
        return t.startswith(ast[2])
    if k == "wild":
        return fnmatch.fnmatchcase(t, ast[2])
    if k == "regex":
        # whoosh.query.Regex: "terms that match a regular expression", decided
        # with re.match (anchored at the start only)
        return re.match(ast[2], t) is not None
    if k == "trange":
        return _in_range(t.encode("utf8"),
                         None if ast[2] is None else ast[2].encode("utf8"),
                         None if ast[3] is None else ast[3].encode("utf8"),
                         ast[4], ast[5])
    if k == "fuzzy":
        p = ast[4]
        if t[:p] != ast[2][:p]:
            return False
        return damerau(ast[2], t) <= ast[3]
    raise ValueError(k)


def phrase_matches(tokens, words, slop):
    """exists p1<..<pn with tokens[pi]==words[i], 1 <= p(i+1)-p(i) <= slop"""
    if not words:
        return False
    if len(words) == 1:
        return words[0] in tokens
    pos = {}
    for i, t in enumerate(tokens):
        pos.setdefault(t, []).append(i)
    if any(w not in pos for w in words):
        return False
    cur = set(pos[words[0]])
    for w in words[1:]:
        nxt = set()
        for p in pos[w]:
            for q in cur:
                if 1 <= p - q <= slop:
                    nxt.add(p)
                    break
        cur = nxt
        if not cur:
            return False
    return True


def ref_eval(ast, model):
    """Set of keys of live documents satisfying the query."""
    return set(d["key"] for d in model.docs
               if d.get("live", True) and doc_matches(ast, d, model))


def leaves(ast):
    k = ast[0]
    if k in ("and", "or", "dismax"):
        for x in ast[1]:
            for l in leaves(x):
                yield l
    elif k in ("not", "boost", "const"):
        for l in leaves(ast[1]):
            yield l
    elif k in ("andnot", "andmaybe", "require"):
        for l in leaves(ast[1]):
            yield l
        for l in leaves(ast[2]):
            yield l
    else:
        yield ast


def shape(ast):
    """Operator skeleton of an AST, leaves reduced to their kind."""
    k = ast[0]
    if k in ("and", "or", "dismax"):
        return "%s(%s)" % (k, ",".join(shape(x) for x in ast[1]))
    if k in ("not",):
        return "not(%s)" % shape(ast[1])
    if k in ("boost", "const"):
        return "%s(%s)" % (k, shape(ast[1]))
    if k in ("andnot", "andmaybe", "require"):
        return "%s(%s,%s)" % (k, shape(ast[1]), shape(ast[2]))
    return k
