"""Runner shared by every check: tiers, process pool, evidence, replay
artefacts, known-findings matching.

A check module (mc/checks/cNN.py) defines

    PID    = "C01"
    LEVEL  = "exploration" | "fault_enumeration" | "model_checking"
    def run(ctx)              # drive the exploration, call ctx.* helpers
    def replay(case) -> dict  # re-run ONE recorded case as a plain function;
                              # returns {"ok": bool, "what": str, ...}

All counts that end up in the evidence file are accumulated by the run.
"""
import os
import sys
import json
import time
import hashlib
import random
import shutil
import tempfile
import traceback
import multiprocessing

VERIF = os.path.dirname(os.path.dirname(os.path.abspath(__file__)))
REPO = os.environ.get("WHOOSH_REPO", "/repo")
REPO_SRC = os.path.join(REPO, "src")
GUARD = "WHOOSH_VERIF"
# evidence/ and replays/ go under VERIF unless redirected (used when a check
# is pointed at a scratch copy of the repository through WHOOSH_REPO)
OUT = os.environ.get("VERIF_OUT") or VERIF
NPROC = int(os.environ.get("VERIF_PROCS", "16"))

_scratch_root = None


def scratch_root():
    """Private scratch directory of this process (tmpfs).  Pool workers do
    not run atexit handlers, so their directories are created inside the
    main process's directory (WHVERIF_PARENT), which the main process
    removes at exit / when the pool is closed."""
    global _scratch_root
    if _scratch_root is None or not os.path.isdir(_scratch_root):
        parent = os.environ.get("WHVERIF_PARENT")
        if parent and os.path.isdir(parent):
            base = parent
        else:
            base = "/dev/shm" if os.path.isdir("/dev/shm") else None
        _scratch_root = tempfile.mkdtemp(prefix="whverif_%d_" % os.getpid(),
                                         dir=base)
        # RamStorage.temp_storage() uses tempfile.gettempdir()/<name>.tmp and
        # destroy() empties it: every process needs its own.
        tempfile.tempdir = _scratch_root
        if base != parent:
            os.environ["WHVERIF_PARENT"] = _scratch_root
            import atexit
            atexit.register(_cleanup, _scratch_root, os.getpid())
    return _scratch_root


def _cleanup(path, pid):
    if os.getpid() == pid:
        shutil.rmtree(path, ignore_errors=True)


def _remove_stale_scratch():
    """Scratch directories of check processes that no longer exist (killed
    runs cannot clean up after themselves)."""
    base = "/dev/shm"
    try:
        names = os.listdir(base)
    except OSError:
        return
    for n in names:
        if not n.startswith("whverif_"):
            continue
        try:
            pid = int(n.split("_")[1])
        except (IndexError, ValueError):
            continue
        if not os.path.exists("/proc/%d" % pid):
            shutil.rmtree(os.path.join(base, n), ignore_errors=True)


def fresh_dir(prefix="d"):
    return tempfile.mkdtemp(prefix=prefix, dir=scratch_root())


_LINECOV = {"seen": set(), "dumped": 0, "on": False}


def _linecov_start():
    """VERIF_LINECOV=<dir>: development aid (never part of a verdict): records
    which source lines of whoosh the check executes, so blind spots of the
    drivers can be found (tools/linecov.py merges the per-process files)."""
    if _LINECOV["on"] or not os.environ.get("VERIF_LINECOV"):
        return
    mon = sys.monitoring
    tool = 3
    try:
        mon.use_tool_id(tool, "whverif-linecov")
    except ValueError:
        return
    seen = _LINECOV["seen"]
    prefix = os.path.realpath(REPO_SRC)

    def on_line(code, line):
        fn = code.co_filename
        if fn.startswith(prefix) or fn.startswith(REPO_SRC):
            seen.add((fn, line))
        return mon.DISABLE

    mon.register_callback(tool, mon.events.LINE, on_line)
    mon.set_events(tool, mon.events.LINE)
    _LINECOV["on"] = True


def _linecov_dump():
    if not _LINECOV["on"]:
        return
    seen = _LINECOV["seen"]
    if len(seen) == _LINECOV["dumped"]:
        return
    _LINECOV["dumped"] = len(seen)
    d = os.environ["VERIF_LINECOV"]
    os.makedirs(d, exist_ok=True)
    write_json(os.path.join(d, "lc_%d.json" % os.getpid()), sorted(seen))


def setup_process(seed=0):
    """Called first in the main process and in every pool worker."""
    if sys.path[0] != REPO_SRC:
        sys.path.insert(0, REPO_SRC)
    _linecov_start()
    os.environ[GUARD] = "1"
    import warnings
    warnings.filterwarnings("ignore", category=SyntaxWarning)
    random.seed(seed)
    scratch_root()


def _worker_init(seed):
    global _scratch_root
    _scratch_root = None
    setup_process(seed)
    import signal
    signal.signal(signal.SIGINT, signal.SIG_IGN)
    signal.signal(signal.SIGTERM, signal.SIG_DFL)


def _call(args):
    fn, task = args
    try:
        t0 = time.time()
        res = fn(task)
        if isinstance(res, dict) and os.environ.get("VERIF_PROGRESS"):
            # sizing aid: worker seconds per kind of task (first two scalar fields)
            lab = "/".join(str(x) for x in (task if isinstance(task, (tuple, list)) else [task])
                           if isinstance(x, (str, int)))[:40]
            res["_task_s"] = (lab, time.time() - t0)
        _linecov_dump()
        return res
    except Exception:
        return {"harness_error": traceback.format_exc(), "task": repr(task)[:2000]}


def digest(obj):
    return hashlib.sha1(json.dumps(obj, sort_keys=True, default=repr)
                        .encode("utf8")).hexdigest()[:16]


class HarnessError(Exception):
    pass


class Interrupted(Exception):
    """The run was asked to stop (SIGTERM, or VERIF_BUDGET_S seconds used):
    what has been covered so far is reported, the run is not called exhaustive."""


_STOP = {"flag": False, "deadline": None}


def _on_sigterm(signum, frame):
    _STOP["flag"] = True


class _NoDaemonProcess(multiprocessing.get_context("fork").Process):
    @property
    def daemon(self):
        return False

    @daemon.setter
    def daemon(self, value):
        pass


class _NoDaemonContext(type(multiprocessing.get_context("fork"))):
    Process = _NoDaemonProcess


class Ctx(object):
    def __init__(self, pid, level, tier, seed):
        self.pid = pid
        self.level = level
        self.tier = tier
        self.seed = seed
        self.t0 = time.time()
        self.counters = {}
        self.samples = []
        self.rule = ""
        self.assumptions = []
        self.extra = {}
        self.exhaustive = True
        self.caps = []
        # sig -> {"count": n, "cases": [case...], "what": str}
        self.viol = {}
        self._pool = None

    # -- counting ---------------------------------------------------------
    def count(self, key, n=1):
        self.counters[key] = self.counters.get(key, 0) + n

    def merge_counts(self, d):
        for k, v in d.items():
            self.counters[k] = self.counters.get(k, 0) + v

    def sample(self, x, maxn=6):
        if len(self.samples) < maxn:
            self.samples.append(x)

    def cap(self, text):
        self.exhaustive = False
        self.caps.append(text)

    # -- violations -------------------------------------------------------
    def violation(self, sig, case, what, n=1):
        v = self.viol.setdefault(sig, {"count": 0, "cases": [], "what": what})
        v["count"] += n
        if len(v["cases"]) < 3:
            v["cases"].append(case)

    def absorb(self, res):
        """Merge one worker result: {"counts": {...}, "viol": [(sig, case,
        what, n)...], "samples": [...]}"""
        if res is None:
            return
        if "harness_error" in res:
            raise HarnessError(res["harness_error"] + "\n task=" + res.get("task", ""))
        self.merge_counts(res.get("counts", {}))
        if "_task_s" in res:
            lab, dt = res["_task_s"]
            ts = self.__dict__.setdefault("task_seconds", {})
            ts[lab] = round(ts.get(lab, 0) + dt, 1)
        for item in res.get("viol", ()):
            sig, case, what = item[0], item[1], item[2]
            n = item[3] if len(item) > 3 else 1
            self.violation(sig, case, what, n)
        for s in res.get("samples", ()):
            self.sample(s)

    # -- parallel map -----------------------------------------------------
    def pool(self):
        if self._pool is None:
            # workers must be able to start processes of their own (MpWriter
            # sub-writers), so they are not daemonic
            import multiprocessing.pool
            self._pool = multiprocessing.pool.Pool(NPROC, initializer=_worker_init,
                                                   initargs=(self.seed,), context=_NoDaemonContext())
        return self._pool

    def pmap(self, fn, tasks, chunksize=1, absorb=True):
        """Run fn over tasks on the pool; absorbs standard results."""
        tasks = list(tasks)
        out = []
        if NPROC <= 1 or len(tasks) <= 1:
            it = (_call((fn, t)) for t in tasks)
        else:
            it = self.pool().imap_unordered(_call, [(fn, t) for t in tasks],
                                            chunksize)
        t0 = last = time.time()

        def results():
            # poll, so that a stop request is honoured while tasks are running
            if not hasattr(it, "next"):
                for r in it:
                    yield r
                return
            n = 0
            while True:
                try:
                    r = it.next(timeout=5)
                except multiprocessing.TimeoutError:
                    if _STOP["flag"] or (_STOP["deadline"] and time.time() > _STOP["deadline"]):
                        raise Interrupted("stopped after %d of %d tasks of this stage (%s)"
                                          % (n, len(tasks), "SIGTERM" if _STOP["flag"] else "VERIF_BUDGET_S used up"))
                    continue
                except StopIteration:
                    return
                n += 1
                yield r

        for n, res in enumerate(results()):
            if _STOP["flag"] or (_STOP["deadline"] and time.time() > _STOP["deadline"]):
                raise Interrupted("stopped after %d of %d tasks of this stage (%s)"
                                  % (n, len(tasks), "SIGTERM" if _STOP["flag"] else "VERIF_BUDGET_S used up"))
            if os.environ.get("VERIF_PROGRESS") and time.time() - last > 30:
                last = time.time()
                sys.stderr.write("[progress] %d/%d tasks %.0fs violations=%d %s\n"
                                 % (n + 1, len(tasks), last - t0, len(self.viol),
                                    json.dumps(self.__dict__.get("task_seconds", {}), sort_keys=True)))
                sys.stderr.flush()
            if absorb:
                self.absorb(res)
            else:
                if isinstance(res, dict) and "harness_error" in res:
                    raise HarnessError(res["harness_error"])
            out.append(res)
        return out

    def close(self):
        if self._pool is not None:
            self._pool.close()
            self._pool.join()
            self._pool = None

    def __del__(self):
        try:
            if self._pool is not None:
                self._pool.terminate()
        except Exception:
            pass


class Acc(object):
    """Per-task accumulator used inside workers; .result() is what a task
    function returns."""

    def __init__(self, max_per_sig=2):
        self.counts = {}
        self.viol = {}
        self.samples = []
        self.max_per_sig = max_per_sig

    def count(self, k, n=1):
        self.counts[k] = self.counts.get(k, 0) + n

    def violation(self, sig, case, what):
        v = self.viol.get(sig)
        if v is None:
            self.viol[sig] = [case, what, 1]
        else:
            v[2] += 1

    def sample(self, s, maxn=2):
        if len(self.samples) < maxn:
            self.samples.append(s)

    def result(self):
        return {"counts": self.counts,
                "viol": [(sig, v[0], v[1], v[2]) for sig, v in self.viol.items()],
                "samples": self.samples}


# -------------------------------------------------------------------------

def load_known(pid):
    path = os.path.join(VERIF, "known_findings.json")
    if not os.path.exists(path):
        return []
    with open(path) as f:
        data = json.load(f)
    return [e for e in data.get("findings", []) if e.get("property") == pid]


def _matches(entry, sig):
    import fnmatch
    for pat in entry.get("sigs", []):
        if pat == sig or fnmatch.fnmatchcase(sig, pat):
            return True
    return False


def write_json(path, obj):
    os.makedirs(os.path.dirname(path), exist_ok=True)
    tmp = path + ".tmp%d" % os.getpid()
    with open(tmp, "w") as f:
        json.dump(obj, f, indent=1, sort_keys=True, default=repr)
        f.write("\n")
    os.replace(tmp, path)


def finish(ctx, mod):
    ctx.close()
    _linecov_dump()
    known = [e for e in load_known(ctx.pid) if e.get("status") == "known"]
    new = []
    known_hit = {}
    for sig, v in sorted(ctx.viol.items()):
        ent = None
        for e in known:
            if _matches(e, sig):
                ent = e
                break
        if ent is not None:
            k = known_hit.setdefault(ent["id"], {"entry": ent, "cases": 0, "sigs": []})
            k["cases"] += v["count"]
            k["sigs"].append(sig)
        else:
            new.append((sig, v))
    lines = []
    for kid, k in sorted(known_hit.items()):
        lines.append("KNOWN-FINDING: property=%s %s [%s; %d cases]" %
                     (ctx.pid, k["entry"]["what"], kid, k["cases"]))
    # a known entry whose witness no longer fails is simply silent
    rc = 0
    shown = 0
    for sig, v in new:
        case = v["cases"][0]
        rp = os.path.join(OUT, "replays", ctx.pid, digest([sig, case]) + ".json")
        write_json(rp, {"property": ctx.pid, "sig": sig, "what": v["what"],
                        "count": v["count"], "case": case,
                        "more_cases": v["cases"][1:]})
        rc = 1
        shown += 1
        if shown > 25:
            continue
        lines.append("VIOLATION property=%s replay=%s" % (ctx.pid, rp))
        lines.append("  sig=%s cases=%d :: %s" % (sig, v["count"], v["what"][:400]))
    if shown > 25:
        lines.append("  ... %d more violation groups (see replays/%s/)" % (shown - 25, ctx.pid))
    cov = dict(ctx.counters)
    cov.update(ctx.extra)
    cov["rule"] = ctx.rule
    cov["samples"] = ctx.samples
    cov["exhaustive"] = bool(ctx.exhaustive)
    if ctx.caps:
        cov["caps_hit"] = ctx.caps
    cov["known_finding_cases"] = sum(k["cases"] for k in known_hit.values())
    cov["known_findings_reported"] = sorted(known_hit)
    cov.setdefault("evaluations", 0)
    cov.setdefault("distinct_nontrivial", 0)
    ev = {"property_id": ctx.pid, "tier": ctx.tier, "seed": ctx.seed,
          "level": ctx.level, "coverage": cov,
          "assumptions": ctx.assumptions,
          "wall_s": round(time.time() - ctx.t0, 2),
          "violations": len(new)}
    write_json(os.path.join(OUT, "evidence", ctx.pid + ".json"), ev)
    for l in lines:
        print(l)
    brief = dict((k, v) for k, v in cov.items()
                 if isinstance(v, (int, float, bool)))
    print("%s tier=%s seed=%d wall=%.1fs %s" % (ctx.pid, ctx.tier, ctx.seed,
                                              ev["wall_s"], json.dumps(brief, sort_keys=True)))
    return rc


def main(argv=None):
    import argparse
    import importlib
    ap = argparse.ArgumentParser()
    ap.add_argument("pid", nargs="?")
    ap.add_argument("--tier", default=os.environ.get("VERIF_TIER") or "quick")
    ap.add_argument("--replay")
    ap.add_argument("--selftest", action="store_true")
    args = ap.parse_args(argv)
    seed = int(os.environ.get("VERIF_SEED", "0") or 0)
    if os.environ.get("PYTHONHASHSEED") != "0":
        sys.stderr.write("HARNESS ERROR: run through ./check (PYTHONHASHSEED=0)\n")
        return 2
    os.environ.pop("WHVERIF_PARENT", None)
    _remove_stale_scratch()
    setup_process(seed)
    if args.selftest:
        from mc import selftest
        return selftest.run()
    if args.tier not in ("quick", "thorough"):
        args.tier = "quick"
    pid = args.pid.upper()
    mod = importlib.import_module("mc.checks." + pid.lower())
    if args.replay:
        with open(args.replay) as f:
            rec = json.load(f)
        res = mod.replay(rec["case"])
        print(json.dumps(res, indent=1, default=repr))
        return 0 if res.get("ok") else 1
    ctx = Ctx(pid, mod.LEVEL, args.tier, seed)
    import signal
    signal.signal(signal.SIGTERM, _on_sigterm)
    if os.environ.get("VERIF_BUDGET_S"):
        _STOP["deadline"] = time.time() + float(os.environ["VERIF_BUDGET_S"])
    try:
        mod.run(ctx)
        return finish(ctx, mod)
    except Interrupted as e:
        try:
            if ctx._pool is not None:
                ctx._pool.terminate()
                ctx._pool = None
        except Exception:
            pass
        ctx.cap("interrupted: %s; counts cover the completed tasks only" % e)
        return finish(ctx, mod)
    except HarnessError as e:
        ctx.close()
        sys.stderr.write("HARNESS ERROR in %s:\n%s\n" % (pid, e))
        if ctx.viol:
            # vacuity guards and cross-checks of the harness are calibrated on
            # a tree where the property holds; when violations were already
            # recorded they are what has to be reported
            ctx.cap("run ended early by a harness guard after violations had been recorded: %s" % str(e)[:300])
            return finish(ctx, mod)
        return 2
    except BaseException:
        try:
            if ctx._pool is not None:
                ctx._pool.terminate()
        except Exception:
            pass
        sys.stderr.write("HARNESS ERROR in %s:\n%s\n" % (pid, traceback.format_exc()))
        return 2
