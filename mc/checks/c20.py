"""C20 - on-disk tables, number codecs and doc-id sets implement their
abstract types.

Part 1 (E4, model checking): explicit-state breadth-first search over
operation sequences on the real BitSet / SortedIntSet / ReverseIdSet objects,
states deduplicated on the real representation, every distinct state observed
through the whole read API against a Python set; every BitSet state re-read
as OnDiskBitSet, every distinct contents as MultiIdSet under every split.
Part 2 (E1): hash files (HashWriter/Reader, OrderedHashWriter/Reader) for
every key sequence over a small key alphabet with colliding keys, on five
back-ends.  Part 3 (E1): varints, delta lists, GrowableArray, StructFile
typed round trips, external merge sort, compound files, base85 integers.
The oracle is plain Python throughout (set, dict, sorted, struct)."""
import itertools
import os
import struct

from mc import core

PID = "C20"
LEVEL = "model_checking"

I8 = (0, 1, 7, 8, 9, 15, 16, 17)
UNIV = 24            # every element that can ever be created is < UNIV
F_OPERANDS = ([], [0], [9], [17], [1, 7, 8, 16], list(I8))
INV_SIZES = (1, 8, 9, 16, 17, 18, 24)
UPD_KINDS = ("pyset", "pylist", "pyiter", "bitset", "bitset_long", "sorted",
             "ondisk", "reverse", "multi")
CONT_KINDS = ("pyset", "pylist", "bitset", "bitset_long", "sorted", "ondisk",
              "reverse", "multi")
PURE_KINDS = ("pyset", "bitset", "bitset_long", "sorted", "ondisk", "reverse",
              "multi")
MULTI_CUTS = (1, 7, 8, 9, 15, 16, 17, 18)


def rev_limit(seed):
    return (18, 17, 16)[seed % 3]


# -- helpers -------------------------------------------------------------

def where(e):
    """innermost whoosh frame of an exception: 'file.py:Qual.name'"""
    tb = e.__traceback__
    last = None
    while tb is not None:
        co = tb.tb_frame.f_code
        if "/whoosh/" in co.co_filename:
            last = co
        tb = tb.tb_next
    if last is None:
        return "harness"
    return "%s:%s" % (last.co_filename.split("/")[-1], getattr(last, "co_qualname", last.co_name))


def _extras(obj, known):
    """every other scalar instance attribute (e.g. a cached count that a
    refactoring adds): part of the state, so that two objects with the same
    contents but different hidden fields are not merged"""
    d = getattr(obj, "__dict__", None) or {}
    xs = sorted((k, v) for k, v in d.items()
                if k not in known and isinstance(v, (int, float, bool, str, bytes, type(None))))
    return ("{%s}" % ",".join("%s=%r" % kv for kv in xs)) if xs else ""


def canon(obj):
    from whoosh import idsets
    if isinstance(obj, idsets.BitSet):
        return "B:" + obj.bits.tobytes().hex() + _extras(obj, ("bits",))
    if isinstance(obj, idsets.SortedIntSet):
        return "S:%s%s:%s" % (obj.typecode, obj.data.typecode, ",".join(map(str, obj.data))) + _extras(obj, ("typecode", "data"))
    if isinstance(obj, idsets.ReverseIdSet):
        return "R%d(%s)" % (obj.limit, canon(obj.idset)) + _extras(obj, ("limit", "idset"))
    if isinstance(obj, idsets.OnDiskBitSet):
        return "D:%d:%d" % (obj._basepos, obj._bytecount)
    if isinstance(obj, idsets.MultiIdSet):
        return "M:%r(%s)" % (list(obj.offsets), ";".join(canon(x) for x in obj.idsets))
    if isinstance(obj, (set, frozenset)):
        return "py:" + repr(sorted(obj))
    if isinstance(obj, list):
        return "py:" + repr(obj)
    return "?"


def tname(obj):
    from whoosh import idsets
    if isinstance(obj, idsets.ReverseIdSet):
        return "ReverseIdSet<%s>" % type(obj.idset).__name__
    return type(obj).__name__


class Env(object):
    """Per-process cache of operand objects (never mutated by a correct
    implementation; their canonical form is re-checked after every use)."""

    def __init__(self):
        from whoosh.filedb.filestore import RamStorage
        self.st = RamStorage()
        self.ops = {}
        self.nfile = 0
        self.unsupported = set()
        self.unsupported_ops = set()
        self.observed = {}

    def ondisk(self, bits_bytes, basepos=3):
        from whoosh import idsets
        self.nfile += 1
        name = "bits%d" % self.nfile
        f = self.st.create_file(name)
        f.write(b"\xff" * basepos + bits_bytes + b"\xff\xff")
        f.close()
        return idsets.OnDiskBitSet(self.st.open_file(name), basepos, len(bits_bytes))

    def operand(self, kind, contents):
        if kind == "pyiter":
            return iter(list(reversed(contents)))
        key = (kind, tuple(contents))
        o = self.ops.get(key)
        if o is None:
            o = self.ops[key] = (self.make(kind, contents), None)
            o = self.ops[key] = (o[0], canon(o[0]))
        return o[0]

    def operand_intact(self, kind, contents):
        if kind == "pyiter":
            return True
        o, c = self.ops[(kind, tuple(contents))]
        if canon(o) == c:
            return True
        del self.ops[(kind, tuple(contents))]
        return False

    def make(self, kind, contents):
        from whoosh import idsets
        if kind == "pyset":
            return set(contents)
        if kind == "pylist":
            return list(reversed(contents))
        if kind in ("bitset", "bitset_long"):
            b = idsets.BitSet(size=UNIV - 1) if kind == "bitset_long" else idsets.BitSet()
            for i in contents:
                b.add(i)
            return b
        if kind == "sorted":
            s = idsets.SortedIntSet()
            for i in contents:
                s.add(i)
            return s
        if kind == "ondisk":
            b = self.make("bitset", contents)
            return self.ondisk(b.bits.tobytes())
        if kind == "reverse":
            b = idsets.BitSet(size=UNIV - 1)
            for i in range(UNIV):
                if i not in contents:
                    b.add(i)
            return idsets.ReverseIdSet(b, UNIV)
        if kind == "multi":
            lo = self.make("bitset", [i for i in contents if i < 8])
            hi = self.make("sorted", [i - 8 for i in contents if i >= 8])
            return idsets.MultiIdSet([lo, hi], [0, 8])
        raise ValueError(kind)


_env = None


def env():
    global _env
    if _env is None:
        _env = Env()
    return _env


# -- roots -----------------------------------------------------------------

def root_ops(seed):
    lim = rev_limit(seed)
    out = [["new", "BitSet", None, None, None], ["new", "BitSet", None, None, 9],
           ["new", "SortedIntSet", None, None, None]]
    for S in F_OPERANDS:
        for sk in ("list", "set", "iter"):
            out.append(["new", "BitSet", sk, S, None])
            out.append(["new", "SortedIntSet", sk, S, None])
        out.append(["new", "BitSet", "list", S, UNIV])
    for inner in ("BitSet", "BitSetSized", "SortedIntSet"):
        for S in F_OPERANDS:
            if all(i < lim for i in S):
                out.append(["new", "ReverseIdSet", inner, S, lim])
    return out


def new_object(op):
    """-> (obj, model set, limit)"""
    from whoosh import idsets
    _, t, sk, S, size = op
    if t == "ReverseIdSet":
        if sk == "BitSet":
            inner = idsets.BitSet()
        elif sk == "BitSetSized":
            inner = idsets.BitSet(size=size)
        else:
            inner = idsets.SortedIntSet()
        for i in S:
            inner.add(i)
        return idsets.ReverseIdSet(inner, size), set(range(size)) - set(S), size
    if sk is None:
        src = None
    elif sk == "list":
        src = list(reversed(S))
    elif sk == "set":
        src = set(S)
    else:
        src = iter(list(reversed(S)))
    if t == "BitSet":
        if src is None and size is None:
            o = idsets.BitSet()
        elif src is None:
            o = idsets.BitSet(size=size)
        elif size is None:
            o = idsets.BitSet(src)
        else:
            o = idsets.BitSet(src, size)
    else:
        o = idsets.SortedIntSet() if src is None else idsets.SortedIntSet(src)
    return o, set(S or ()), None


# -- alphabet --------------------------------------------------------------

def alphabet(S, limit):
    """Every operation whose documented precondition holds in a state with
    model contents S (limit: the ReverseIdSet universe, else None)."""
    ok = (lambda i: i < limit) if limit is not None else (lambda i: True)
    for i in I8:
        if ok(i):
            yield ["add", i]
    for i in I8:
        if ok(i):
            yield ["discard", i]
    mx = max(S) if S else -1
    for size in INV_SIZES:
        if size > mx and (limit is None or size <= limit):
            yield ["invert_update", size]
    fam = [O for O in F_OPERANDS if all(ok(i) for i in O)]
    for O in fam:
        for k in UPD_KINDS:
            yield ["update", k, O]
    for name in ("intersection_update", "difference_update"):
        for O in fam:
            for k in CONT_KINDS:
                yield [name, k, O]
    yield ["copy"]
    for size in INV_SIZES:
        if size > mx and (limit is None or size <= limit):
            yield ["invert", size]
    for name in ("union", "intersection", "difference"):
        for O in fam:
            for k in PURE_KINDS:
                yield [name, k, O]


def model_apply(S, op):
    n = op[0]
    if n == "add":
        return S | {op[1]}
    if n == "discard":
        return S - {op[1]}
    if n in ("invert_update", "invert"):
        return set(range(op[1])) - S
    if n == "copy":
        return set(S)
    O = set(op[2])
    if n in ("update", "union"):
        return S | O
    if n in ("intersection_update", "intersection"):
        return S & O
    if n in ("difference_update", "difference"):
        return S - O
    raise ValueError(op)


PURE = ("union", "intersection", "difference", "invert", "copy")


class Fail(Exception):
    def __init__(self, sig, what):
        Exception.__init__(self, what)
        self.sig = sig
        self.what = what


class Unsupported(Exception):
    pass


def apply_real(obj, op, e):
    """Run one op on the real object; returns the object that carries the
    result (obj itself for in-place ops).  Raises Fail / Unsupported."""
    from whoosh import idsets
    n = op[0]
    T = tname(obj)
    before = canon(obj) if n in PURE else None
    other = None
    try:
        if n in ("add", "discard", "invert_update", "invert"):
            res = getattr(obj, n)(op[1])
        elif n == "copy":
            res = obj.copy()
        else:
            other = e.operand(op[1], op[2])
            res = getattr(obj, n)(other)
    except NotImplementedError:
        raise Unsupported("%s.%s" % (T, n))
    except Exception as ex:
        w = where(ex)
        # an exception caused by a defective operand belongs to the operand
        if other is not None and isinstance(other, idsets.DocIdSet):
            of = observe(other, set(op[2]), UNIV if op[1] == "reverse" else None, e, light=True)
            if of:
                raise Fail("ids|%s.%s|%s" % (tname(other), of[0][0], of[0][1]),
                           "operand %s(%r): %s" % (op[1], op[2], of[0][2]))
        raise Fail("ids|exc:%s@%s" % (type(ex).__name__, w),
                   "%s.%s%r raised %r at %s" % (T, n, tuple(op[1:]), ex, w))
    if other is not None and not e.operand_intact(op[1], op[2]):
        raise Fail("ids|%s.%s|mutates-operand" % (T, n), "%s.%s changed its argument %s(%r)" % (T, n, op[1], op[2]))
    if n in PURE:
        if canon(obj) != before:
            raise Fail("ids|%s.%s|mutates-self" % (T, n), "%s.%s%r changed the receiver: %s -> %s"
                       % (T, n, tuple(op[1:]), before, canon(obj)))
        if res is obj or not isinstance(res, idsets.DocIdSet):
            raise Fail("ids|%s.%s|result-object" % (T, n), "%s.%s returned %r" % (T, n, res))
        return res
    return obj


# -- observations ------------------------------------------------------------

def observe(obj, S, limit, e, light=False):
    """Compare every documented read of obj with the Python set S.  Returns a
    list of (method, kind, what).  limit: ids >= limit are outside the
    universe of a ReverseIdSet and are not asked."""
    T = tname(obj)
    fails = []
    uns = e.unsupported
    srt = sorted(S)
    top = limit if limit is not None else UNIV + 1

    def call(name, arg, fn, expect):
        if (T, name) in uns:
            return
        try:
            got = fn()
        except NotImplementedError:
            uns.add((T, name))
            return
        except Exception as ex:
            fails.append((name, "exc", "%s.%s(%s) raised %r at %s, expected %r; set=%r"
                          % (T, name, "" if arg is None else arg, ex, where(ex), expect, srt)))
            return
        if got != expect:
            fails.append((name, "wrong", "%s.%s(%s) = %r, expected %r; set=%r"
                          % (T, name, "" if arg is None else arg, got, expect, srt)))

    for i in range(top):
        call("__contains__", i, lambda: (i in obj), i in S)
        if fails:
            break
    call("__iter__", None, lambda: list(iter(obj)), srt)
    call("__len__", None, lambda: len(obj), len(S))
    if light:
        return fails
    # membership asked while an iteration is in progress
    call("__iter__+__contains__", None, lambda: [i for i in obj if i in obj and (i + 1 in obj) == (i + 1 in S or
                                                                                         (limit is not None and i + 1 >= limit))], srt)
    call("__bool__", None, lambda: bool(obj), bool(S))
    if S:
        call("first", None, lambda: obj.first(), srt[0])
        call("last", None, lambda: obj.last(), srt[-1])
    if (T, "before") not in uns:
        n0 = len(fails)
        for i in range(0, top + 1):
            lower = [x for x in srt if x < i]
            call("before", i, lambda: obj.before(i), lower[-1] if lower else None)
            if len(fails) > n0 or (T, "before") in uns:
                break
    if (T, "after") not in uns:
        n0 = len(fails)
        for i in range(0, top):
            higher = [x for x in srt if x > i]
            call("after", i, lambda: obj.after(i), higher[0] if higher else None)
            if len(fails) > n0 or (T, "after") in uns:
                break
    return fails


def check_state(obj, S, limit, e, memo):
    """Observation of a state, memoised on the real canonical form: equal
    canonical forms give equal observations, so a form already validated
    against the same model needs no second look."""
    c = canon(obj)
    key = (c, limit)
    ms = tuple(sorted(S))
    if memo.get(key) == ms:
        return c, []
    fails = observe(obj, S, limit, e)
    if not fails:
        memo[key] = ms
    return c, fails


# -- replaying a path ----------------------------------------------------------

def rebuild(path, e):
    """-> (obj, S, limit); raises Fail/Unsupported if the path itself fails."""
    obj, S, limit = new_object(path[0])
    for op in path[1:]:
        obj = apply_real(obj, op, e)
        S = model_apply(S, op)
    return obj, S, limit


def touch(obj, e):
    T = tname(obj)
    for name, fn in (("__len__", lambda: len(obj)), ("__bool__", lambda: bool(obj)), ("__iter__", lambda: list(obj)),
                     ("first", lambda: obj.first()), ("last", lambda: obj.last())):
        if (T, name) in e.unsupported:
            continue
        try:
            fn()
        except Exception:
            pass        # (reported where the state itself was observed)


def step(path, op, e, memo):
    """One transition from the state reached by path.  Returns
    (status, canon, S, limit, sig, what): status in ok/unsupported/fail."""
    try:
        if op[0] == "new":
            obj, S, limit = new_object(op)
        else:
            obj, S, limit = rebuild(path, e)
            # the state the operation starts from has been read before (it was
            # observed when it was reached): read it again, so that whatever a
            # read leaves behind in the object is there when the operation runs
            touch(obj, e)
            obj = apply_real(obj, op, e)
            S = model_apply(S, op)
            if op[0] == "copy":
                copy_independence(path, e)
    except Unsupported as u:
        return ("unsupported", None, None, None, str(u), None)
    except Fail as f:
        return ("fail", None, None, None, f.sig, f.what)
    except Exception as ex:
        if op[0] == "new":
            w = where(ex)
            return ("fail", None, None, None, "ids|exc:%s@%s" % (type(ex).__name__, w),
                    "constructor %r raised %r at %s" % (op, ex, w))
        w = where(ex)
        return ("fail", None, None, None, "ids|exc:%s@%s" % (type(ex).__name__, w),
                "path %r then %r raised %r at %s" % (path, op, ex, w))
    c, fails = check_state(obj, S, limit, e, memo)
    if fails:
        name, kind, what = fails[0]
        T = tname(obj)
        if op[0] != "new" and len(op) == 3 and op[1] != "pyiter":
            # a defective operand (e.g. MultiIdSet membership) is reported
            # under the operand's own signature, not under every caller
            from whoosh import idsets
            other = e.operand(op[1], op[2])
            if isinstance(other, idsets.DocIdSet):
                of = observe(other, set(op[2]), UNIV if op[1] == "reverse" else None, e, light=True)
                if of:
                    return ("fail", c, S, limit, "ids|%s.%s|%s" % (tname(other), of[0][0], of[0][1]),
                            "operand %s(%r) of %s.%s: %s" % (op[1], op[2], T, op[0], of[0][2]))
        if op[0] != "new" and name in ("__iter__", "__contains__", "__len__") and kind == "wrong":
            # the contents themselves are wrong: blame the transition that
            # produced them, provided the state before it was sound
            try:
                pobj, pS, plim = rebuild(path, e)
                pc, pf = check_state(pobj, pS, plim, e, memo)
                if not pf:
                    # DocIdSet.invert is copy() + invert_update() for every type
                    opn = "invert_update" if op[0] == "invert" else op[0]
                    return ("fail", c, S, limit, "ids|%s.%s|wrong-result" % (tname(pobj), opn),
                            "after %s%r from state %s: %s" % (op[0], tuple(op[1:]), pc, what))
            except Exception:
                pass
        return ("fail", c, S, limit, "ids|%s.%s|%s" % (type(obj).__name__, name, kind), what)
    return ("ok", c, S, limit, None, None)


def copy_independence(path, e):
    a, S, limit = rebuild(path, e)
    b = a.copy()
    ca = canon(a)
    x = [i for i in I8 if i not in S and (limit is None or i < limit)]
    try:
        if x:
            b.add(x[0])
        elif S:
            b.discard(max(S))
    except Exception:
        return
    if canon(a) != ca:
        raise Fail("ids|%s.copy|shares-state" % tname(a), "mutating the copy changed the original (%s -> %s)" % (ca, canon(a)))
    cb = canon(b)
    try:
        if x:
            a.add(x[-1])
        elif S:
            a.discard(min(S))
    except Exception:
        return
    if canon(b) != cb:
        raise Fail("ids|%s.copy|shares-state" % tname(a), "mutating the original changed the copy (%s -> %s)" % (cb, canon(b)))


def _enabled(path, op):
    try:
        _, S, limit = rebuild_model(path)
    except Exception:
        return False
    return path_enabled(path) and (op is None or op in list(alphabet(S, limit)))


def _opsize(op):
    return (len(repr(op[1:])), repr(op[1:]))


def shrink(path, op, sig, e, seed=0):
    """Smallest (root, path, op) on which the same signature persists:
    simplest constructor first, then ops dropped from the path, then the
    simplest argument of the same operation."""
    def fails(p, o):
        if not _enabled(p, o):
            return False
        r = step(p, o, e, {})
        return r[0] == "fail" and r[4] == sig

    path = list(path)
    roots = sorted((r for r in root_ops(seed) if r[1] == path[0][1]),
                   key=lambda r: (len(r[3] or ()), r[2] is not None, r[4] is not None, repr(r)))
    changed = True
    while changed:
        changed = False
        for r in roots:
            if r == path[0]:
                break
            if fails([r] + path[1:], op):
                path = [r] + path[1:]
                changed = True
                break
        for k in range(1, len(path)):
            cand = path[:k] + path[k + 1:]
            if fails(cand, op):
                path = cand
                changed = True
                break
    try:
        _, S, limit = rebuild_model(path)
        for o in sorted((o for o in alphabet(S, limit) if o[0] == op[0]), key=_opsize):
            if o == op:
                break
            if fails(path, o):
                op = o
                break
    except Exception:
        pass
    return path, op


def rebuild_model(path):
    _, t, sk, S, size = path[0]
    if t == "ReverseIdSet":
        M, limit = set(range(size)) - set(S), size
    else:
        M, limit = set(S or ()), None
    for op in path[1:]:
        M = model_apply(M, op)
    return None, M, limit


def path_enabled(path):
    """every op of the path satisfies its precondition in the model"""
    _, t, sk, S, size = path[0]
    if t == "ReverseIdSet":
        M, limit = set(range(size)) - set(S), size
    else:
        M, limit = set(S or ()), None
    for op in path[1:]:
        if op not in list(alphabet(M, limit)):
            return False
        M = model_apply(M, op)
    return True


# -- tasks ------------------------------------------------------------------------

def task_expand(t):
    """t = ("expand", seed, [path, ...]) : all transitions out of each state."""
    _, seed, paths = t
    acc = core.Acc()
    e = env()
    memo = e.observed
    succ = {}
    for path in paths:
        T = None
        if path is None:
            todo = [(None, op) for op in root_ops(seed)]
        else:
            _, S, limit = rebuild_model(path)
            todo = [(path, op) for op in alphabet(S, limit)]
            try:
                T = tname(rebuild(path, e)[0])
            except Exception:
                T = None
        for p, op in todo:
            if T is not None and (T, op[0]) in e.unsupported_ops:
                # NotImplementedError is a property of (class, method)
                acc.count("unsupported_calls_not_repeated")
                continue
            acc.count("transitions")
            acc.count("traces_validated_against_impl")
            r = step(p, op, e, memo)
            status, c, S2, limit2, sig, what = r
            newpath = [op] if p is None else p + [op]
            if status == "unsupported":
                if T is not None:
                    e.unsupported_ops.add((T, op[0]))
                e.unsupported.add(tuple(sig.split(".", 1)))
                acc.count("unsupported_calls")
                continue
            if status == "fail":
                acc.count("failed_transitions")
                if sig not in acc.viol:
                    sp, sop = shrink(p, op, sig, e, seed) if p is not None else (None, op)
                    r2 = step(sp, sop, e, {})
                    acc.violation(sig, {"part": "ids", "seed": seed, "path": sp, "op": sop,
                                        "found_at": newpath}, r2[5] if r2[0] == "fail" and r2[4] == sig else what)
                else:
                    acc.violation(sig, None, what)
                continue
            if c not in succ:
                succ[c] = (newpath, sorted(S2), limit2)
                if len(newpath) == 3 and len(succ) % 97 == 1:
                    acc.sample({"part": "ids", "path": newpath, "state": c, "model": sorted(S2)})
    res = acc.result()
    res["succ"] = succ
    res["unsupported"] = sorted("%s.%s" % k for k in e.unsupported)
    return res


def splits():
    for a in MULTI_CUTS:
        yield [0, a]
    for a, b in itertools.combinations(MULTI_CUTS, 2):
        yield [0, a, b]


def make_multi(S, offsets, subtype):
    from whoosh import idsets
    subs = []
    for k, off in enumerate(offsets):
        end = offsets[k + 1] if k + 1 < len(offsets) else UNIV + 8
        part = [i - off for i in sorted(S) if off <= i < end]
        st = subtype if subtype != "mixed" else ("BitSet", "SortedIntSet")[k % 2]
        s = idsets.BitSet() if st == "BitSet" else idsets.SortedIntSet()
        for i in part:
            s.add(i)
        subs.append(s)
    return idsets.MultiIdSet(subs, list(offsets))


def task_views(t):
    """t = ("views", seed, [(kind, payload)...]): derived read-only views.
    kind "ondisk": payload = hex bytes of a reachable BitSet state;
    kind "multi": payload = sorted contents of a reachable state."""
    from whoosh import idsets
    _, seed, items = t
    acc = core.Acc()
    e = env()
    for kind, payload in items:
        if kind == "ondisk":
            raw = bytes.fromhex(payload)
            ref = idsets.BitSet.from_bytes(raw)
            S = set(i for i in range(len(raw) * 8) if raw[i >> 3] & (1 << (i & 7)))
            for variant in ("ram", "file", "roundtrip"):
                acc.count("view_cases")
                acc.count("traces_validated_against_impl")
                try:
                    obj = ondisk_variant(variant, raw, ref, e)
                    fails = observe(obj, S, None, e)
                except Exception as ex:
                    fails = [("build", "exc", "building %s view of %s raised %r at %s" % (variant, payload, ex, where(ex)))]
                    obj = None
                if obj is not None and S:
                    acc.count("view_nontrivial")
                if fails:
                    name, k2, what = fails[0]
                    T = tname(obj) if obj is not None else "OnDiskBitSet"
                    acc.violation("ids|%s.%s|%s" % (T, name, k2),
                                  {"part": "ids_view", "kind": kind, "variant": variant, "bits": payload}, what)
        else:
            S = set(payload)
            for offsets in splits():
                for subtype in ("BitSet", "SortedIntSet", "mixed"):
                    acc.count("view_cases")
                    acc.count("traces_validated_against_impl")
                    if S:
                        acc.count("view_nontrivial")
                    try:
                        obj = make_multi(S, offsets, subtype)
                        fails = observe(obj, S, None, e)
                    except Exception as ex:
                        fails = [("build", "exc", "building MultiIdSet raised %r at %s" % (ex, where(ex)))]
                    if fails:
                        name, k2, what = fails[0]
                        acc.violation("ids|MultiIdSet.%s|%s" % (name, k2),
                                      {"part": "ids_view", "kind": "multi", "contents": sorted(S),
                                       "offsets": offsets, "subtype": subtype}, what + " offsets=%r" % (offsets,))
    res = acc.result()
    res["unsupported"] = sorted("%s.%s" % k for k in e.unsupported)
    return res


_filedir = None


def ondisk_variant(variant, raw, ref, e):
    from whoosh import idsets
    global _filedir
    if variant == "ram":
        return e.ondisk(raw)
    from whoosh.filedb.filestore import FileStorage
    if _filedir is None:
        _filedir = core.fresh_dir("c20bits")
    st = FileStorage(_filedir)
    f = st.create_file("bits")
    f.write(b"\x01\x02\x03\x04\x05")
    n = ref.to_disk(f)          # documented way to store a BitSet
    f.write(b"\xff")
    f.close()
    if n != len(raw):
        raise Fail("ids|BitSet.to_disk|wrong", "to_disk returned %r for %d bytes" % (n, len(raw)))
    if variant == "file":
        return idsets.OnDiskBitSet(st.open_file("bits"), 5, n)
    f = st.open_file("bits")
    f.seek(5)
    b = idsets.BitSet.from_disk(f, n)
    f.close()
    return b


# -- replay ------------------------------------------------------------------------

def replay_ids(case):
    e = Env()
    if case["part"] == "ids_view":
        from whoosh import idsets
        if case["kind"] == "ondisk":
            raw = bytes.fromhex(case["bits"])
            S = set(i for i in range(len(raw) * 8) if raw[i >> 3] & (1 << (i & 7)))
            obj = ondisk_variant(case["variant"], raw, idsets.BitSet.from_bytes(raw), e)
        else:
            S = set(case["contents"])
            obj = make_multi(S, case["offsets"], case["subtype"])
        fails = observe(obj, S, None, e)
        return {"ok": not fails, "what": fails[0][2] if fails else "all observations agree",
                "failures": [f[2] for f in fails]}
    path, op = case["path"], case["op"]
    r = step(path, op, e, {})
    return {"ok": r[0] != "fail", "status": r[0], "sig": r[4], "what": r[5] or r[0],
            "path": path, "op": op, "state": r[1], "model": sorted(r[2]) if r[2] is not None else None}



# ===========================================================================
# Part 2: hash files
# ===========================================================================

BASE_KEYS = [b"", b"a", b"b", b"ab", b"a\x00", b"k" * 300]
ABSENT = [b"zz", b"a\x00\x00", b"k" * 299, b"\xff"]
BIG = b"B" + b"x" * 70000
HASH_BACKENDS = ("ram", "file", "cmmap", "cnommap", "cram")
READER_VARIANTS = ("open", "nolen", "offset", "offset_nolen")


def find_colliders(hashtype, n=3000000):
    """Deterministic brute force: 4 same-length keys that fall into the same
    bucket (h & 255) and into the LAST slot of every table of 2/4/6/8 slots
    ((h >> 8) % 24 == 23, so linear probing must wrap around), and 2 keys
    with the same 32-bit hash."""
    from hashlib import sha1
    from whoosh.filedb import filetables
    fn = filetables._hash_functions[hashtype]
    classes = {}
    full = {}
    slot4 = None
    pair = None
    for i in range(n):
        # 8 pseudo-random bytes (CRC32 cannot collide on short keys that
        # differ only inside one 32-bit window)
        key = b"c" + sha1(b"%d" % i).digest()[:7]
        h = fn(key)
        if pair is None:
            o = full.get(h)
            if o is not None:
                pair = [o, key]
            else:
                full[h] = key
        if slot4 is None and (h >> 8) % 24 == 23:
            l = classes.setdefault(h & 255, [])
            l.append(key)
            if len(l) == 4:
                slot4 = l
        if pair is not None and slot4 is not None:
            break
    if pair is None or slot4 is None:
        raise core.HarnessError("no colliding keys found for hash type %d" % hashtype)
    hs = [fn(k) for k in slot4]
    assert len(set(h & 255 for h in hs)) == 1 and all((h >> 8) % 24 == 23 for h in hs)
    assert fn(pair[0]) == fn(pair[1]) and pair[0] != pair[1]
    return {"slot": [k.hex() for k in slot4], "full": [k.hex() for k in pair]}


def key_alphabet(coll):
    slot = [bytes.fromhex(x) for x in coll["slot"]]
    full = [bytes.fromhex(x) for x in coll["full"]]
    keys = BASE_KEYS + slot[:3] + full
    absent = ABSENT + [slot[3]]
    return keys, absent


def values_for(pattern, n):
    if pattern == "short":
        return [b"v%d" % j for j in range(n)]
    if pattern == "empty":
        return [b""] * n
    if pattern == "bigfirst":
        return ([BIG + b"0"] + [b"w%d" % j for j in range(1, n)])[:n]
    if pattern == "mixed":
        return [(b"", BIG + b"%d" % j, b"m%d" % j)[j % 3] for j in range(n)]
    raise ValueError(pattern)


class HashEnv(object):
    def __init__(self):
        from whoosh.filedb.filestore import RamStorage, FileStorage
        self.ram = RamStorage()
        self.dir = core.fresh_dir("c20hash")
        self.fs = FileStorage(self.dir)
        self.junk = None


_henv = None


def henv():
    global _henv
    if _henv is None:
        _henv = HashEnv()
    return _henv


def write_hash(st, name, kind, hashtype, seq, vals, prefix):
    """Writes a hash file; returns (endpos, rejected_index or None)."""
    from whoosh.filedb import filetables
    f = st.create_file(name)
    if prefix:
        f.write(b"\xee" * prefix)
    if kind == "ordered":
        w = filetables.OrderedHashWriter(f)
    else:
        w = filetables.HashWriter(f, hashtype=hashtype)
    for k, v in zip(seq, vals):
        w.add(k, v)
    retyped = kind == "ordered" and w.index.typecode != "H"
    endpos = w.close()
    return endpos, retyped


def open_hash(case, he):
    """Builds the file described by case on its back-end and opens a reader.
    -> (reader, closer, info)"""
    from whoosh.filedb import filetables
    from whoosh.filedb.compound import CompoundStorage
    kind, hashtype = case["kind"], case["hashtype"]
    seq = [bytes.fromhex(k) for k in case["keys"]]
    vals = values_for(case["pattern"], len(seq))
    backend, rv = case["backend"], case["reader"]
    prefix = 7 if rv.startswith("offset") else 0
    cls = filetables.OrderedHashReader if kind == "ordered" else filetables.HashReader
    closers = []
    if backend in ("ram", "cram"):
        st = he.ram
    else:
        st = he.fs
    endpos, retyped = write_hash(st, "h.dat", kind, hashtype, seq, vals, prefix)
    if st.file_length("h.dat") != endpos:
        raise Fail("hash|close|endpos", "HashWriter.close() returned %r, file length %r" % (endpos, st.file_length("h.dat")))
    if backend in ("cmmap", "cnommap", "cram"):
        j = st.create_file("a.dat")
        j.write(b"junk" * 5)
        j.close()
        CompoundStorage.assemble(st.create_file("c.cmp"), st, ["a.dat", "h.dat"])
        src = CompoundStorage(st.open_file("c.cmp"), use_mmap=(backend == "cmmap"))
        closers.append(src.close)
        if backend == "cmmap" and src._source is None:
            raise core.HarnessError("mmap back-end did not engage")
    else:
        src = st
    length = src.file_length("h.dat")
    if rv == "open":
        r = cls.open(src, "h.dat")
    elif rv == "nolen":
        r = cls(src.open_file("h.dat"))
    elif rv == "offset":
        r = cls(src.open_file("h.dat"), length - prefix, startoffset=prefix)
    else:
        r = cls(src.open_file("h.dat"), startoffset=prefix)
    closers.insert(0, r.close)
    return r, closers, {"seq": seq, "vals": vals, "retyped": retyped}


class Bad(Exception):
    def __init__(self, kind, what):
        Exception.__init__(self, what)
        self.kind = kind
        self.what = what


def check_hash_reader(r, seq, vals, probes, ordered, stats):
    exp = {}
    for k, v in zip(seq, vals):
        exp.setdefault(k, []).append(v)
    sentinel = object()
    for k in probes:
        vs = exp.get(k, [])
        got = list(r.all(k))
        if sorted(got) != sorted(vs):
            raise Bad("all", "all(%r) gave %d values %r..., expected %d" % (k[:12], len(got), [g[:8] for g in got][:4], len(vs)))
        if len(vs) > 1:
            stats["dup_lookups"] = stats.get("dup_lookups", 0) + 1
            if got == vs:
                stats["dup_in_insertion_order"] = stats.get("dup_in_insertion_order", 0) + 1
        if (k in r) != bool(vs):
            raise Bad("__contains__", "%r in reader = %r, expected %r" % (k[:12], k in r, bool(vs)))
        try:
            v = r[k]
        except KeyError:
            v = sentinel
        if (v is sentinel) != (not vs) or (vs and v not in vs):
            raise Bad("__getitem__", "reader[%r] = %r, stored %r" % (k[:12], "KeyError" if v is sentinel else v[:12], [x[:8] for x in vs]))
        g = r.get(k, sentinel)
        if (g is sentinel) != (not vs) or (vs and g not in vs):
            raise Bad("get", "get(%r) wrong" % (k[:12],))
        rng = list(r.ranges_for_key(k))
        if sorted(r.dbfile.get(p, l) for p, l in rng) != sorted(vs):
            raise Bad("ranges_for_key", "ranges_for_key(%r) wrong" % (k[:12],))
        try:
            p, l = r.range_for_key(k)
            rk = r.dbfile.get(p, l)
        except KeyError:
            rk = sentinel
        if (rk is sentinel) != (not vs) or (vs and rk not in vs):
            raise Bad("range_for_key", "range_for_key(%r) wrong" % (k[:12],))
    pairs = list(zip(seq, vals))
    items = list(r.items())
    keys = list(r.keys())
    values = list(r.values())
    it = list(r)
    if ordered:
        if items != pairs or it != pairs:
            raise Bad("items-order", "items() of an ordered file not in key order: %r" % ([k[:8] for k, _ in items],))
        if keys != seq or values != vals:
            raise Bad("keys-order", "keys()/values() of an ordered file not in key order")
    else:
        if sorted(items) != sorted(pairs) or sorted(it) != sorted(pairs):
            raise Bad("items", "items() is not the written multiset: %d vs %d" % (len(items), len(pairs)))
        if sorted(keys) != sorted(seq) or sorted(values) != sorted(vals):
            raise Bad("keys", "keys()/values() are not the written multisets")
        # informational only: the order of an unordered file is not documented
        if items == pairs and keys == seq:
            stats["plain_files_iterating_in_insertion_order"] = stats.get("plain_files_iterating_in_insertion_order", 0) + 1


def ordered_probes(keys, absent):
    ps = set(keys) | set(absent)
    for k in list(keys):
        ps.add(k + b"\x00")
        if k:
            ps.add(k[:-1])
            ps.add(k[:-1] + bytes([max(0, k[-1] - 1)]) + b"\xff")
    ps.add(b"\x00")
    ps.add(b"\xff\xff")
    return sorted(ps)


def check_ordered_reader(r, seq, vals, probes):
    for p in probes:
        tail = [k for k in seq if k >= p]
        ck = r.closest_key(p)
        if ck != (tail[0] if tail else None):
            raise Bad("closest_key", "closest_key(%r) = %r, expected %r; keys %r" %
                      (p[:12], None if ck is None else ck[:12], tail[0][:12] if tail else None, [k[:8] for k in seq]))
        kf = list(r.keys_from(p))
        if kf != tail:
            raise Bad("keys_from", "keys_from(%r) = %r, expected %r" % (p[:12], [k[:8] for k in kf], [k[:8] for k in tail]))
        itf = list(r.items_from(p))
        if itf != [(k, v) for k, v in zip(seq, vals) if k >= p]:
            raise Bad("items_from", "items_from(%r) wrong" % (p[:12],))
        rf = [(r.dbfile.get(a, b), r.dbfile.get(c, d)) for a, b, c, d in r.ranges_from(p)]
        if rf != itf:
            raise Bad("ranges_from", "ranges_from(%r) wrong" % (p[:12],))


def run_hash_case(case, coll, stats):
    """-> None or (sigkind, what)"""
    he = henv()
    keys, absent = key_alphabet(coll)
    ordered = case["kind"] == "ordered"
    closers = []
    try:
        try:
            r, closers, info = open_hash(case, he)
        except core.HarnessError:
            raise
        except Fail as f:
            return f.sig.split("|", 1)[1], f.what
        except Exception as ex:
            return "exc:%s@%s" % (type(ex).__name__, where(ex)), "writing/opening raised %r at %s" % (ex, where(ex))
        if info["retyped"]:
            stats["ordered_index_retyped"] = stats.get("ordered_index_retyped", 0) + 1
        try:
            check_hash_reader(r, info["seq"], info["vals"], keys + absent, ordered, stats)
            if ordered:
                check_ordered_reader(r, info["seq"], info["vals"], ordered_probes(keys, absent))
        except Bad as b:
            return b.kind + "|wrong", b.what
        except Exception as ex:
            return "exc:%s@%s" % (type(ex).__name__, where(ex)), "reading raised %r at %s" % (ex, where(ex))
        return None
    finally:
        for c in closers:
            try:
                c()
            except Exception:
                pass


def hash_nontrivial(case, coll):
    """collision chain, duplicate key or an offset past 2^16 is present"""
    from whoosh.filedb import filetables
    seq = case["keys"]
    if len(seq) < 2:
        return False
    if len(set(seq)) < len(seq):
        return True
    if case["pattern"] in ("bigfirst", "mixed") and len(seq) >= 2:
        return True
    fn = filetables._hash_functions[case["hashtype"]]
    b = [fn(bytes.fromhex(k)) & 255 for k in seq]
    return len(set(b)) < len(b)


def shrink_hash(case, coll, sigkind):
    """drop keys while the same discrepancy persists"""
    case = dict(case)
    changed = True
    while changed and len(case["keys"]) > 0:
        changed = False
        for i in range(len(case["keys"])):
            c2 = dict(case)
            c2["keys"] = case["keys"][:i] + case["keys"][i + 1:]
            r = run_hash_case(c2, coll, {})
            if r is not None and r[0] == sigkind:
                case = c2
                changed = True
                break
    for field, simple in (("pattern", "short"), ("backend", "ram"), ("reader", "open")):
        if case[field] != simple:
            c2 = dict(case)
            c2[field] = simple
            r = run_hash_case(c2, coll, {})
            if r is not None and r[0] == sigkind:
                case = c2
    return case


def hash_sequences(nkeys, length, first):
    """every key sequence of the given length starting with key index first"""
    if length == 0:
        if first is None:
            yield ()
        return
    for rest in itertools.product(range(nkeys), repeat=length - 1):
        yield (first,) + rest


def task_hash(t):
    """("hash", seed, hashtype, coll, length, first, combos) : plain hash
    files for every key sequence of that length/first key; combos = list of
    (pattern, backend, reader) or "rotate"."""
    _, seed, hashtype, coll, length, first, combos = t
    acc = core.Acc()
    keys, absent = key_alphabet(coll)
    stats = {}
    allc = [(p, b, r) for p in ("short", "empty", "bigfirst", "mixed") for b in HASH_BACKENDS for r in READER_VARIANTS]
    for n, seq in enumerate(hash_sequences(len(keys), length, first)):
        if combos == "rotate":
            # deterministic rotation: each sequence gets 2 of the 80 combos,
            # (sequence index + seed) decides which; all sequences are run
            cs = [allc[(n * 7 + seed + (first or 0)) % len(allc)], allc[(n * 7 + 41 + seed) % len(allc)]]
        else:
            cs = combos
        for p, b, rv in cs:
            case = {"part": "hash", "kind": "plain", "hashtype": hashtype, "keys": [keys[i].hex() for i in seq],
                    "pattern": p, "backend": b, "reader": rv, "coll": coll}
            acc.count("evaluations")
            acc.count("hash_files")
            if hash_nontrivial(case, coll):
                acc.count("distinct_nontrivial")
            res = run_hash_case(case, coll, stats)
            if res is not None:
                sig = "hash|%s|%s" % ("plain", res[0])
                if sig not in acc.viol:
                    case = shrink_hash(case, coll, res[0])
                acc.violation(sig, case, res[1])
            elif n % 1500 == 3 and p == "short":
                acc.sample({k: v for k, v in case.items() if k != "coll"})
    for k, v in stats.items():
        acc.count(k, v)
    return acc.result()


def task_ordered(t):
    """("ordered", seed, coll, masks, combos): ordered hash files for every
    subset (bit mask over the sorted key alphabet) in masks."""
    _, seed, coll, masks, combos = t
    acc = core.Acc()
    keys, absent = key_alphabet(coll)
    skeys = sorted(keys)
    stats = {}
    for m in masks:
        seq = [skeys[i] for i in range(len(skeys)) if m & (1 << i)]
        for p, b, rv in combos:
            case = {"part": "hash", "kind": "ordered", "hashtype": 0, "keys": [k.hex() for k in seq],
                    "pattern": p, "backend": b, "reader": rv, "coll": coll}
            acc.count("evaluations")
            acc.count("ordered_files")
            if len(seq) >= 2:
                acc.count("distinct_nontrivial")
            res = run_hash_case(case, coll, stats)
            if res is not None:
                sig = "hash|ordered|%s" % res[0]
                if seq and seq[0] == b"" and res[0].startswith("exc:ValueError@filetables.py:OrderedHashWriter.add"):
                    sig = "hash|ordered|empty-first-key-rejected"
                if sig not in acc.viol:
                    case = shrink_hash(case, coll, res[0])
                acc.violation(sig, case, res[1])
            elif m % 300 == 7 and p == "short":
                acc.sample({k: v for k, v in case.items() if k != "coll"})
    for k, v in stats.items():
        acc.count(k, v)
    return acc.result()


def run_reject_case(seq):
    """OrderedHashWriter.add must accept a key iff it is greater than the
    previous one (any first key), raising ValueError otherwise."""
    from whoosh.filedb import filetables
    he = henv()
    f = he.ram.create_file("rej.dat")
    w = filetables.OrderedHashWriter(f)
    prev = None
    try:
        for j, k in enumerate(seq):
            should = prev is None or k > prev
            try:
                w.add(k, b"v")
                ok = True
            except ValueError:
                ok = False
            if ok != should:
                if j == 0 and k == b"":
                    return "empty-first-key-rejected", "OrderedHashWriter.add(b'', ...) as the first key raised ValueError"
                return ("accepts-non-increasing" if ok else "rejects-increasing"), \
                    "add(%r) after %r: accepted=%r" % (k[:12], None if prev is None else prev[:12], ok)
            if not ok:
                return None
            prev = k
        return None
    finally:
        f.close()


def task_reject(t):
    _, seed, coll, length, first = t
    acc = core.Acc()
    keys, absent = key_alphabet(coll)
    for seq in hash_sequences(len(keys), length, first):
        ks = [keys[i] for i in seq]
        acc.count("evaluations")
        acc.count("ordered_writer_sequences")
        if any(b <= a for a, b in zip(ks, ks[1:])):
            acc.count("distinct_nontrivial")
            acc.count("non_increasing_sequences")
        try:
            res = run_reject_case(ks)
        except Exception as ex:
            res = ("exc:%s@%s" % (type(ex).__name__, where(ex)), "raised %r" % (ex,))
        if res is not None:
            acc.violation(("hash|ordered|%s" if res[0] == "empty-first-key-rejected" else "hash|ordered-writer|%s") % res[0],
                          {"part": "reject", "keys": [k.hex() for k in ks]}, res[1])
    return acc.result()


def task_cdb(t):
    """hash type 2 (documented as 'CDB hash'): every sequence of <= 2 base keys"""
    _, seed, coll = t
    acc = core.Acc()
    stats = {}
    for n in (0, 1, 2):
        for seq in itertools.product(range(len(BASE_KEYS)), repeat=n):
            case = {"part": "hash", "kind": "plain", "hashtype": 2, "keys": [BASE_KEYS[i].hex() for i in seq],
                    "pattern": "short", "backend": "ram", "reader": "open", "coll": coll}
            acc.count("evaluations")
            acc.count("hash_files")
            res = run_hash_case(case, coll, stats)
            if res is not None:
                sig = "hash|%s|%s" % ("plain", res[0])
                if sig not in acc.viol:
                    case = shrink_hash(case, coll, res[0])
                acc.violation(sig, case, res[1])
    return acc.result()


def replay_hash(case):
    if case["part"] == "reject":
        res = run_reject_case([bytes.fromhex(k) for k in case["keys"]])
        return {"ok": res is None, "what": res[1] if res else "accepted/rejected as documented", "kind": res[0] if res else None}
    res = run_hash_case(case, case["coll"], {})
    return {"ok": res is None, "what": res[1] if res else "file reads back as written", "kind": res[0] if res else None,
            "keys": case["keys"]}


# ===========================================================================
# Part 3: encodings, external sort, compound files
# ===========================================================================

def varint_alphabet():
    vs = {0, 1, 2, 127, 128, 129, 255, 256, 511, 512, 513, 2 ** 31 - 1, 2 ** 31, 2 ** 32 - 1, 2 ** 32,
          2 ** 63 - 1, 2 ** 63, 2 ** 64 - 1, 2 ** 64}
    for k in range(1, 10):
        vs.update((2 ** (7 * k) - 1, 2 ** (7 * k), 2 ** (7 * k) + 1))
    return sorted(vs)


def task_varint(t):
    from io import BytesIO
    from whoosh.util import varints
    from whoosh.util.numlists import delta_encode, delta_decode
    from whoosh.filedb.filestore import RamStorage
    acc = core.Acc()
    st = RamStorage()
    VA = varint_alphabet()
    SA = sorted(set(VA) | set(-v for v in VA))

    def viol(kind, vals, what):
        acc.violation("enc|%s" % kind, {"part": "varint", "kind": kind, "values": [str(v) for v in vals]}, what)

    for signed, alpha in ((False, VA), (True, SA)):
        enc = varints.signed_varint if signed else varints.varint
        for a in alpha:
            for b in [None] + alpha:
                vals = [a] if b is None else [a, b]
                acc.count("evaluations")
                acc.count("varint_cases")
                if b is not None:
                    acc.count("distinct_nontrivial")
                res = run_varint_case(signed, vals, st)
                if res is not None:
                    viol(res[0], [signed] + vals, res[1])
    # delta coding: every list of <= 4 values
    DA = [0, 1, 5, 255, 256, 2 ** 31, 2 ** 32]
    for n in range(0, 5):
        for l in itertools.product(DA, repeat=n):
            acc.count("evaluations")
            acc.count("delta_cases")
            if n >= 2:
                acc.count("distinct_nontrivial")
            try:
                back = list(delta_decode(list(delta_encode(list(l)))))
                ok = back == list(l)
                what = "delta_decode(delta_encode(%r)) = %r" % (l, back)
            except Exception as ex:
                ok, what = False, "delta coding of %r raised %r" % (l, ex)
            if not ok:
                acc.violation("enc|delta", {"part": "delta", "values": [str(v) for v in l]}, what)
    acc.sample({"part": "varint", "values": [str(2 ** 63), str(127)], "signed": False})
    return acc.result()


def run_varint_case(signed, vals, st=None):
    from io import BytesIO
    from whoosh.util import varints
    from whoosh.filedb.filestore import RamStorage
    st = st or RamStorage()
    enc = varints.signed_varint if signed else varints.varint
    try:
        data = b"".join(enc(v) for v in vals)
        if not signed:
            for v in vals:
                want = max(1, (v.bit_length() + 6) // 7)
                if len(enc(v)) != want:
                    return "varint-length", "varint(%d) has %d bytes, minimum is %d" % (v, len(enc(v)), want)
        bio = BytesIO(data)
        back = []
        for _ in vals:
            x = varints.read_varint(bio.read)
            back.append(varints.decode_signed_varint(x) if signed else x)
        if back != vals or bio.read() != b"":
            return ("svarint" if signed else "varint"), "decoded %r from the encoding of %r" % (back, vals)
        f = st.create_file("v")
        for v in vals:
            (f.write_svarint if signed else f.write_varint)(v)
        f.close()
        f = st.open_file("v")
        back = [(f.read_svarint if signed else f.read_varint)() for _ in vals]
        rest = f.read()
        f.close()
        if back != vals or rest != b"":
            return ("svarint-file" if signed else "varint-file"), "StructFile read back %r, wrote %r" % (back, vals)
    except Exception as ex:
        return "varint|exc:%s@%s" % (type(ex).__name__, where(ex)), "raised %r for %r" % (ex, vals)
    return None


GA_VALUES = [0, 255, 256, 65535, 65536, 2 ** 31 - 1, 2 ** 31, 2 ** 32 - 1, 2 ** 32, 2 ** 63 - 1]
TYPE_MAX = {"B": 255, "H": 65535, "i": 2 ** 31 - 1, "I": 2 ** 32 - 1, "q": 2 ** 63 - 1, "Q": 2 ** 64 - 1}


def run_garray_case(inittype, allow_longs, vals, use_extend=False, batches=None):
    from whoosh.util.numlists import GrowableArray
    from whoosh.filedb.filestore import RamStorage
    ga = GrowableArray(inittype, allow_longs=allow_longs)
    accepted = []
    retypes = 0
    try:
        if batches:
            # the same values handed over in consecutive extend() calls of the
            # given sizes (values no array type can hold are left to the
            # single-value cases: what extend() keeps of a refused batch is
            # not documented)
            pos = 0
            for size in batches:
                batch = vals[pos:pos + size]
                pos += size
                before = ga.typecode
                ga.extend(iter(batch) if size % 2 else list(batch))
                accepted.extend(batch)
                if ga.typecode != before:
                    retypes += 1
                if list(ga) != accepted or len(ga) != len(accepted):
                    return ("garray|extend-batch", "after extend(%r) on type %s holding %r (now type %s): %r"
                            % (batch, before, accepted[:len(accepted) - len(batch)], ga.typecode, list(ga)), retypes)
                if accepted and max(accepted) > TYPE_MAX.get(ga.typecode, -1):
                    return "garray|typecode", "typecode %r cannot hold %r" % (ga.typecode, max(accepted)), retypes
            vals = []
        for v in vals:
            before = ga.typecode
            must_fail = (not allow_longs) and v >= 2 ** 32
            try:
                if use_extend:
                    ga.extend([v])
                else:
                    ga.append(v)
                failed = False
            except OverflowError:
                failed = True
            if failed != must_fail:
                return ("garray|overflow", "append(%d) on %r (allow_longs=%r): OverflowError=%r, expected %r"
                        % (v, before, allow_longs, failed, must_fail), retypes)
            if failed:
                if list(ga) != accepted:
                    return "garray|lost-after-overflow", "contents %r after a refused append, expected %r" % (list(ga), accepted), retypes
                continue
            accepted.append(v)
            if ga.typecode != before:
                retypes += 1
            if list(ga) != accepted or len(ga) != len(accepted):
                return ("garray|contents", "after appending %r (type %s -> %s): %r" % (accepted, before, ga.typecode, list(ga)), retypes)
            if max(accepted) > TYPE_MAX.get(ga.typecode, -1):
                return "garray|typecode", "typecode %r cannot hold %r" % (ga.typecode, max(accepted)), retypes
        st = RamStorage()
        f = st.create_file("g")
        f.write(b"\x00")
        ga.to_file(f)
        f.close()
        f = st.open_file("g")
        f.seek(1)
        back = list(f.read_array(ga.typecode, len(accepted)))
        rest = f.read()
        back2 = list(f.get_array(1, ga.typecode, len(accepted)))
        f.close()
        if back != accepted or rest != b"" or back2 != accepted:
            return "garray|to_file", "to_file/read_array(%r) gave %r for %r" % (ga.typecode, back, accepted), retypes
    except Exception as ex:
        return "garray|exc:%s@%s" % (type(ex).__name__, where(ex)), "raised %r for %r" % (ex, vals), retypes
    return None, None, retypes


def _compositions(n):
    """every way to cut n items into consecutive non-empty batches"""
    if n == 0:
        yield ()
        return
    for first in range(1, n + 1):
        for rest in _compositions(n - first):
            yield (first,) + rest


def task_garray(t):
    _, inittype, allow_longs = t
    acc = core.Acc()
    for n in range(0, 5):
        for vals in itertools.product(GA_VALUES, repeat=n):
            for ext in ((False, True) if n <= 2 else (False,)):
                acc.count("evaluations")
                acc.count("garray_cases")
                kind, what, retypes = run_garray_case(inittype, allow_longs, list(vals), ext)
                if retypes:
                    acc.count("distinct_nontrivial")
                    acc.count("garray_cases_with_retype")
                    if retypes >= 2:
                        acc.count("garray_cases_with_2plus_retypes")
                if kind is not None:
                    acc.violation("enc|" + kind, {"part": "garray", "inittype": inittype, "allow_longs": allow_longs,
                                                   "values": [str(v) for v in vals], "extend": ext}, what)
            if n >= 2 and (allow_longs or max(vals) < 2 ** 32):
                for batches in _compositions(n):
                    if max(batches) < 2:
                        continue
                    acc.count("evaluations")
                    acc.count("garray_cases")
                    acc.count("garray_batch_extend_cases")
                    kind, what, retypes = run_garray_case(inittype, allow_longs, list(vals), False, batches)
                    if retypes:
                        acc.count("distinct_nontrivial")
                        acc.count("garray_batch_extend_with_retype")
                    if kind is not None:
                        acc.violation("enc|" + kind, {"part": "garray", "inittype": inittype, "allow_longs": allow_longs,
                                                       "values": [str(v) for v in vals], "batches": list(batches)}, what)
    acc.sample({"part": "garray", "inittype": inittype, "allow_longs": allow_longs, "values": ["255", "256", "65536", "2147483648"]})
    return acc.result()


F32MAX = 3.4028234663852886e+38
STRUCT_ITEMS = (
    [["sbyte", v] for v in (-128, -1, 0, 127)] + [["byte", v] for v in (0, 1, 255)] +
    [["ushort", v] for v in (0, 258, 65535)] + [["ushort_le", v] for v in (0, 258, 65535)] +
    [["int", v] for v in (-2 ** 31, -1, 0, 2 ** 31 - 1)] + [["uint", v] for v in (0, 2 ** 31, 2 ** 32 - 1)] +
    [["uint_le", v] for v in (0, 0x01020304, 2 ** 32 - 1)] +
    [["long", v] for v in (-2 ** 63, -1, 0, 2 ** 63 - 1)] + [["ulong", v] for v in (0, 2 ** 63, 2 ** 64 - 1)] +
    [["float", v] for v in (0.0, -0.0, 1.5, -2.25, F32MAX, float("inf"), 1.401298464324817e-45)] +
    [["varint", v] for v in (0, 127, 128, 2 ** 32, 2 ** 64)] + [["svarint", v] for v in (-1, 0, 1, -2 ** 31, 2 ** 40)] +
    [["string", v] for v in ("", "616263", "7a" * 200)] + [["string2", v] for v in ("", "6162", "79" * 300)] +
    [["string4", v] for v in ("", "78797a", "00ff" * 40000)] +
    [["array", ["B", [0, 1, 255]]], ["array", ["H", [0, 258, 65535]]], ["array", ["i", [-2 ** 31, -1, 2 ** 31 - 1]]],
     ["array", ["I", [0, 2 ** 32 - 1]]], ["array", ["q", [-2 ** 63, 2 ** 63 - 1]]], ["array", ["f", [1.5, -2.25]]],
     ["array", ["B", []]], ["array", ["h", [-32768, 32767]]], ["array", ["Q", [2 ** 64 - 1]]]] +
    [["pickle", v] for v in (None, {"a": [1, 2], "b": "x"})])
STRUCT_BACKENDS = ("ram", "file", "cmmap", "cnommap")
GETTERS = {"sbyte", "byte", "int", "uint", "ushort", "long", "ulong", "float", "string2", "string4", "array"}


def _swrite(f, item):
    from array import array
    k, v = item
    if k in ("string", "string2", "string4"):
        getattr(f, "write_" + k)(bytes.fromhex(v))
    elif k == "array":
        f.write_array(array(v[0], v[1]))
    elif k == "pickle":
        f.write_pickle(v)
    else:
        getattr(f, "write_" + k)(v)


def _snorm(k, v):
    from array import array
    if k in ("string", "string2", "string4"):
        return bytes.fromhex(v)
    if k == "float":
        return struct.pack("!f", v)
    if k == "array":
        return (v[0], array(v[0], v[1]).tobytes())
    return v


def _sread(f, item, pos=None):
    k, v = item
    if pos is None:
        if k == "array":
            a = f.read_array(v[0], len(v[1]))
            return (a.typecode, a.tobytes())
        x = getattr(f, "read_" + k)()
    else:
        if k == "array":
            a = f.get_array(pos, v[0], len(v[1]))
            return (a.typecode, a.tobytes())
        x = getattr(f, "get_" + k)(pos)
        if k in ("string2", "string4"):
            x = x[0]
    if k == "float":
        return struct.pack("!f", x)
    if isinstance(x, memoryview):
        x = bytes(x)
    return x


def run_struct_case(backend, items):
    from whoosh.filedb.compound import CompoundStorage
    he = henv()
    st = he.ram if backend == "ram" else he.fs
    closers = []
    try:
        f = st.create_file("s.dat")
        f.write(b"\x7f")
        poses = []
        for it in items:
            poses.append(f.tell())
            _swrite(f, it)
        end = f.tell()
        f.close()
        if backend in ("cmmap", "cnommap"):
            CompoundStorage.assemble(st.create_file("s.cmp"), st, ["s.dat"])
            src = CompoundStorage(st.open_file("s.cmp"), use_mmap=(backend == "cmmap"))
            closers.append(src.close)
        else:
            src = st
        if src.file_length("s.dat") != end:
            return "struct|length", "file_length %r, wrote %r bytes" % (src.file_length("s.dat"), end)
        f = src.open_file("s.dat")
        closers.insert(0, f.close)
        f.seek(1)
        for it in items:
            got = _sread(f, it)
            if got != _snorm(*it):
                return "struct|read_%s" % it[0], "read_%s gave %r, wrote %r (%s)" % (it[0], repr(got)[:60], repr(it[1])[:60], backend)
        if f.read() != b"":
            return "struct|trailing", "unread bytes after reading everything back"
        # positional access in reverse order
        for it, pos in reversed(list(zip(items, poses))):
            if it[0] in GETTERS:
                got = _sread(f, it, pos)
                if got != _snorm(*it):
                    return "struct|get_%s" % it[0], "get_%s(%d) gave %r, wrote %r (%s)" % (it[0], pos, repr(got)[:60], repr(it[1])[:60], backend)
    except Exception as ex:
        return "struct|exc:%s@%s" % (type(ex).__name__, where(ex)), "raised %r for %s (%s)" % (ex, repr(items)[:120], backend)
    finally:
        for c in closers:
            try:
                c()
            except Exception:
                pass
    return None


def task_struct(t):
    _, backend, lo, hi = t
    acc = core.Acc()
    n = len(STRUCT_ITEMS)
    for i in range(lo, hi):
        for j in [None] + list(range(n)):
            items = [STRUCT_ITEMS[i]] if j is None else [STRUCT_ITEMS[i], STRUCT_ITEMS[j]]
            acc.count("evaluations")
            acc.count("structfile_cases")
            if j is not None:
                acc.count("distinct_nontrivial")
            res = run_struct_case(backend, items)
            if res is not None:
                acc.violation("enc|" + res[0], {"part": "struct", "backend": backend, "items": items}, res[1])
    return acc.result()


SORT_VALUES = [[0, "b"], [0, "a"], [1, ""]]


def run_sort_case(seq, maxsize, maxfiles, api):
    from whoosh import externalsort
    d = core.fresh_dir("c20sort")
    items = [tuple(SORT_VALUES[i]) for i in seq]
    try:
        if api == "pool":
            p = externalsort.SortingPool(maxsize=maxsize, tempdir=d)
            for it in items:
                p.add(it)
            nruns_before = len(p.runs)
            out = list(p.items(maxfiles=maxfiles))
        else:
            nruns_before = None
            out = list(externalsort.sort(iter(items), maxsize=maxsize, tempdir=d, maxfiles=maxfiles))
        left = os.listdir(d)
        if out != sorted(items):
            return "sort|wrong", "sorted %r to %r (maxsize=%d maxfiles=%d %s)" % (items, out, maxsize, maxfiles, api), left
        return None, None, left
    except Exception as ex:
        return "sort|exc:%s@%s" % (type(ex).__name__, where(ex)), "raised %r for %r" % (ex, items), []
    finally:
        import shutil
        shutil.rmtree(d, ignore_errors=True)


def task_sort(t):
    _, maxsize, maxfiles, api = t
    acc = core.Acc()
    for n in range(0, 6):
        for seq in itertools.product(range(3), repeat=n):
            acc.count("evaluations")
            acc.count("sort_cases")
            runs = (n + maxsize - 1) // maxsize if n > maxsize else 0
            if runs >= 2:
                acc.count("distinct_nontrivial")
                acc.count("sort_cases_multi_run")
            if runs > maxfiles:
                acc.count("sort_cases_with_premerge")
            kind, what, left = run_sort_case(list(seq), maxsize, maxfiles, api)
            if left:
                acc.count("sort_cases_leaving_run_files")
            if kind is not None:
                acc.violation("enc|" + kind, {"part": "sort", "seq": list(seq), "maxsize": maxsize,
                                               "maxfiles": maxfiles, "api": api}, what)
    acc.sample({"part": "sort", "seq": [2, 0, 1, 0, 2], "maxsize": maxsize, "maxfiles": maxfiles, "api": api})
    return acc.result()


MEMBERS = {"e.dat": b"", "s.dat": b"abc" * 5, "b.dat": bytes((i * 7 + (i >> 8)) & 255 for i in range(40000))}


def run_compound_case(case):
    """members: ordered list of names; how: assemble | writer | writer_files;
    buffersize, chunk (write granularity, members written round-robin),
    mmap, storage: file | ram"""
    from whoosh.filedb.filestore import RamStorage, FileStorage
    from whoosh.filedb.compound import CompoundStorage, CompoundWriter
    names = case["members"]
    d = core.fresh_dir("c20cmp")
    closers = []
    try:
        st = FileStorage(d) if case["storage"] == "file" else RamStorage()
        if case["how"] == "assemble":
            for n in names:
                f = st.create_file(n)
                f.write(MEMBERS[n])
                f.close()
            CompoundStorage.assemble(st.create_file("x.cmp"), st, names)
        else:
            tmp = FileStorage(core.fresh_dir("c20cmpt"))
            cw = CompoundWriter(tmp, buffersize=case["buffersize"])
            files = [(n, cw.create_file(n)) for n in names]
            chunk = case["chunk"]
            pos = 0
            mx = max([len(MEMBERS[n]) for n in names] or [0])
            while pos < mx:
                for n, f in files:
                    piece = MEMBERS[n][pos:pos + chunk]
                    if piece:
                        f.write(piece)
                    if f.tell() != min(len(MEMBERS[n]), pos + chunk):
                        return "compound|substream-tell", "tell() of %s = %r after writing %d bytes" % (n, f.tell(), min(len(MEMBERS[n]), pos + chunk))
                pos += chunk
            if case["how"] == "writer":
                cw.save_as_compound(st.create_file("x.cmp"))
            else:
                cw.save_as_files(st, lambda n: "out_" + n)
                for n in names:
                    f = st.open_file("out_" + n)
                    data = bytes(f.read())
                    f.close()
                    if data != MEMBERS[n] or st.file_length("out_" + n) != len(MEMBERS[n]):
                        return "compound|save_as_files", "member %s differs (%d bytes vs %d)" % (n, len(data), len(MEMBERS[n]))
                return None
        cs = CompoundStorage(st.open_file("x.cmp"), use_mmap=case["mmap"])
        closers.append(cs.close)
        if case["mmap"] and case["storage"] == "file" and cs._source is None:
            raise core.HarnessError("mmap did not engage")
        if sorted(cs.list()) != sorted(names):
            return "compound|list", "list() = %r, expected %r" % (sorted(cs.list()), sorted(names))
        for n in sorted(MEMBERS) + ["nope.dat"]:
            if cs.file_exists(n) != (n in names):
                return "compound|file_exists", "file_exists(%r) = %r" % (n, cs.file_exists(n))
        opened = []
        for n in names:
            if cs.file_length(n) != len(MEMBERS[n]):
                return "compound|file_length", "file_length(%r) = %r, expected %d" % (n, cs.file_length(n), len(MEMBERS[n]))
            f = cs.open_file(n)
            closers.insert(0, f.close)
            opened.append((n, f))
        # interleaved partial reads on all members, then the rest
        got = dict((n, b"") for n in names)
        for size in (5, 0, 11):
            for n, f in opened:
                got[n] += bytes(f.read(size))
        for n, f in opened:
            got[n] += bytes(f.read())
            if bytes(f.read()) != b"" or bytes(f.read(3)) != b"":
                return "compound|read-past-end", "read() at the end of %s returned data" % n
        for n in names:
            if got[n] != MEMBERS[n]:
                k = next((i for i, (a, b) in enumerate(zip(got[n], MEMBERS[n])) if a != b), min(len(got[n]), len(MEMBERS[n])))
                return "compound|content", "member %s differs at byte %d (%d bytes vs %d)" % (n, k, len(got[n]), len(MEMBERS[n]))
        for n, f in opened:
            L = len(MEMBERS[n])
            for pos, ln in ((0, 1), (L // 2, 7), (max(0, L - 3), 3), (0, L)):
                if bytes(f.get(pos, ln)) != MEMBERS[n][pos:pos + ln]:
                    return "compound|get", "get(%d, %d) on %s wrong" % (pos, ln, n)
            f.seek(max(0, L - 2))
            if bytes(f.read()) != MEMBERS[n][max(0, L - 2):]:
                return "compound|seek-read", "seek/read on %s wrong" % n
            if L >= 4:
                if f.get_int(L - 4) != struct.unpack("!i", MEMBERS[n][L - 4:])[0]:
                    return "compound|get_int", "get_int on %s wrong" % n
        return None
    except core.HarnessError:
        raise
    except Exception as ex:
        return "compound|exc:%s@%s" % (type(ex).__name__, where(ex)), "raised %r (%s)" % (ex, {k: v for k, v in case.items() if k != "part"})
    finally:
        for c in closers:
            try:
                c()
            except Exception:
                pass
        import shutil
        shutil.rmtree(d, ignore_errors=True)


def run_compound_writes_case(case):
    """One member file written through CompoundWriter as the given sequence of
    write() sizes (a second member is written in between when 'other' is set),
    for a small buffer size: flushes happen at different fill levels of the
    sub-stream's re-used buffer.  Both save paths must give back the bytes."""
    from whoosh.filedb.filestore import RamStorage, FileStorage
    from whoosh.filedb.compound import CompoundStorage, CompoundWriter
    sizes = case["sizes"]
    try:
        tmp = RamStorage()
        cw = CompoundWriter(tmp, buffersize=case["buffersize"])
        f = cw.create_file("m.dat")
        g = cw.create_file("o.dat") if case["other"] else None
        want = b""
        wanto = b""
        k = 0
        for sz in sizes:
            piece = bytes(((k + i) * 13 + 1) & 255 for i in range(sz))
            k += sz
            f.write(piece)
            want += piece
            if f.tell() != len(want):
                return "compound|substream-tell", "tell() = %r after %d bytes (writes %r)" % (f.tell(), len(want), sizes)
            if g is not None:
                po = bytes([200 + len(wanto) % 50]) * (case["buffersize"] - 1)
                g.write(po)
                wanto += po
        st = RamStorage()
        if case["how"] == "writer":
            cw.save_as_compound(st.create_file("x.cmp"))
            cs = CompoundStorage(st.open_file("x.cmp"), use_mmap=False)
            got = bytes(cs.open_file("m.dat").read())
            ln = cs.file_length("m.dat")
            goto = bytes(cs.open_file("o.dat").read()) if g is not None else b""
            cs.close()
        else:
            cw.save_as_files(st, lambda n: n)
            got = bytes(st.open_file("m.dat").read())
            ln = st.file_length("m.dat")
            goto = bytes(st.open_file("o.dat").read()) if g is not None else b""
        if ln != len(want):
            return "compound|writes|length", "member length %d, wrote %d bytes as %r (buffer %d)" % (ln, len(want), sizes, case["buffersize"])
        if got != want:
            i = next((i for i, (a, b) in enumerate(zip(got, want)) if a != b), min(len(got), len(want)))
            return "compound|writes|content", "member differs at byte %d after writes of sizes %r (buffer %d)" % (i, sizes, case["buffersize"])
        if goto != wanto:
            return "compound|writes|other-member", "the interleaved second member differs (writes %r, buffer %d)" % (sizes, case["buffersize"])
        return None
    except Exception as ex:
        return "compound|exc:%s@%s" % (type(ex).__name__, where(ex)), "raised %r (%s)" % (ex, {k: v for k, v in case.items() if k != "part"})


def compound_write_cases(tier):
    for bs in (4, 8):
        alpha = (0, 1, bs - 1, bs, bs + 1, 2 * bs + 1)
        for n in range(1, 5 if tier == "quick" else 6):
            for sizes in itertools.product(alpha, repeat=n):
                for how in ("writer", "files"):
                    for other in ((False, True) if n <= 3 else (False,)):
                        yield {"part": "compound_writes", "sizes": list(sizes), "buffersize": bs, "how": how, "other": other}


def task_compound_writes(t):
    _, cases = t
    acc = core.Acc()
    for case in cases:
        acc.count("evaluations")
        acc.count("compound_write_sequences")
        bs = case["buffersize"]
        fill = 0
        flushes = []
        for sz in case["sizes"]:
            if fill + sz >= bs:
                flushes.append(fill)
                fill = 0
            else:
                fill += sz
        if len(flushes) >= 2:
            acc.count("distinct_nontrivial")
            if any(b < a for a, b in zip(flushes, flushes[1:])):
                acc.count("compound_write_sequences_flushing_less_than_before")
        res = run_compound_writes_case(case)
        if res is not None:
            acc.violation("enc|" + res[0], case, res[1])
    acc.sample(cases[len(cases) // 2])
    return acc.result()


def compound_cases():
    names = sorted(MEMBERS)
    arrangements = [[]]
    for n in range(1, 4):
        for sub in itertools.permutations(names, n):
            arrangements.append(list(sub))
    for arr in arrangements:
        for storage in ("file", "ram"):
            for mm in ((True, False) if storage == "file" else (False,)):
                if arr:
                    yield {"part": "compound", "members": arr, "how": "assemble", "storage": storage, "mmap": mm}
                for bs in (1, 16, 32 * 1024):
                    for chunk in (7, 4096, 50000):
                        yield {"part": "compound", "members": arr, "how": "writer", "storage": storage, "mmap": mm,
                               "buffersize": bs, "chunk": chunk}
        for bs in (1, 16, 32 * 1024):
            for chunk in (7, 4096, 50000):
                yield {"part": "compound", "members": arr, "how": "writer_files", "storage": "file", "mmap": False,
                       "buffersize": bs, "chunk": chunk}


def task_compound(t):
    _, cases = t
    acc = core.Acc()
    for case in cases:
        acc.count("evaluations")
        acc.count("compound_cases")
        if len(case["members"]) >= 2:
            acc.count("distinct_nontrivial")
        res = run_compound_case(case)
        if res is not None:
            acc.violation("enc|" + res[0], case, res[1])
        elif len(case["members"]) == 3 and case.get("buffersize") == 16 and case.get("chunk") == 7 and case["mmap"]:
            acc.sample(case)
    return acc.result()


B85_VALUES = [0, 1, 84, 85, 86, 85 ** 2, 85 ** 4 - 1, 85 ** 4, 2 ** 31, 2 ** 32 - 1]
B85_LONG = B85_VALUES + [2 ** 32, 85 ** 5, 85 ** 9, 2 ** 63, 2 ** 64 - 1]


def task_base85(t):
    from whoosh.support import base85
    acc = core.Acc()
    for islong, alpha in ((False, B85_VALUES), (True, B85_LONG)):
        for a in alpha:
            for b in alpha:
                acc.count("evaluations")
                acc.count("base85_cases")
                if a != b:
                    acc.count("distinct_nontrivial")
                try:
                    ea, eb = base85.to_base85(a, islong), base85.to_base85(b, islong)
                    ok = (base85.from_base85(ea) == a and len(ea) == (10 if islong else 5) and
                          ((a < b) == (ea < eb)) and ((a == b) == (ea == eb)))
                    what = "to_base85(%d)=%r -> %r; to_base85(%d)=%r" % (a, ea, base85.from_base85(ea), b, eb)
                except Exception as ex:
                    ok, what = False, "raised %r" % (ex,)
                if not ok:
                    acc.violation("enc|base85", {"part": "base85", "a": str(a), "b": str(b), "islong": islong}, what)
    return acc.result()


def replay_enc(case):
    p = case["part"]
    if p == "varint":
        v = case["values"]
        signed = v[0] in ("True", True)
        res = run_varint_case(signed, [int(x) for x in v[1:]])
    elif p == "delta":
        from whoosh.util.numlists import delta_encode, delta_decode
        l = [int(x) for x in case["values"]]
        back = list(delta_decode(list(delta_encode(l))))
        res = None if back == l else ("delta", "got %r" % back)
    elif p == "garray":
        r = run_garray_case(case["inittype"], case["allow_longs"], [int(x) for x in case["values"]], case.get("extend", False), case.get("batches"))
        res = None if r[0] is None else r[:2]
    elif p == "struct":
        res = run_struct_case(case["backend"], case["items"])
    elif p == "sort":
        r = run_sort_case(case["seq"], case["maxsize"], case["maxfiles"], case["api"])
        res = None if r[0] is None else r[:2]
    elif p == "compound_writes":
        res = run_compound_writes_case(case)
    elif p == "compound":
        res = run_compound_case(case)
    elif p == "base85":
        from whoosh.support import base85
        a, b, il = int(case["a"]), int(case["b"]), case["islong"]
        ea, eb = base85.to_base85(a, il), base85.to_base85(b, il)
        ok = base85.from_base85(ea) == a and ((a < b) == (ea < eb))
        res = None if ok else ("base85", "%r %r" % (ea, eb))
    else:
        raise ValueError(p)
    return {"ok": res is None, "what": res[1] if res else "round trip exact", "kind": res[0] if res else None}


# ===========================================================================
# driver
# ===========================================================================

def task(t):
    import time
    t0 = time.process_time()
    res = _task(t)
    if isinstance(res, dict):
        res.setdefault("counts", {})["cpu_ms"] = int((time.process_time() - t0) * 1000)
        if os.environ.get("C20_DEBUG"):
            res["counts"]["cpu_ms:" + t[0]] = res["counts"]["cpu_ms"]
            res["counts"]["max_task_ms:" + t[0] + ":" + str(os.getpid() % 1000)] = res["counts"]["cpu_ms"]
    return res


def _task(t):
    k = t[0]
    if k == "expand":
        return task_expand(t)
    if k == "views":
        return task_views(t)
    if k == "hash":
        return task_hash(t)
    if k == "ordered":
        return task_ordered(t)
    if k == "reject":
        return task_reject(t)
    if k == "cdb":
        return task_cdb(t)
    if k == "varint":
        return task_varint(t)
    if k == "garray":
        return task_garray(t)
    if k == "struct":
        return task_struct(t)
    if k == "sort":
        return task_sort(t)
    if k == "compound":
        return task_compound(t)
    if k == "compound_writes":
        return task_compound_writes(t)
    if k == "base85":
        return task_base85(t)
    raise ValueError(k)


COMBOS8 = [("short", "ram", "open"), ("empty", "file", "nolen"), ("bigfirst", "cmmap", "open"),
           ("mixed", "cnommap", "offset"), ("short", "cram", "offset_nolen"), ("bigfirst", "file", "offset"),
           ("mixed", "ram", "nolen"), ("empty", "cmmap", "offset_nolen")]
COMBOS16 = COMBOS8 + [("bigfirst", "cnommap", "nolen"), ("mixed", "cram", "open"), ("short", "cmmap", "offset"),
                      ("empty", "cnommap", "open"), ("mixed", "file", "offset_nolen"), ("bigfirst", "ram", "offset_nolen"),
                      ("short", "file", "open"), ("empty", "cram", "offset")]
ALL_COMBOS = [(p, b, r) for p in ("short", "empty", "bigfirst", "mixed") for b in HASH_BACKENDS for r in READER_VARIANTS]


def chunks(l, n):
    return [l[i:i + n] for i in range(0, len(l), n)]


def static_tasks(ctx, colls):
    """Everything except the BFS (whose task list depends on its own results)."""
    seed, quick = ctx.seed, ctx.tier == "quick"
    tasks = []
    nk = 11
    for ht in (0, 1):
        coll = colls[ht]
        for length in (0, 1, 2):
            for first in ([None] if length == 0 else range(nk)):
                for cs in chunks(ALL_COMBOS, 40 if length < 2 else 20):
                    tasks.append(("hash", seed, ht, coll, length, first, cs))
        for first in range(nk):
            for cs in chunks(COMBOS8 if quick else ALL_COMBOS, 4):
                tasks.append(("hash", seed, ht, coll, 3, first, cs))
        for first in range(nk):
            if quick:
                tasks.append(("hash", seed, ht, coll, 4, first, "rotate"))
            else:
                for cs in chunks(COMBOS8 if seed % 2 == 0 else COMBOS16[8:], 2):
                    tasks.append(("hash", seed, ht, coll, 4, first, cs))
    coll = colls[0]
    masks = list(range(1 << nk))
    masks.sort(key=lambda m: (bin(m).count("1"), m))
    small = [m for m in masks if bin(m).count("1") <= 4]
    if quick:
        for ms in chunks(small, 12):
            for cs in chunks(ALL_COMBOS, 40):
                tasks.append(("ordered", seed, coll, ms, cs))
        big = [m for m in masks if bin(m).count("1") > 4]
        for ms in chunks(big, 100):
            tasks.append(("ordered", seed, coll, ms, COMBOS8[:4] if seed % 2 == 0 else COMBOS8[4:]))
    else:
        for ms in chunks(small, 16):
            for cs in chunks(ALL_COMBOS, 20):
                tasks.append(("ordered", seed, coll, ms, cs))
        big = [m for m in masks if bin(m).count("1") > 4]
        for ms in chunks(big, 25):
            tasks.append(("ordered", seed, coll, ms, COMBOS16))
    for length in (0, 1, 2, 3, 4):
        for first in ([None] if length == 0 else range(nk)):
            tasks.append(("reject", seed, coll, length, first))
    tasks.append(("cdb", seed, coll))
    tasks.append(("varint", seed))
    for it in ("B", "H"):
        for al in (True, False):
            tasks.append(("garray", it, al))
    n = len(STRUCT_ITEMS)
    for b in STRUCT_BACKENDS:
        for lo in range(0, n, 10):
            tasks.append(("struct", b, lo, min(n, lo + 10)))
    for maxsize in (1, 2, 3):
        for maxfiles in (2, 3):
            for api in ("pool", "sort"):
                tasks.append(("sort", maxsize, maxfiles, api))
    for cs in chunks(list(compound_cases()), 12):
        tasks.append(("compound", cs))
    for cs in chunks(list(compound_write_cases(ctx.tier)), 600):
        tasks.append(("compound_writes", cs))
    tasks.append(("base85", seed))
    return tasks


def run(ctx):
    seed = ctx.seed
    depth = 4 if ctx.tier == "quick" else int(os.environ.get("C20_DEPTH", "10"))
    colls = {0: find_colliders(0), 1: find_colliders(1)}
    ctx.extra["colliding_keys"] = colls

    parts = os.environ.get("C20_PARTS", "").split(",") if os.environ.get("C20_PARTS") else None
    if parts:
        ctx.cap("development run restricted to parts %r (C20_PARTS)" % (parts,))

    # ---- E4: breadth-first search over id-set operation sequences
    seen = {}
    unsupported = set()
    frontier = [None] if (not parts or "ids" in parts) else []
    layers = []
    for d in range(depth + 1):
        tasks = [("expand", seed, c) for c in chunks(frontier, 16)]
        out = ctx.pmap(task, tasks)
        cand = {}
        for res in out:
            unsupported.update(res.get("unsupported", ()))
            for c, v in res["succ"].items():
                # results arrive in any order: keep the least path so that
                # the search tree is the same in every run
                if c not in seen and (c not in cand or repr(v[0]) < repr(cand[c][0])):
                    cand[c] = v
        seen.update(cand)
        nxt = sorted((v[0] for v in cand.values()), key=repr)
        layers.append(len(nxt))
        frontier = nxt
        if not frontier:
            break
    ctx.counters["states"] = len(seen)
    ctx.extra["states_per_depth"] = layers
    ctx.extra["max_depth"] = depth
    ctx.extra["state_space_closed_below_bound"] = (not frontier)
    bytype = {}
    for c in seen:
        k = {"B": "BitSet", "S": "SortedIntSet", "R": "ReverseIdSet"}[c[0]]
        if k == "ReverseIdSet":
            k += "<%s>" % ("BitSet" if "(B:" in c else "SortedIntSet")
        bytype[k] = bytype.get(k, 0) + 1
    ctx.extra["states_by_type"] = bytype

    # ---- derived read-only views of every state
    items = []
    contents = set()
    for c, (pth, S, limit) in sorted(seen.items()):
        if c.startswith("B:"):
            items.append(("ondisk", c[2:]))
        contents.add(tuple(S))
    for S in sorted(contents, key=lambda x: (len(x), x)):
        items.append(("multi", list(S)))
    ctx.extra["distinct_contents"] = len(contents)
    vtasks = [("views", seed, c) for c in chunks(items, 40)]
    # samples: one reachable state per id-set type, then a few E1 cases
    ids_samples = []
    for tn in sorted(bytype):
        pick = [(c, v) for c, v in sorted(seen.items())
                if len(v[0]) == min(4, depth) and tn.startswith({"B": "BitSet", "S": "SortedIntSet", "R": "ReverseIdSet"}[c[0]])
                and (c[0] != "R" or ("(B:" in c) == tn.endswith("<BitSet>"))]
        if pick:
            c, v = pick[len(pick) // 2]
            ids_samples.append({"part": "ids", "program": v[0], "state": c, "model": v[1]})
    ctx.samples = []
    st = static_tasks(ctx, colls)
    if parts:
        hk = ("hash", "ordered", "reject", "cdb")
        st = [t for t in st if ("hash" in parts and t[0] in hk) or ("enc" in parts and t[0] not in hk)]
    out = ctx.pmap(task, vtasks + st)
    for res in out:
        unsupported.update(res.get("unsupported", ()))
    ctx.samples = ids_samples[:4] + [x for x in ctx.samples if x.get("part") != "ids"][:4]
    ctx.count("traces_validated_against_impl", 0)
    ctx.count("evaluations", ctx.counters.get("view_cases", 0))
    ctx.count("distinct_nontrivial", ctx.counters.get("view_nontrivial", 0))

    ctx.extra["methods_raising_NotImplementedError"] = sorted(unsupported)
    ctx.extra["not_covered_dead_code"] = ["idsets.RoaringIdSet", "numlists.GInts/Simple16/NumberEncoding subclasses",
                                          "varints.varint_to_int", "StructFile.write_tagint/read_tagint",
                                          "filetables.FieldedOrderedHashWriter/Reader", "base85.b85encode/b85decode"]
    ctx.rule = (
        "id sets: breadth-first search from every constructor call (BitSet/SortedIntSet from list, set, iterator, "
        "size; ReverseIdSet over both, limit %d) through every enabled operation {add(i), discard(i), "
        "invert_update(size)/invert(size) with size > max element, update/intersection_update/difference_update/"
        "union/intersection/difference with 6 operand contents x operand kinds python set/list/iterator, BitSet "
        "(exact and with trailing zero bytes), SortedIntSet, OnDiskBitSet, ReverseIdSet, MultiIdSet; copy}, "
        "i in {0,1,7,8,9,15,16,17}, to depth %d; states deduplicated on the real representation (bit array bytes / "
        "sorted array / limit+inner); every distinct state observed (membership 0..24, iteration, len, bool, first, "
        "last, before(i), after(i) for all i) against a Python set; every BitSet state re-read as OnDiskBitSet "
        "(RAM file, real file) and through to_disk/from_disk; every distinct contents as MultiIdSet under every "
        "split at 1-2 cut points x sub-set types.  hash files: every key sequence of <= 4 keys from 11 keys "
        "(empty, prefixes, NUL, 300 bytes, 3 keys in one bucket and wrapping slot, 2 keys with equal 32-bit hash) "
        "x value patterns x 5 back-ends x 4 reader variants (all 80 combinations for <= 2 keys (thorough: <= 3), a "
        "fixed family of 8 covering every pattern, back-end and reader variant for longer ones (quick, 4 keys: 2 "
        "rotating ones)), ordered files for every subset of the 11 keys (all 80 combinations up to 4 keys, 4-16 "
        "beyond) with ~60 probe keys each, "
        "OrderedHashWriter on every sequence of <= 4 keys.  encodings: varints at every byte-length boundary "
        "(singles and ordered pairs), delta lists, GrowableArray on every sequence of <= 4 boundary values, "
        "StructFile typed items singly and in ordered pairs on 4 back-ends, external sort on every sequence of "
        "<= 5 items x run size x maxfiles x API, compound files for every ordered subset of 3 members x "
        "construction path x buffer size x write granularity x storage/mmap.  distinct_nontrivial: a hash file "
        "with a shared bucket, duplicate key or offset past 2^16; an ordered file with >= 2 keys; a rejected "
        "(non-increasing) writer sequence; an encoding case with >= 2 values / a retype / >= 2 sort runs / >= 2 "
        "members; a non-empty view.  No case is enumerated twice." % (rev_limit(seed), depth))
    ctx.assumptions = [
        "DocIdSet is documented as 'a subset of the built-in set type's interface': discard of an absent id and "
        "update with an empty iterable are required to be no-ops as for set",
        "first()/last() are only asked of non-empty sets; invert(size)/invert_update(size) only with every "
        "element < size; ReverseIdSet only with ids < limit; MultiIdSet offsets start at 0 and sub-sets hold "
        "only ids below the next offset",
        "NotImplementedError from the DocIdSet base class is recorded as 'not provided by this type' "
        "(methods_raising_NotImplementedError), not as a violation",
        "the order of all(key) for duplicate keys and of keys()/items() of an unordered hash file is not "
        "documented and not demanded (multiset comparison); == between id sets is not part of the statement",
        "equal real representations have equal observations (observation memoised per process on the "
        "canonical form together with the model it was validated against)",
    ]
    # vacuity guards
    c = ctx.counters
    need = {"states": 500, "transitions": 10000, "view_cases": 1000, "hash_files": 1000, "ordered_files": 1000,
            "ordered_index_retyped": 10, "dup_lookups": 100, "garray_cases_with_2plus_retypes": 100,
            "sort_cases_with_premerge": 10, "compound_cases": 100, "non_increasing_sequences": 100,
            "garray_batch_extend_with_retype": 1000, "compound_write_sequences_flushing_less_than_before": 100}
    for k, v in need.items():
        if parts:
            break
        if c.get(k, 0) < v:
            raise core.HarnessError("vacuous: counter %s = %d (< %d)" % (k, c.get(k, 0), v))


def replay(case):
    core.setup_process(case.get("seed", 0))
    p = case["part"]
    if p in ("ids", "ids_view"):
        return replay_ids(case)
    if p in ("hash", "reject"):
        return replay_hash(case)
    return replay_enc(case)
