"""C07 - deletes, updates and cancel have exact, durable semantics.

E4: explicit-state breadth-first search in which ONE TRANSITION = ONE WRITER
TRANSACTION executed on a real index.  A state is the history (list of
transactions) that reaches it; it is rebuilt by replaying the history on a
fresh index (RamStorage, or FileStorage in a private directory) and then
copied (storage snapshot) once per outgoing transition.  States are merged
by a canonical form of the REAL index: per segment, in doc-number order, the
(stored unique key, text, extra-field flag, deleted?) of every physical
document, whether stale data of a removed field is still physically present,
and the schema's field names.  The canonical form contains everything the
writer/reader code branches on (segment layout, doc-number -> segment mapping,
deleted sets, schema), so merged states have the same futures.

Oracle: a dictionary model (multiset of live documents) with the documented
semantics of add / update (delete the committed live documents sharing a
unique value, then add) / delete_by_term / delete_by_query / delete_document
/ commit / cancel.  In every distinct state the real index must agree with
the model through every read API named in the property; on every transition
the return values of delete_by_* must equal the number of live matching
documents, and cancel() / an exception inside a ``with`` block must leave the
canonical dump, the generation and the write lock exactly as before.
"""
import os
import random
import shutil
import traceback
import itertools
from collections import Counter

from mc import core

PID = "C07"
LEVEL = "model_checking"


# ---------------------------------------------------------------------------
# configurations: vocabulary (seed-rotated), unique-field layout, storage

VOCABS = [
    {"w": ("a", "b"), "ids": ("x", "y", "z"), "nums": (1, 2, 3), "k2": ("p", "q")},
    {"w": ("b", "a"), "ids": ("z", "y", "x"), "nums": (3, 2, 1), "k2": ("q", "p")},
    {"w": ("m", "c"), "ids": ("k", "j", "l"), "nums": (-1, 0, 70000), "k2": ("s", "r")},
    {"w": ("c", "m"), "ids": ("l", "k", "j"), "nums": (70000, -1, 0), "k2": ("r", "s")},
]

COMMIT_ENDS = ("nomerge", "default", "optimize", "with", "ixapi", "ixoptimize")
ABORT_ENDS = ("cancel", "raise", "raiseb")
WRITE_KINDS = ("add", "upd")


class Boom(Exception):
    """The exception raised on purpose inside a ``with ix.writer()`` block."""


class BoomBase(BaseException):
    """Leaves a with-block the way KeyboardInterrupt / SystemExit /
    GeneratorExit do: an exception that is not an ``Exception``."""


class OpFailed(Exception):
    pass


class InvalidHistory(Exception):
    """A (shrunk) history that cannot be executed as written."""


class Conf(object):
    """cfg dict: {"name": id|num|two, "seed": int, "storage": ram|file|
    file_nommap, "ixmode": created|reopen, "compound": bool}"""

    def __init__(self, d):
        self.d = dict(d)
        self.name = d["name"]
        self.seed = int(d.get("seed", 0))
        self.storage = d.get("storage", "ram")
        self.ixmode = d.get("ixmode", "created")
        self.compound = d.get("compound", True)
        v = VOCABS[self.seed % len(VOCABS)]
        self.w = v["w"]
        self.texts = [v["w"][0], v["w"][1], v["w"][0] + " " + v["w"][1]]
        self.toks = [t.split() for t in self.texts]
        if self.name == "id":
            self.kids = [(k,) for k in v["ids"]]
        elif self.name == "num":
            self.kids = [(k,) for k in v["nums"]]
        elif self.name == "two":
            i, k2 = v["ids"], v["k2"]
            self.kids = [(i[0], k2[0]), (i[1], k2[1]), (i[0], k2[1]), (i[1], k2[0])]
        else:
            raise ValueError(self.name)
        self.ufields = ["key", "k2"] if self.name == "two" else ["key"]
        # distinct values per unique field, in first-occurrence order
        self.keyvals = []
        for k in self.kids:
            if k[0] not in self.keyvals:
                self.keyvals.append(k[0])
        self.k2vals = []
        if self.name == "two":
            for k in self.kids:
                if k[1] not in self.k2vals:
                    self.k2vals.append(k[1])
        self._bykey = dict((k, n) for n, k in enumerate(self.kids))
        self._bytext = dict((t, n) for n, t in enumerate(self.texts))

    def schema(self):
        from whoosh import fields, analysis
        ana = analysis.SpaceSeparatedTokenizer()
        kw = {}
        if self.name == "num":
            kw["key"] = fields.NUMERIC(int, stored=True, unique=True, sortable=True)
        else:
            kw["key"] = fields.ID(stored=True, unique=True, sortable=True)
        if self.name == "two":
            kw["k2"] = fields.ID(stored=True, unique=True)
        kw["t"] = fields.TEXT(analyzer=ana, stored=True, vector=True, phrase=True)
        kw["g"] = fields.ID(stored=True, sortable=True)
        return fields.Schema(**kw)

    def extra_field(self):
        from whoosh import fields
        return fields.ID(stored=True)

    def fields(self, kid, ti, has_e):
        k = self.kids[kid]
        out = {"key": k[0], "t": self.texts[ti], "g": "g%d" % ti}
        if self.name == "two":
            out["k2"] = k[1]
        if has_e:
            out["e"] = "E"
        return out

    def doc_from_stored(self, sf, has_e=True):
        """stored fields -> model document (kid, ti, e); unknown content maps
        to a marker that equals no model document.  While the schema has no
        field e, a stored e value is ignored: remove_field 'may or may not
        actually remove existing data' until the index is optimized."""
        try:
            if self.name == "two":
                kid = self._bykey[(sf["key"], sf["k2"])]
            else:
                kid = self._bykey[(sf["key"],)]
            ti = self._bytext[sf["t"]]
            if sf.get("g") != "g%d" % ti:
                raise KeyError("g")
            e = 0
            if has_e and "e" in sf:
                if sf["e"] != "E":
                    raise KeyError("e")
                e = 1
            return (kid, ti, e)
        except (KeyError, TypeError):
            return ("?", repr(sorted(sf.items(), key=repr)), 0)

    def shares_unique(self, kid_a, kid_b):
        a, b = self.kids[kid_a], self.kids[kid_b]
        return any(x == y for x, y in zip(a, b))

    # -- queries used by delete ops and by the read checks -----------------
    def pred(self, name, arg=None):
        toks = self.toks
        kids = self.kids
        w0, w1 = self.w
        if name == "key":
            return lambda d: kids[d[0]][0] == arg
        if name == "k2":
            return lambda d: kids[d[0]][1] == arg
        if name == "t":
            return lambda d: arg in toks[d[1]]
        if name == "e":
            return lambda d: d[2] == 1
        if name == "every":
            return lambda d: True
        if name == "everyf":
            return lambda d: True          # every document has text
        if name == "not":
            return lambda d: w0 not in toks[d[1]]
        if name == "notkey":
            k0 = self.keyvals[0]
            return lambda d: kids[d[0]][0] != k0
        if name == "or":
            k0 = self.keyvals[0]
            return lambda d: kids[d[0]][0] == k0 or w1 in toks[d[1]]
        if name == "and":
            return lambda d: w0 in toks[d[1]] and w1 in toks[d[1]]
        if name == "colq":
            return lambda d: d[1] == 0          # column g holds "g<text index>"
        if name == "colq_and":
            return lambda d: d[1] == 0 and w0 in toks[d[1]]
        raise ValueError(name)

    def query(self, name, arg=None):
        from whoosh import query as Q
        w0, w1 = self.w
        if name in ("key", "k2", "t", "e"):
            return Q.Term(name, arg)
        if name == "every":
            return Q.Every()
        if name == "everyf":
            return Q.Every("t")
        if name == "not":
            return Q.Not(Q.Term("t", w0))
        if name == "notkey":
            return Q.Not(Q.Term("key", self.keyvals[0]))
        if name == "or":
            return Q.Or([Q.Term("key", self.keyvals[0]), Q.Term("t", w1)])
        if name == "and":
            return Q.And([Q.Term("t", w0), Q.Term("t", w1)])
        if name == "colq":
            # matches on the per-document column instead of the postings
            return Q.ColumnQuery("g", u"g0")
        if name == "colq_and":
            return Q.And([Q.ColumnQuery("g", u"g0"), Q.Term("t", w0)])
        raise ValueError(name)

    def del_spec(self, op):
        """(query name, arg) of a delete_by_* op."""
        k = op[0]
        if k == "dkey":
            return ("key", self.keyvals[op[1]])
        if k == "dk2":
            return ("k2", self.k2vals[op[1]])
        if k == "dtxt":
            return ("t", self.w[op[1]])
        if k == "dq":
            return (op[1], None)
        raise ValueError(op)

    def read_queries(self, has_e):
        out = [("key", v) for v in self.keyvals]
        out += [("k2", v) for v in self.k2vals]
        out += [("t", self.w[0]), ("t", self.w[1])]
        if has_e:
            out.append(("e", "E"))
        out += [("every", None), ("everyf", None), ("not", None), ("notkey", None),
                ("or", None), ("and", None), ("colq", None), ("colq_and", None)]
        return out


# ---------------------------------------------------------------------------
# the real index and how a state is copied

SIBLING = "MAIN_b"


class World(object):
    def __init__(self, C):
        self.C = C
        self.st = None
        self.ix = None
        self.cur = None
        self.dirs = []
        self.nrestore = 0

    def _file_storage(self, path):
        from whoosh.filedb.filestore import FileStorage
        return FileStorage(path, supports_mmap=(self.C.storage == "file"))

    def create(self):
        from whoosh.filedb.filestore import RamStorage
        self._drop()
        random.seed(self.C.seed)            # reproducible segment names
        if self.C.storage == "ram":
            self.st = RamStorage()
        else:
            self.cur = core.fresh_dir("c07i")
            self.dirs.append(self.cur)
            self.st = self._file_storage(self.cur)
        ix = self.st.create_index(self.C.schema())
        self.ix = ix if self.C.ixmode == "created" else None
        # a second, differently named index in the same storage (its name extends
        # the first one's): no transaction on the index under test may touch it
        from whoosh import fields as F
        sib = self.st.create_index(F.Schema(k=F.ID(stored=True)), indexname=SIBLING)
        w = sib.writer()
        w.add_document(k=u"sibling")
        w.commit()
        sib.close()
        self.sibling = self.sibling_files()
        if len(self.sibling) < 2:
            raise core.HarnessError("sibling index has files %r" % sorted(self.sibling))

    def sibling_files(self):
        img = self.image()
        return dict((n, b) for n, b in img.items() if n.startswith(SIBLING + "_") or n.startswith("_" + SIBLING + "_"))

    def sibling_problem(self, when):
        """None, or (kind, what) when the other index of the storage was touched"""
        now = self.sibling_files()
        if now == self.sibling:
            try:
                with self.st.open_index(indexname=SIBLING).searcher() as s:
                    keys = sorted(sf["k"] for sf in s.all_stored_fields())
                if keys != [u"sibling"]:
                    return ("unreadable", "the other index of the storage (%s) lists %r after %s" % (SIBLING, keys, when))
            except Exception as e:
                return ("exc:%s@%s" % (type(e).__name__, where(e)), "opening the other index of the storage (%s) after %s raised %r"
                        % (SIBLING, when, e))
            return None
        gone = sorted(set(self.sibling) - set(now))
        if gone:
            return ("files-deleted", "%s deleted files of the other index in the same storage (%s): %r" % (when, SIBLING, gone))
        return ("files-changed", "%s changed files of the other index in the same storage (%s): %r"
                % (when, SIBLING, sorted(n for n in now if now[n] != self.sibling.get(n))))

    def index(self):
        """The Index object the next caller uses: the one object kept since
        creation ('created': its schema object is shared with every writer)
        or a freshly opened one ('reopen')."""
        if self.C.ixmode == "created":
            return self.ix
        return self.st.open_index()

    def reopened(self):
        return self.st.open_index()

    def snapshot(self):
        if self.C.storage == "ram":
            return dict(self.st.files)
        d = core.fresh_dir("c07s")
        self.dirs.append(d)
        for n in os.listdir(self.cur):
            shutil.copyfile(os.path.join(self.cur, n), os.path.join(d, n))
        return d

    def restore(self, snap):
        from whoosh.filedb.filestore import RamStorage
        self._drop()
        # segment names of the next transaction: a stream of its own (nested
        # executions - shrinking, merged variants - re-seed the global one,
        # and a repeated name would collide with a segment of the snapshot)
        self.nrestore += 1
        random.seed(1000003 * self.nrestore + self.C.seed + 17)
        if self.C.storage == "ram":
            st = RamStorage()
            st.files = dict(snap)
            self.st = st
        else:
            self.cur = core.fresh_dir("c07i")
            self.dirs.append(self.cur)
            for n in os.listdir(snap):
                shutil.copyfile(os.path.join(snap, n), os.path.join(self.cur, n))
            self.st = self._file_storage(self.cur)
        if self.C.ixmode == "created":
            # same object state as the Index returned by create_index(): it
            # holds a schema object and hands that object to every writer
            sch = self.st.open_index().schema
            self.ix = self.st.open_index(schema=sch)
        else:
            self.ix = None

    def image(self):
        """name -> bytes of every index file (lock files excluded)."""
        if self.C.storage == "ram":
            return dict(self.st.files)
        out = {}
        for n in os.listdir(self.cur):
            if n.endswith("LOCK"):
                continue
            with open(os.path.join(self.cur, n), "rb") as f:
                out[n] = f.read()
        return out

    def _drop(self):
        if self.cur is not None:
            shutil.rmtree(self.cur, ignore_errors=True)
            try:
                self.dirs.remove(self.cur)
            except ValueError:
                pass
            self.cur = None
        self.st = None
        self.ix = None

    def discard(self, snap):
        if self.C.storage != "ram" and snap:
            shutil.rmtree(snap, ignore_errors=True)
            try:
                self.dirs.remove(snap)
            except ValueError:
                pass

    def close(self):
        self._drop()
        for d in list(self.dirs):
            shutil.rmtree(d, ignore_errors=True)
        self.dirs = []


class Snap(object):
    """Canonical dump of a real index."""
    __slots__ = ("key", "phys", "has_e", "stale", "gen")


def dump(ix, C):
    from whoosh.reading import EmptyReader
    r = ix.reader()
    try:
        names = tuple(sorted(r.schema.names()))
        has_e = "e" in names
        segs = []
        if not isinstance(r, EmptyReader):
            for sr, _ in r.leaf_readers():
                docs = tuple(C.doc_from_stored(sr.stored_fields(n), has_e) + (1 if sr.is_deleted(n) else 0,)
                             for n in range(sr.doc_count_all()))
                stale = int((not has_e) and ("e" in set(sr.indexed_field_names())
                                             or any("e" in sf for sf in sr.all_stored_fields())))
                segs.append((docs, stale))
    finally:
        r.close()
    s = Snap()
    s.key = (tuple(segs), names)
    s.phys = [d for seg in segs for d in seg[0]]
    s.has_e = has_e
    s.stale = any(seg[1] for seg in segs)
    s.gen = ix.latest_generation()
    return s


def key_info(key):
    segs, names = key
    phys = [d for seg in segs for d in seg[0]]
    return {"phys": phys, "has_e": "e" in names, "stale": any(seg[1] for seg in segs),
            "nsegs": len(segs), "ndel": sum(1 for d in phys if d[3]),
            "nlive": sum(1 for d in phys if not d[3])}


def where(e):
    tb = traceback.extract_tb(e.__traceback__)
    fr = [f for f in tb if "/whoosh/" in f.filename] or list(tb)
    return "%s:%s" % (fr[-1].filename.split("/")[-1], fr[-1].name)


# ---------------------------------------------------------------------------
# the model of one transaction (documented semantics)

class TxnModel(object):
    def __init__(self, C, pre, lenient=False):
        self.C = C
        self.docs = [list(d) for d in pre.phys]     # committed: [kid, ti, e, deleted]
        self._pre_phys = pre.phys
        self.orig_deleted = [bool(d[3]) for d in pre.phys]
        self.pending = []
        self.has_e = pre.has_e
        self.removed_e = False
        self.matched_deleted = 0
        self.lenient = lenient

    def _locate(self, op, undelete):
        """ddoc targets a document that was live when the writer opened
        (deleting it twice is harmless); undel one that is deleted now."""
        n = op[1]
        target = list(op[2:5])

        def fits(i):
            d = self.docs[i]
            if d[:3] != target:
                return False
            return bool(d[3]) if undelete else not self.orig_deleted[i]
        if 0 <= n < len(self.docs) and fits(n):
            return n, op
        if not self.lenient:
            raise InvalidHistory("doc number %r does not hold %r (undelete=%r)" % (n, target, undelete))
        for i in range(len(self.docs)):
            if fits(i):
                return i, [op[0], i] + target
        raise InvalidHistory("no document %r" % (target,))

    def apply(self, op):
        """Returns (expected return value or None, effective op)."""
        C = self.C
        k = op[0]
        if k == "add":
            self.pending.append((op[1], op[2], 1 if self.has_e else 0))
            return None, op
        if k == "upd":
            for d in self.docs:
                if not d[3] and C.shares_unique(d[0], op[1]):
                    d[3] = 1
            self.pending.append((op[1], op[2], 1 if self.has_e else 0))
            return None, op
        if k in ("dkey", "dk2", "dtxt", "dq"):
            if is_xs(op) and (self.pending or self.docs != [list(d) for d in self._pre_phys]):
                # only as the first operation of a writer: then the caller's
                # searcher and the writer's own see the same documents
                raise InvalidHistory("searcher= form after other operations")
            name, arg = C.del_spec(op)
            pred = C.pred(name, arg)
            n = 0
            self.matched_deleted = 0
            for d in self.docs:
                if pred(d):
                    if d[3]:
                        self.matched_deleted += 1
                    else:
                        d[3] = 1
                        n += 1
            return n, op
        if k == "ddoc":
            n, op = self._locate(op, False)
            self.docs[n][3] = 1
            return None, op
        if k == "undel":
            n, op = self._locate(op, True)
            self.docs[n][3] = 0
            return None, op
        if k == "addf":
            if self.has_e:
                raise InvalidHistory("field exists")
            self.has_e = True
            return None, op
        if k == "rmf":
            if not self.has_e:
                raise InvalidHistory("no field to remove")
            self.has_e = False
            self.removed_e = True
            return None, op
        raise ValueError(op)

    def committed(self):
        out = []
        for d in self.docs:
            if not d[3]:
                out.append((d[0], d[1], 0 if (self.removed_e or not self.has_e) else d[2]))
        # documents added after a remove_field in the same writer carry no e
        return sorted(out + self.pending)


def is_xs(op):
    """delete_by_* handed the documented searcher= argument (a searcher the
    caller opened on the committed state) instead of the writer's own"""
    return len(op) > 2 and op[-1] == "xs"


def real_apply(C, w, op, has_e, ext=None):
    k = op[0]
    if is_xs(op):
        if ext is None:
            raise InvalidHistory("no external searcher")
        name, arg = C.del_spec(op)
        if k == "dq":
            return w.delete_by_query(C.query(op[1]), searcher=ext)
        return w.delete_by_term(name, arg, searcher=ext)
    if k == "add":
        w.add_document(**C.fields(op[1], op[2], has_e))
    elif k == "upd":
        w.update_document(**C.fields(op[1], op[2], has_e))
    elif k in ("dkey", "dk2", "dtxt"):
        name, arg = C.del_spec(op)
        return w.delete_by_term(name, arg)
    elif k == "dq":
        return w.delete_by_query(C.query(op[1]))
    elif k == "ddoc":
        w.delete_document(op[1])
    elif k == "undel":
        w.delete_document(op[1], delete=False)
    elif k == "addf":
        w.add_field("e", C.extra_field())
    elif k == "rmf":
        w.remove_field("e")
    else:
        raise ValueError(op)
    return None


def first_only(C, before, kid):
    """Deleted flags if update_document removed, for every unique field, only
    the first live committed document carrying the value."""
    out = [bool(d[3]) for d in before]
    for fi in range(len(C.ufields)):
        v = C.kids[kid][fi]
        for n, d in enumerate(before):
            if not d[3] and C.kids[d[0]][fi] == v:
                out[n] = True
                break
    return out


class Result(object):
    __slots__ = ("problems", "post", "live", "txn", "notes")


def pre_live(pre):
    return sorted((d[0], d[1], d[2] if pre.has_e else 0) for d in pre.phys if not d[3])


def run_txn(W, txn, pre, checks=True, lenient=False):
    """Executes one transaction on the real index (and on the model).
    Problems are (api, kind, detail) triples; the first one is what counts."""
    C = W.C
    ix = W.index()
    ops = txn["ops"]
    end = txn["end"]
    m = TxnModel(C, pre, lenient)
    res = Result()
    res.problems = []
    res.notes = []
    res.post = None
    res.live = None
    eff = []
    holder = {}
    wkw = {} if C.compound else {"compound": False}

    def do_ops(w):
        holder["w"] = w
        for op in ops:
            before = [list(d) for d in m.docs]
            exp, op2 = m.apply(op)
            eff.append(op2)
            try:
                ext = None
                if is_xs(op2):
                    ext = holder.get("held")
                    if ext is None:
                        ext = holder["held"] = holder["own_ext"] = ix.searcher()
                got = real_apply(C, w, op2, m.has_e, ext)
            except Exception as e:
                res.problems.append(("op:" + op2[0], "exc:%s@%s" % (type(e).__name__, where(e)),
                                     "%r raised %r" % (op2, e)))
                raise OpFailed()
            if checks:
                # the writer's own view of the deletions (documented low-level
                # IndexWriter.is_deleted) after every op; the model's docs are
                # aligned with the global doc numbers of the state before
                real = [bool(w.is_deleted(n)) for n in range(len(m.docs))]
                for n, d in enumerate(m.docs):
                    if real[n] != bool(d[3]):
                        kind = "not-deleted" if d[3] else "wrongly-deleted"
                        if op2[0] == "upd" and real == first_only(C, before, op2[1]):
                            # exactly the first live document per unique field
                            # was deleted although several carry the value
                            kind = "only-first-duplicate-deleted"
                        res.problems.append(("writer.is_deleted", kind,
                                             "after %r doc %d %r: writer.is_deleted=%r, model deleted=%r"
                                             % (op2, n, tuple(d[:3]), real[n], bool(d[3]))))
                        raise OpFailed()
            if exp is not None:
                if exp >= 2:
                    res.notes.append("ret_ge2")
                if m.matched_deleted:
                    # an already deleted document matches too: it must not be counted
                    res.notes.append("ret_with_deleted_match")
                if got != exp:
                    res.problems.append(("ret:" + op2[0],
                                         "count-high" if (got or 0) > exp else "count-low",
                                         "%r returned %r but %d live committed documents match"
                                         % (op2, got, exp)))
                    raise OpFailed()

    # a searcher opened on the state before the transaction; refreshed after a
    # commit it must read exactly like a freshly opened one
    held = None
    if checks:
        try:
            held = ix.searcher()
            # use it before the transaction, so that whatever it caches
            # (sort arrays, idf, filters) is there when it is refreshed
            _view(held)
            holder["held"] = held
        except Exception:
            if held is not None:
                try:
                    held.close()
                except Exception:
                    pass
            held = None
    try:
        if end in ("raise", "raiseb", "with"):
            try:
                with ix.writer(**wkw) as w:
                    do_ops(w)
                    if end == "raise":
                        raise Boom()
                    if end == "raiseb":
                        raise BoomBase()
            except (Boom, BoomBase):
                pass
        elif end == "ixapi":
            if len(ops) != 1 or ops[0][0] not in ("dkey", "dk2", "dtxt", "dq"):
                raise InvalidHistory("ixapi needs exactly one delete_by_* op")
            exp, op2 = m.apply(ops[0])
            eff.append(op2)
            xkw = {}
            if is_xs(op2):
                if holder.get("held") is None:
                    holder["held"] = holder["own_ext"] = ix.searcher()
                xkw = {"searcher": holder["held"]}
            if op2[0] == "dq":
                ix.delete_by_query(C.query(op2[1]), **xkw)
            else:
                name, arg = C.del_spec(op2)
                ix.delete_by_term(name, arg, **xkw)
        elif end == "ixoptimize":
            if ops:
                raise InvalidHistory("ixoptimize takes no ops")
            ix.optimize()
        else:
            w = ix.writer(**wkw)
            do_ops(w)
            if end == "nomerge":
                w.commit(merge=False)
            elif end == "default":
                w.commit()
            elif end == "optimize":
                w.commit(optimize=True)
            elif end == "cancel":
                w.cancel()
            else:
                raise ValueError(end)
    except OpFailed:
        _release(holder.get("w"))
    except InvalidHistory:
        _release(holder.get("w"))
        raise
    except Exception as e:
        res.problems.append(("end:" + end, "exc:%s@%s" % (type(e).__name__, where(e)),
                             "%s after %r raised %r" % (end, eff, e)))
        _release(holder.get("w"))
    if holder.get("own_ext") is not None:
        try:
            holder["own_ext"].close()
        except Exception:
            pass
    res.txn = {"ops": eff if len(eff) == len(ops) else list(ops), "end": end}
    if res.problems:
        if held is not None:
            held.close()
        return res
    if held is not None:
        try:
            p = refreshed_vs_fresh(held, W.index())
        except Exception as e:
            p = ("refresh", "exc:%s@%s" % (type(e).__name__, where(e)), "refresh() after %s raised %r" % (end, e))
        if p:
            res.problems.append(p)
            return res

    commits = end in COMMIT_ENDS
    res.live = m.committed() if commits else pre_live(pre)
    # the write lock must be free again (probed without blocking: a second
    # blocking writer on RamStorage would hang, which is C04's subject)
    lk = W.index().lock("WRITELOCK")
    if lk.acquire(False):
        lk.release()
    else:
        res.problems.append(("lock", "still-held", "write lock still held after %s" % end))
        return res
    sp = W.sibling_problem(end)
    if sp:
        res.problems.append(("sibling-index", sp[0], sp[1]))
        return res
    try:
        res.post = dump(W.index(), C)
    except Exception as e:
        res.problems.append(("reopen", "exc:%s@%s" % (type(e).__name__, where(e)),
                             "reading the index after %s raised %r" % (end, e)))
        return res
    if not checks:
        return res
    if not commits:
        if res.post.key != pre.key:
            part = "schema" if res.post.key[1] != pre.key[1] else "documents"
            res.problems.append(("abort", "state-changed:" + part,
                                 "%s after %r changed the index: before %r, after %r"
                                 % (end, eff, pre.key, res.post.key)))
            return res
        try:
            d2 = dump(W.reopened(), C) if C.ixmode == "created" else res.post
        except Exception as e:
            res.problems.append(("reopen", "exc:%s@%s" % (type(e).__name__, where(e)),
                                 "re-opening the index after %s raised %r" % (end, e)))
            return res
        if d2.key != pre.key:
            res.problems.append(("abort", "stored-state-changed",
                                 "%s after %r changed the stored index: before %r, after %r"
                                 % (end, eff, pre.key, d2.key)))
            return res
        if res.post.gen != pre.gen:
            res.problems.append(("abort", "generation", "%s: generation %r -> %r" % (end, pre.gen, res.post.gen)))
            return res
        # a fresh writer can be opened (and cancelled) right away
        try:
            w2 = W.index().writer(**wkw)
            w2.cancel()
        except Exception as e:
            res.problems.append(("abort", "next-writer-exc:%s@%s" % (type(e).__name__, where(e)),
                                 "opening a writer after %s raised %r" % (end, e)))
            return res
    else:
        if end in ("optimize", "ixoptimize") and res.post.stale:
            res.problems.append(("optimize", "stale-field",
                                 "data of the removed field is still in the index after optimize"))
            return res
        if len(res.post.key[0]) < len(pre.key[0]) + (1 if any(o[0] in WRITE_KINDS for o in eff) else 0) \
                and end in ("default", "with", "ixapi"):
            res.notes.append("merge_small_engaged")
    return res


def _view(s):
    r = s.reader()
    dca = r.doc_count_all()
    dele = [bool(r.is_deleted(n)) for n in range(dca)]
    from whoosh import query as Q
    post = {}
    for t in r.lexicon("key"):
        post[t] = list(r.postings("key", t).all_ids())
    out = {"generation": r.generation(), "doc_count": r.doc_count(), "is_deleted": dele,
           "all_doc_ids": list(r.all_doc_ids()), "every": sorted(s.docs_for_query(Q.Every())),
           "stored": [(n, sorted(s.stored_fields(n).items(), key=repr)) for n in range(dca) if not dele[n]],
           "postings": post}
    # reads that go through per-searcher caches (sort arrays of a field without
    # a column, idf values, filter sets, collection statistics)
    words = sorted(r.lexicon("t"))
    out["stats"] = [(w, r.doc_frequency("t", w), r.frequency("t", w)) for w in words] + [r.field_length("t")]
    out["scores"] = [(w, [(h.docnum, round(h.score, 9)) for h in s.search(Q.Term("t", w), limit=None)]) for w in words]
    if r.doc_count():
        out["sorted:t"] = [h.docnum for h in s.search(Q.Every(), sortedby="t", limit=None)]
        out["sorted:t:rev"] = [h.docnum for h in s.search(Q.Every(), sortedby="t", reverse=True, limit=None)]
        out["sorted:key"] = [h.docnum for h in s.search(Q.Every(), sortedby="key", limit=None)]
        gr = s.search(Q.Every(), groupedby="g", limit=None).groups("g")
        out["groups:g"] = sorted((repr(k), sorted(v)) for k, v in gr.items())
        if words:
            out["filter"] = [h.docnum for h in s.search(Q.Every(), filter=Q.Term("t", words[0]), limit=None)]
    return out


def refreshed_vs_fresh(held, ix):
    """held: a searcher opened before the transaction.  After it, refresh()
    must give a searcher that reads exactly like a freshly opened one."""
    s2 = held.refresh()
    try:
        with ix.searcher() as s1:
            a, b = _view(s2), _view(s1)
    finally:
        # (refresh() documents that the original searcher cannot be used any
        # more: its readers may live on inside the new one)
        s2.close()
    for k in ("generation", "doc_count", "is_deleted", "all_doc_ids", "every", "stored", "postings",
              "stats", "scores", "sorted:t", "sorted:t:rev", "sorted:key", "groups:g", "filter"):
        if a.get(k) != b.get(k):
            kind = k
            if k in ("is_deleted", "all_doc_ids", "every"):
                kind = k + ":deleted-doc-visible" if any(x and not y for x, y in zip(b["is_deleted"], a["is_deleted"])) else k
            return ("refresh", kind, "searcher.refresh() after the commit: %s = %r, a fresh searcher has %r" % (k, a.get(k), b.get(k)))
    return None


def _release(w):
    if w is not None:
        try:
            if not w.is_closed:
                w.cancel()
        except Exception:
            pass


# ---------------------------------------------------------------------------
# the invariant: model == real index through every read API

def _cmp_ids(got, exp, deleted):
    """None or discrepancy kind for a list of doc numbers vs the expected set."""
    gs = set(got)
    if len(gs) != len(got):
        return "duplicate"
    if gs == exp:
        return None
    if gs & deleted:
        return "deleted-doc-visible"
    if gs - exp and exp - gs:
        return "wrong-docs"
    return "extra" if gs - exp else "missing"


def check_reads(ix, C, live, discipline=False):
    """First disagreement between the real index and the model (multiset of
    live documents) as (api, kind, detail), or None."""
    from whoosh import query as Q
    from whoosh.reading import TermNotFound
    want = Counter(live)
    nlive = len(live)
    try:
        n1 = ix.doc_count()
        n2 = ix.doc_count_all()
    except Exception as e:
        return ("Index.doc_count", "exc:%s@%s" % (type(e).__name__, where(e)), repr(e))
    api = "searcher"
    try:
        with ix.searcher() as s:
            r = s.reader()
            has_e = "e" in r.schema.names()
            dca = r.doc_count_all()
            api = "is_deleted"
            deleted = set(n for n in range(dca) if r.is_deleted(n))
            livenums = [n for n in range(dca) if n not in deleted]
            api = "doc_count"
            for name, v in (("reader.doc_count", r.doc_count()), ("searcher.doc_count", s.doc_count()),
                            ("Index.doc_count", n1)):
                if v != nlive:
                    return ("doc_count", "high" if v > nlive else "low",
                            "%s() = %r, model has %d live documents %r" % (name, v, nlive, live))
            if n2 != dca or s.doc_count_all() != dca:
                return ("doc_count_all", "inconsistent", "Index %r searcher %r reader %r"
                        % (n2, s.doc_count_all(), dca))
            if dca - len(deleted) != nlive:
                return ("doc_count_all-deleted", "high" if dca - len(deleted) > nlive else "low",
                        "doc_count_all()=%d with %d deleted, model has %d live" % (dca, len(deleted), nlive))
            if r.has_deletions() != bool(deleted):
                return ("has_deletions", "wrong", "has_deletions()=%r, deleted=%r"
                        % (r.has_deletions(), sorted(deleted)))
            api = "stored_fields"
            docs = dict((n, C.doc_from_stored(s.stored_fields(n), has_e)) for n in livenums)
            got = Counter(docs.values())
            if got != want:
                return ("stored_fields", _mkind(got, want),
                        "live documents by is_deleted/stored_fields %r, model %r"
                        % (sorted(got.elements(), key=repr), live))
            api = "all_doc_ids"
            ids = list(r.all_doc_ids())
            k = _cmp_ids(ids, set(livenums), deleted)
            if k:
                return ("all_doc_ids", k, "all_doc_ids()=%r, live doc numbers %r" % (ids, livenums))
            api = "iter_docs"
            it = [(n, C.doc_from_stored(sf, has_e)) for n, sf in r.iter_docs()]
            if sorted(it) != sorted(docs.items()):
                return ("iter_docs", _cmp_ids([n for n, _ in it], set(livenums), deleted) or "wrong-fields",
                        "iter_docs()=%r, expected %r" % (it, sorted(docs.items())))
            api = "all_stored_fields"
            asf = Counter(C.doc_from_stored(sf, has_e) for sf in r.all_stored_fields())
            if asf != want:
                return ("all_stored_fields", _mkind(asf, want), "all_stored_fields()=%r, model %r"
                        % (sorted(asf.elements(), key=repr), live))
            if discipline:
                for fi, f in enumerate(C.ufields):
                    c = Counter(C.kids[d[0]][fi] for d in docs.values())
                    dup = [v for v, n in c.items() if n > 1]
                    if dup:
                        return ("one-live-doc-per-key", "duplicate-key",
                                "values %r of unique field %s carried by several live documents" % (dup, f))
            # -- queries through every search path -----------------------
            for name, arg in C.read_queries(has_e):
                q = C.query(name, arg)
                pred = C.pred(name, arg)
                exp = set(n for n in livenums if pred(docs[n]))
                label = name if arg is None else "%s:%s" % (name, arg)
                api = "search"
                res = s.search(q, limit=None)
                got = [h.docnum for h in res]
                k = _cmp_ids(got, exp, deleted)
                if k is None and len(res) != len(exp):
                    k = "len"
                if k:
                    return ("search", k, "search(%s, limit=None) -> docs %r (len %r), expected %r"
                            % (label, got, len(res), sorted(exp)))
                for h in res:
                    if C.doc_from_stored(h.fields(), has_e) != docs[h.docnum]:
                        return ("search", "wrong-fields", "hit %d of %s has fields %r"
                                % (h.docnum, label, h.fields()))
                api = "search-unscored"
                res = s.search(q, limit=None, scored=False)
                got = [h.docnum for h in res]
                k = _cmp_ids(got, exp, deleted)
                if k is None and len(res) != len(exp):
                    k = "len"
                if k:
                    return ("search-unscored", k, "search(%s, limit=None, scored=False) -> %r (len %r), "
                            "expected %r" % (label, got, len(res), sorted(exp)))
                api = "docs_for_query"
                got = list(s.docs_for_query(q))
                k = _cmp_ids(got, exp, deleted)
                if k:
                    return ("docs_for_query", k, "docs_for_query(%s) -> %r, expected %r"
                            % (label, got, sorted(exp)))
                if name in ("key", "k2", "t", "e"):
                    api = "postings"
                    if (name, arg) in r:
                        got = list(r.postings(name, arg).all_ids())
                    else:
                        got = []
                    k = _cmp_ids(got, exp, deleted)
                    if k:
                        return ("postings", k, "postings(%s) ids %r, expected %r" % (label, got, sorted(exp)))
                    # positioning the posting list on any document number
                    # (the documented skip_to()) must land on the next LIVE
                    # posting, also when the target itself is a deleted document
                    if (name, arg) in r:
                        api = "postings.skip_to"
                        for target in range(dca):
                            m = r.postings(name, arg)
                            if not m.is_active():
                                break
                            if target > m.id():
                                m.skip_to(target)
                            want_id = min([n for n in exp if n >= target] or [None], key=lambda x: (x is None, x))
                            got_id = m.id() if m.is_active() else None
                            if got_id != want_id:
                                return ("postings.skip_to", "deleted-doc-visible" if got_id in deleted else "wrong",
                                        "postings(%s).skip_to(%d) stands on %r, next live posting is %r (deleted %r)"
                                        % (label, target, got_id, want_id, sorted(deleted)))
                    api = "documents"
                    gotd = Counter(C.doc_from_stored(sf, has_e) for sf in s.documents(**{name: arg}))
                    expd = Counter(docs[n] for n in exp)
                    if gotd != expd:
                        return ("documents", _mkind(gotd, expd), "documents(%s) -> %r, expected %r"
                                % (label, sorted(gotd.elements(), key=repr), sorted(expd.elements())))
                    api = "document_number"
                    dn = s.document_number(**{name: arg})
                    if (dn is None) != (not exp) or (dn is not None and dn not in exp):
                        return ("document_number", "deleted-doc-visible" if dn in deleted else "wrong",
                                "document_number(%s) -> %r, live matches %r" % (label, dn, sorted(exp)))
            # -- sorted search --------------------------------------------
            for rev in (False, True):
                api = "sortedby"
                res = s.search(Q.Every(), limit=None, sortedby="key", reverse=rev)
                got = [h.docnum for h in res]
                k = _cmp_ids(got, set(livenums), deleted)
                if k is None:
                    ks = [C.kids[docs[n][0]][0] for n in got]
                    if ks != sorted(ks, reverse=rev):
                        k = "order"
                if k:
                    return ("sortedby", k, "search(Every(), sortedby='key', reverse=%r) -> docs %r, live %r, "
                            "keys %r" % (rev, got, livenums, [docs.get(n) for n in got]))
            api = "sortedby"
            res = s.search(Q.Term("t", C.w[0]), limit=None, sortedby="g")
            exp = set(n for n in livenums if C.w[0] in C.toks[docs[n][1]])
            got = [h.docnum for h in res]
            k = _cmp_ids(got, exp, deleted)
            if k is None and [docs[n][1] for n in got] != sorted(docs[n][1] for n in got):
                k = "order"
            if k:
                return ("sortedby", k, "search(t:%s, sortedby='g') -> %r expected %r" % (C.w[0], got, sorted(exp)))
            # -- facets ------------------------------------------------------
            api = "groupedby"
            for fld, keyf in (("g", lambda d: "g%d" % d[1]), ("key", lambda d: C.kids[d[0]][0])):
                res = s.search(Q.Every(), limit=None, groupedby=fld)
                groups = res.groups(fld)
                expg = {}
                for n in livenums:
                    expg.setdefault(keyf(docs[n]), []).append(n)
                gotg = dict((kk, sorted(v)) for kk, v in groups.items())
                if gotg != expg:
                    allg = [n for v in groups.values() for n in v]
                    return ("groupedby", _cmp_ids(allg, set(livenums), deleted) or "wrong-groups",
                            "groups(%r) = %r, expected %r" % (fld, gotg, expg))
            # -- vectors of live documents ---------------------------------
            api = "vector"
            for n in livenums:
                if not r.has_vector(n, "t"):
                    return ("vector", "missing", "has_vector(%d, 't') is False" % n)
                v = dict(s.vector_as("frequency", n, "t"))
                if v != dict(Counter(C.toks[docs[n][1]])):
                    return ("vector", "wrong", "vector of doc %d = %r, text %r" % (n, v, C.texts[docs[n][1]]))
    except Exception as e:
        return (api, "exc:%s@%s" % (type(e).__name__, where(e)), "%s raised %r" % (api, e))
    return None


def _mkind(got, want):
    if got - want and want - got:
        return "wrong-docs"
    return "extra" if got - want else "missing"


# ---------------------------------------------------------------------------
# alphabets

E5 = ["nomerge", "default", "optimize", "cancel", "raise"]
E6 = E5 + ["with", "raiseb"]
E3 = ["nomerge", "optimize", "cancel"]


def ops_alpha(C, key, alpha):
    info = key_info(key)
    phys = info["phys"]
    livedocs = [(n, d) for n, d in enumerate(phys) if not d[3]]

    def ddoc(n):
        d = phys[n]
        return ["ddoc", n, d[0], d[1], d[2]]
    ops = []
    if alpha == "full":
        if C.name == "two":
            for k in range(4):
                for ti in (0, 2):
                    ops.append(["upd", k, ti])
            ops.append(["add", 0, 1])
        else:
            for k in range(3):
                for ti in range(3):
                    ops.append(["add", k, ti])
            for k in range(3):
                for ti in range(3):
                    ops.append(["upd", k, ti])
        for i in range(len(C.keyvals)):
            ops.append(["dkey", i])
        for i in range(len(C.k2vals)):
            ops.append(["dk2", i])
        ops += [["dtxt", 0], ["dtxt", 1]]
        ops += [["dq", n] for n in ("or", "not", "every", "and", "everyf")]
        ops += [["dkey", 0, "xs"], ["dtxt", 1, "xs"], ["dq", "not", "xs"]]
        ops += [ddoc(n) for n, _ in livedocs]
    elif alpha == "core":
        if C.name == "two":
            ops += [["upd", 0, 0], ["upd", 1, 2], ["upd", 2, 0], ["upd", 3, 2], ["upd", 2, 2]]
            ops += [["dkey", 0], ["dk2", 1]]
        else:
            ops += [["add", 0, 0], ["add", 1, 1], ["add", 2, 2], ["add", 0, 2],
                    ["upd", 0, 1], ["upd", 1, 2], ["upd", 2, 0]]
            ops += [["dkey", 0], ["dkey", 1]]
        ops += [["dtxt", 0], ["dtxt", 1], ["dq", "or"], ["dq", "not"], ["dq", "every"], ["dtxt", 0, "xs"]]
        if livedocs:
            ops.append(ddoc(livedocs[0][0]))
            if len(livedocs) > 1:
                ops.append(ddoc(livedocs[-1][0]))
    elif alpha == "lite":
        if C.name == "two":
            ops += [["upd", 0, 0], ["upd", 2, 2], ["upd", 1, 0]]
        else:
            ops += [["add", 0, 0], ["add", 1, 2], ["upd", 0, 1], ["upd", 1, 0]]
        ops += [["dkey", 0], ["dtxt", 1], ["dq", "not"]]
        if livedocs:
            ops.append(ddoc(livedocs[-1][0]))
    elif alpha == "slite":
        if C.name == "two":
            ops += [["upd", 0, 0], ["upd", 2, 2], ["dtxt", 1]]
        else:
            ops += [["add", 0, 0], ["upd", 0, 1], ["dtxt", 1]]
    elif alpha == "tri":
        ops += [["add", 0, 0], ["upd", 0, 1], ["upd", 1, 2], ["dkey", 0], ["dtxt", 1]]
        if livedocs:
            ops.append(ddoc(livedocs[-1][0]))
    else:
        raise ValueError(alpha)
    return ops


def disciplined(C, seq):
    """update_document at most once per unique value per writer."""
    ups = [o[1] for o in seq if o[0] == "upd"]
    for i in range(len(ups)):
        for j in range(i + 1, len(ups)):
            if C.shares_unique(ups[i], ups[j]):
                return False
    return True


def txns_for(C, key, blocks):
    """Every transaction of the level's blocks from the state ``key``,
    simplest first, without repetition."""
    out = []
    seen = set()

    def emit(ops, end):
        sig = (repr(ops), end)
        if sig not in seen:
            seen.add(sig)
            out.append({"ops": ops, "end": end})
    info = key_info(key)
    for b in blocks:
        alpha = b["alpha"]
        if alpha == "schema":
            ends = b["ends"]
            pre = []
            if info["has_e"]:
                pre = [[["rmf"]], [["rmf"], ["add", 2, 1]], [["rmf"], ["dtxt", 1]]]
            elif not info["stale"]:
                pre = [[["addf"]], [["addf"], ["add", 0, 0]], [["addf"], ["add", 1, 2]],
                       [["addf"], ["dkey", 0]]]
            for ops in pre:
                for end in ends:
                    emit(ops, end)
            continue
        if alpha == "undel":
            phys = info["phys"]
            for n, d in enumerate(phys):
                tgt = [n, d[0], d[1], d[2]]
                for end in b["ends"]:
                    if d[3]:
                        emit([["undel"] + tgt], end)
                    else:
                        emit([["ddoc"] + tgt, ["undel"] + tgt], end)
            # swap: one document comes back and another one goes in the same
            # transaction (the number of deletions stays the same)
            for n1, d1 in enumerate(phys):
                for n2, d2 in enumerate(phys):
                    if d1[3] and not d2[3]:
                        for end in b["ends"]:
                            emit([["undel", n1, d1[0], d1[1], d1[2]], ["ddoc", n2, d2[0], d2[1], d2[2]]], end)
            continue
        ops = ops_alpha(C, key, alpha)
        for n in b["n"]:
            for seq in itertools.product(ops, repeat=n):
                seq = [list(o) for o in seq]
                if not disciplined(C, seq) or any(is_xs(o) for o in seq[1:]):
                    continue
                for end in b["ends"]:
                    emit(seq, end)
            if n == 0 and b.get("ix"):
                emit([], "ixoptimize")
            if n == 1 and b.get("ix"):
                for o in ops:
                    if o[0] in ("dkey", "dk2", "dtxt", "dq"):
                        emit([list(o)], "ixapi")
    return out


# ---------------------------------------------------------------------------
# whole-history execution (replay, shrinking, root states)

def upd_only(hist):
    return all(o[0] != "add" for t in hist for o in t["ops"])


READ_FREE_APIS = ("writer.is_deleted", "abort", "lock", "reopen", "optimize")


def check_history(cd, hist, lenient=False, reads="all"):
    """Runs a history from the empty index with every check after every
    transaction (reads: 'all' = read-API invariant after every transaction,
    'last' = only after the last one, 'none').  Returns (problems, effective
    history, final Snap, live)."""
    C = Conf(cd)
    W = World(C)
    try:
        W.create()
        pre = dump(W.index(), C)
        live = []
        eff = []
        for step, txn in enumerate(hist):
            res = run_txn(W, txn, pre, checks=True, lenient=lenient)
            eff.append(res.txn)
            if res.problems:
                return [(step,) + res.problems[0]], eff, None, None
            if reads == "all" or (reads == "last" and step == len(hist) - 1):
                p = check_reads(W.index(), C, res.live, discipline=upd_only(eff))
                if p:
                    return [(step,) + p], eff, None, None
            pre = res.post
            live = res.live
        return [], eff, pre, live
    finally:
        W.close()


def sig_of(txn, api, kind, suffix=""):
    kinds = sorted(set(o[0] + ("(searcher=)" if is_xs(o) else "") for o in txn["ops"])) or ["noop"]
    if api.startswith("ret:"):
        api = "delete_by-return-value"
    return "%s|%s|%s|%s%s" % ("+".join(kinds), txn["end"], api, kind, suffix)


def shrink(cd, hist, api, kind, budget=120):
    """Greedy delta debugging on the real code: drop earlier transactions,
    drop ops, simplify endings and texts while the same (api, kind) failure
    persists.  Returns (history, problem)."""
    used = [0]

    def fails(h):
        if used[0] >= budget:
            return None
        used[0] += 1
        transition_level = (api in READ_FREE_APIS or api.startswith("op:") or api.startswith("ret:")
                            or api.startswith("end:"))
        try:
            probs, eff, _, _ = check_history(cd, h, lenient=True,
                                             reads="none" if transition_level else "last")
        except InvalidHistory:
            return None
        if probs and probs[0][1] == api and probs[0][2] == kind:
            return eff[:probs[0][0] + 1], probs[0]
        return None
    cur = fails(hist)
    if cur is None:
        return hist, None
    h, prob = cur
    changed = True
    while changed and used[0] < budget:
        changed = False
        for i in range(len(h) - 1):
            r = fails(h[:i] + h[i + 1:])
            if r:
                h, prob = r
                changed = True
                break
        if changed:
            continue
        for i in range(len(h)):
            for j in range(len(h[i]["ops"])):
                if h[i]["end"] == "ixapi":
                    continue
                t2 = {"ops": h[i]["ops"][:j] + h[i]["ops"][j + 1:], "end": h[i]["end"]}
                r = fails(h[:i] + [t2] + h[i + 1:])
                if r:
                    h, prob = r
                    changed = True
                    break
            if changed:
                break
        if changed:
            continue
        for i in range(len(h)):
            if h[i]["end"] in ("default", "optimize", "with"):
                t2 = {"ops": h[i]["ops"], "end": "nomerge"}
                r = fails(h[:i] + [t2] + h[i + 1:])
                if r:
                    h, prob = r
                    changed = True
                    break
            if h[i]["end"] in ABORT_ENDS and i == len(h) - 1 and api != "abort":
                t2 = {"ops": h[i]["ops"], "end": "nomerge"}
                r = fails(h[:i] + [t2] + h[i + 1:])
                if r:
                    h, prob = r
                    changed = True
                    break
            if h[i]["end"] in ("raise", "raiseb"):
                t2 = {"ops": h[i]["ops"], "end": "cancel"}
                r = fails(h[:i] + [t2] + h[i + 1:])
                if r:
                    h, prob = r
                    changed = True
                    break
        if changed:
            continue
        # canonical witness: rename a key / a text everywhere (doc-number ops
        # carry the document they target, renamed along)
        def renamed(h0, what, a, b):
            out = []
            for t in h0:
                ops2 = []
                for o in t["ops"]:
                    o = list(o)
                    if what == "kid":
                        if o[0] in WRITE_KINDS and o[1] == a:
                            o[1] = b
                        elif o[0] in ("ddoc", "undel") and o[2] == a:
                            o[2] = b
                        elif o[0] == "dkey" and o[1] == a:
                            o[1] = b
                    else:
                        if o[0] in WRITE_KINDS and o[2] == a:
                            o[2] = b
                        elif o[0] in ("ddoc", "undel") and o[3] == a:
                            o[3] = b
                    ops2.append(o)
                out.append({"ops": ops2, "end": t["end"]})
            return out
        subs = []
        if cd["name"] != "two":
            kids = sorted(set(o[1] for t in h for o in t["ops"] if o[0] in WRITE_KINDS), reverse=True)
            subs += [("kid", a, b) for a in kids for b in range(a)]
        tis = sorted(set(o[2] for t in h for o in t["ops"] if o[0] in WRITE_KINDS), reverse=True)
        subs += [("ti", a, 0) for a in tis if a != 0]
        for what, a, b in subs:
            h2 = renamed(h, what, a, b)
            if h2 != h:
                r = fails(h2)
                if r:
                    h, prob = r
                    changed = True
                    break
        if changed:
            continue
        # smaller values: text 0, lower key numbers
        for i in range(len(h)):
            for j, o in enumerate(h[i]["ops"]):
                cands = []
                if o[0] in WRITE_KINDS:
                    if o[2] != 0:
                        cands.append([o[0], o[1], 0])
                    cands += [[o[0], k, o[2]] for k in range(o[1])]
                elif o[0] in ("dkey", "dk2", "dtxt"):
                    cands += [[o[0], k] for k in range(o[1])]
                for o2 in cands:
                    t2 = {"ops": h[i]["ops"][:j] + [o2] + h[i]["ops"][j + 1:], "end": h[i]["end"]}
                    r = fails(h[:i] + [t2] + h[i + 1:])
                    if r:
                        h, prob = r
                        changed = True
                        break
                if changed:
                    break
            if changed:
                break
    return h, prob


GENERIC = {"name": "id", "seed": 0, "storage": "ram", "ixmode": "created", "compound": True}


def report(acc, cd, hist, problem, memo):
    api, kind, detail = problem
    presig = "%s/%s/%s/%s:" % (cd["name"], cd.get("storage"), cd.get("ixmode"), cd.get("compound")) \
        + sig_of(hist[-1], api, kind)
    acc.count("violating_cases")
    if presig in memo:
        sig, case, what = memo[presig]
        acc.violation(sig, case, what)
        return
    h, prob = shrink(cd, hist, api, kind)
    suffix = ""
    if prob is None:
        # not reproducible from scratch: a harness problem, never a finding
        raise core.HarnessError("violation %r on %r does not reproduce on replay: %s"
                                % (presig, hist, detail))
    # does the same history fail the same way in the plain configuration?
    plain = dict(GENERIC, seed=cd.get("seed", 0))
    if any(cd.get(k2) != plain[k2] for k2 in plain):
        ok_generic = False
        if cd["name"] != "two" or all(o[0] not in ("dk2",) and (o[0] not in WRITE_KINDS or o[1] < 3)
                                      for t in h for o in t["ops"]):
            try:
                probs, _, _, _ = check_history(plain, h, lenient=True)
                ok_generic = bool(probs) and probs[0][1] == api and probs[0][2] == kind
            except Exception:
                ok_generic = False
        if ok_generic:
            cd = plain
        else:
            diff = [str(cd[k2]) for k2 in ("name", "storage", "ixmode", "compound") if cd.get(k2) != plain[k2]]
            suffix = "@" + ",".join(diff)
    sig = sig_of(h[-1], api, kind, suffix)
    case = {"cfg": cd, "history": h, "api": api, "kind": kind}
    what = "history %s: %s" % (fmt_hist(h), prob[3])
    memo[presig] = (sig, case, what)
    acc.violation(sig, case, what)


def fmt_hist(h):
    return " ; ".join("[%s -> %s]" % (", ".join("%s(%s)" % (o[0], ",".join(str(x) for x in o[1:]))
                                                for o in t["ops"]), t["end"]) for t in h)


# ---------------------------------------------------------------------------
# pool tasks

def replay_quiet(W, hist):
    C = W.C
    W.create()
    pre = dump(W.index(), C)
    n = 0
    for txn in hist:
        res = run_txn(W, txn, pre, checks=False)
        n += 1
        if res.problems or res.post is None:
            raise core.HarnessError("history %r no longer replays: %r" % (hist, res.problems))
        pre = res.post
    return pre, n


def merged_variant(C, hist):
    """The same operations in fewer transactions: the last two committing
    transactions merged into one writer (transactions that aborted are
    dropped).  Only for histories without doc-number / schema ops; whether
    the logical content must be the same is decided by the model."""
    if any(o[0] in ("ddoc", "undel", "addf", "rmf") for t in hist for o in t["ops"]):
        return None
    idx = [i for i, t in enumerate(hist) if t["end"] in COMMIT_ENDS]
    if len(idx) < 2:
        return None
    i, j = idx[-2], idx[-1]
    a, b = hist[i], hist[j]
    if a["end"] in ("ixapi", "ixoptimize") or b["end"] in ("ixapi", "ixoptimize"):
        return None
    ops = a["ops"] + b["ops"]
    if not ops or len(ops) > 6 or not disciplined(C, ops):
        return None
    return [t for t in hist[:i] if t["end"] in COMMIT_ENDS] + [{"ops": ops, "end": b["end"]}]


def check_merged(cd, C, mv, live, acc):
    """Runs the merged-history variant on a fresh index; its logical content
    must be the model's (= the split history's)."""
    W2 = World(C)
    try:
        pre, n = replay_quiet(W2, mv[:-1])
        res = run_txn(W2, mv[-1], pre, checks=True)
        acc.count("traces_validated_against_impl", n + 1)
        if res.problems:
            return res.problems[0]
        if res.live != live:
            raise core.HarnessError("model of merged history differs")
        p = check_reads(W2.index(), C, live, discipline=upd_only(mv))
        return p
    finally:
        W2.close()


def model_fold(C, hist):
    """Pure model of a history without doc-number ops (for merged variants)."""
    live = []
    has_e = False
    for t in hist:
        pre = Snap()
        pre.phys = [(d[0], d[1], d[2], 0) for d in live]
        pre.has_e = has_e
        m = TxnModel(C, pre)
        for o in t["ops"]:
            m.apply(o)
        if t["end"] in COMMIT_ENDS:
            live = m.committed()
            has_e = m.has_e
    return live


def task(t):
    kind, cd, items, opts = t
    acc = core.Acc()
    C = Conf(cd)
    W = World(C)
    memo = dict(opts.get("memo") or {})
    out = []
    try:
        if kind == "root":
            for si, hist in items:
                probs, eff, snap, live = check_history(cd, hist)
                acc.count("traces_validated_against_impl", len(eff))
                if probs:
                    report(acc, cd, eff, probs[0][1:], memo)
                    out.append((si, None))
                else:
                    out.append((si, snap.key))
        elif kind == "A":
            for si, hist, key, txns in items:
                pre, n = replay_quiet(W, hist)
                acc.count("traces_validated_against_impl", n)
                if pre.key != key:
                    raise core.HarnessError("replay of %r gave %r, expected %r" % (hist, pre.key, key))
                snap = W.snapshot()
                img = W.image() if opts.get("image") else None
                for ti, txn in txns:
                    W.restore(snap)
                    res = run_txn(W, txn, pre, checks=True)
                    acc.count("transitions")
                    acc.count("evaluations")
                    acc.count("traces_validated_against_impl")
                    for o in txn["ops"]:
                        acc.count("ops_" + o[0])
                    acc.count("end_" + txn["end"])
                    for nt in res.notes:
                        acc.count(nt)
                    if res.problems:
                        report(acc, cd, hist + [res.txn], res.problems[0], memo)
                        out.append((si, ti, None))
                        continue
                    if txn["end"] in ABORT_ENDS:
                        acc.count("aborts_checked_unchanged")
                        if any(o[0] in ("dkey", "dk2", "dtxt", "dq", "ddoc", "upd") for o in txn["ops"]) \
                                and key_info(key)["nlive"]:
                            acc.count("aborts_with_pending_deletions")
                        if img is not None and W.image() != img:
                            acc.count("aborts_leaving_orphan_files")
                    out.append((si, ti, res.post.key))
                W.discard(snap)
        elif kind == "B":
            for si, hist, key, txns in items:
                pre, n = replay_quiet(W, hist)
                acc.count("traces_validated_against_impl", n)
                if pre.key != key:
                    raise core.HarnessError("replay of %r gave %r, expected %r" % (hist, pre.key, key))
                snap = W.snapshot()
                for ti, txn, newkey in txns:
                    W.restore(snap)
                    res = run_txn(W, txn, pre, checks=False)
                    acc.count("traces_validated_against_impl")
                    if res.problems or res.post is None or res.post.key != newkey:
                        raise core.HarnessError("transition %r from %r not reproducible: %r"
                                                % (txn, hist, res.problems))
                    h2 = hist + [res.txn]
                    acc.count("states_checked")
                    p = check_reads(W.index(), C, res.live, discipline=upd_only(h2))
                    if p is None and opts.get("recheck"):
                        # the same content through a freshly opened Index object
                        p = check_reads(W.reopened(), C, res.live, discipline=upd_only(h2))
                    if p is None and upd_only(h2) and any(o[0] == "upd" for t2 in h2 for o in t2["ops"]):
                        acc.count("states_under_update_discipline")
                    if p is None and opts.get("merged"):
                        mv = merged_variant(C, h2)
                        if mv is not None and model_fold(C, mv) == res.live:
                            acc.count("merged_history_variants")
                            pm = check_merged(cd, C, mv, res.live, acc)
                            if pm:
                                report(acc, cd, mv, pm, memo)
                    info = key_info(newkey)
                    nontrivial = info["ndel"] > 0 or info["nsegs"] > 1
                    if p:
                        report(acc, cd, h2, p, memo)
                        out.append((si, ti, False, nontrivial))
                    else:
                        out.append((si, ti, True, nontrivial))
                        if info["nsegs"] >= 2 and info["ndel"] >= 1 and (si + ti) % 37 == 0:
                            acc.sample({"cfg": cd["name"] + "/" + cd.get("storage", "ram"),
                                        "history": fmt_hist(h2),
                                        "state": [["%s:%s%s" % (C.kids[d[0]][0] if d[0] != "?" else "?",
                                                                C.texts[d[1]] if d[0] != "?" else "?",
                                                                "(deleted)" if d[3] else "")
                                                   for d in seg[0]] for seg in newkey[0]]})
                W.discard(snap)
        else:
            raise ValueError(kind)
    finally:
        W.close()
    r = acc.result()
    r["out"] = out
    known = opts.get("memo") or {}
    r["memo"] = dict((k, v) for k, v in memo.items() if k not in known)
    return r


# ---------------------------------------------------------------------------
# the search

def T(ops, end):
    return {"ops": ops, "end": end}


def root5():
    """A non-initial start state: 5 segments, two of them with a deleted
    document, reached through updates (so MERGE_SMALL fires on the next
    default commit)."""
    return [T([["add", 0, 0]], "nomerge"), T([["add", 1, 1]], "nomerge"), T([["add", 2, 2]], "nomerge"),
            T([["upd", 1, 0]], "nomerge"), T([["upd", 2, 0]], "nomerge")]


def root_del():
    """One segment of three documents, one of them deleted by an earlier
    commit (deleting and undeleting inside ONE segment needs this)."""
    return [T([["add", 0, 0], ["add", 1, 1], ["add", 2, 2]], "nomerge"), T([["dkey", 1]], "nomerge")]


def root5_two():
    return [T([["upd", 0, 0]], "nomerge"), T([["upd", 1, 2]], "nomerge"), T([["upd", 3, 0]], "nomerge"),
            T([["upd", 2, 2]], "nomerge"), T([["upd", 1, 0]], "nomerge")]


E2 = ["nomerge", "optimize"]
E4S = ["nomerge", "optimize", "cancel", "raise", "raiseb"]


def plans(tier, seed):
    """The declared space.  A plan = configuration + start state (root
    history) + one list of blocks per BFS level; a block = alphabet x number
    of ops per transaction x endings.  Everything inside is enumerated."""
    def cfg(name, storage="ram", ixmode="created", compound=True):
        return {"name": name, "seed": seed, "storage": storage, "ixmode": ixmode, "compound": compound}

    def B(alpha, n=None, ends=None, ix=False):
        b = {"alpha": alpha, "ends": ends}
        if n is not None:
            b["n"] = n
        if ix:
            b["ix"] = True
        return b
    MRG = ["default", "optimize", "cancel"]
    UND = B("undel", ends=["nomerge", "cancel"])
    file_cfg = cfg("id", storage="file", ixmode="reopen")
    loose_cfg = cfg("id", storage="file_nommap", ixmode="created", compound=False)
    P = []
    if tier == "quick":
        # wide and shallow: the full alphabet, 0-2 ops per transaction, depth 2
        P.append({"id": "id/ram/wide", "cfg": cfg("id"), "root": [], "merged": True, "levels": [
            [B("full", [0, 1, 2], E6, ix=True)],
            [B("full", [0, 1], E5, ix=True), B("lite", [2], E3), UND]]})
        # narrow and deep
        P.append({"id": "id/ram/deep", "cfg": cfg("id"), "root": [], "merged": True, "levels": [
            [B("core", [0, 1, 2], E5)],
            [B("core", [0, 1], E5)],
            [B("lite", [0, 1], E3)]]})
        # from a non-initial state with 5 segments (default commits merge)
        P.append({"id": "id/ram/5seg", "cfg": cfg("id", ixmode="reopen"), "root": root5(), "levels": [
            [B("full", [0, 1], E6, ix=True), B("lite", [2], MRG)],
            [B("lite", [0, 1], E5)]]})
        P.append({"id": "id/ram/undel", "cfg": cfg("id"), "root": root_del(), "levels": [
            [UND, B("lite", [0, 1], E3)],
            [UND]]})
        P.append({"id": "id/file/undel", "cfg": file_cfg, "root": root_del(), "levels": [[UND]]})
        P.append({"id": "num/ram/deep", "cfg": cfg("num"), "root": [], "levels": [
            [B("full", [0, 1], E6, ix=True), B("core", [2], E3)],
            [B("core", [0, 1], E5)],
            [B("lite", [0, 1], E3)]]})
        P.append({"id": "two/ram/deep", "cfg": cfg("two"), "root": [], "levels": [
            [B("full", [0, 1, 2], E5, ix=True)],
            [B("core", [0, 1], E5)],
            [B("lite", [0, 1], E3)]]})
        P.append({"id": "two/ram/5seg", "cfg": cfg("two", ixmode="reopen"), "root": root5_two(), "levels": [
            [B("full", [0, 1], E5, ix=True)],
            [B("lite", [0, 1], MRG)]]})
        slevel = [B("schema", ends=E4S), B("slite", [0, 1], E2)]
        P.append({"id": "id/ram/schema/created", "cfg": cfg("id"), "root": [],
                  "recheck_reopened": True, "levels": [slevel] * 4})
        P.append({"id": "id/ram/schema/reopen", "cfg": cfg("id", ixmode="reopen"), "root": [],
                  "levels": [slevel] * 3})
        P.append({"id": "id/file/deep", "cfg": file_cfg, "root": [], "image": True, "levels": [
            [B("core", [0, 1], E5), B("lite", [2], E3)],
            [B("lite", [0, 1], E5)],
            [B("lite", [0, 1], E3)]]})
        P.append({"id": "id/file_nommap_loose/deep", "cfg": loose_cfg, "root": [], "image": True, "levels": [
            [B("core", [0, 1], E5)],
            [B("lite", [0, 1], E5)],
            [B("lite", [0, 1], E3)]]})
        return P
    # ---- thorough ----------------------------------------------------------
    P.append({"id": "id/ram/wide", "cfg": cfg("id"), "root": [], "merged": True, "levels": [
        [B("full", [0, 1, 2], E6, ix=True)],
        [B("full", [0, 1], E6, ix=True), B("lite", [2], E3), B("tri", [3], E2), UND]]})
    P.append({"id": "id/ram/deep", "cfg": cfg("id"), "root": [], "merged": True, "levels": [
        [B("core", [0, 1, 2], E5)],
        [B("core", [0, 1], E5), B("lite", [2], E3)],
        [B("lite", [0, 1], E3)],
        [B("slite", [0, 1], ["optimize", "cancel"])]]})
    P.append({"id": "id/ram/5seg", "cfg": cfg("id", ixmode="reopen"), "root": root5(), "levels": [
        [B("full", [0, 1], E6, ix=True), B("core", [2], MRG)],
        [B("core", [0, 1], E5)],
        [B("slite", [0, 1], MRG)]]})
    P.append({"id": "id/ram/undel", "cfg": cfg("id"), "root": root_del(), "levels": [
        [UND, B("core", [0, 1], E5)],
        [UND, B("lite", [0, 1], E3)],
        [UND]]})
    P.append({"id": "id/file/undel", "cfg": file_cfg, "root": root_del(), "levels": [[UND], [UND]]})
    P.append({"id": "num/ram/deep", "cfg": cfg("num"), "root": [], "levels": [
        [B("full", [0, 1, 2], E6, ix=True)],
        [B("core", [0, 1], E5)],
        [B("lite", [0, 1], E5)]]})
    P.append({"id": "num/ram/5seg", "cfg": cfg("num", ixmode="reopen"), "root": root5(), "levels": [
        [B("full", [0, 1], E6, ix=True)],
        [B("lite", [0, 1], E5)]]})
    P.append({"id": "two/ram/deep", "cfg": cfg("two"), "root": [], "levels": [
        [B("full", [0, 1, 2], E6, ix=True)],
        [B("full", [0, 1], E5)],
        [B("core", [0, 1], E5)],
        [B("slite", [0, 1], E2)]]})
    P.append({"id": "two/ram/5seg", "cfg": cfg("two", ixmode="reopen"), "root": root5_two(), "levels": [
        [B("full", [0, 1], E5, ix=True), B("core", [2], MRG)],
        [B("core", [0, 1], E5)]]})
    slevel = [B("schema", ends=E5), B("slite", [0, 1], E3)]
    P.append({"id": "id/ram/schema/created", "cfg": cfg("id"), "root": [],
              "recheck_reopened": True, "levels": [slevel] * 5})
    P.append({"id": "id/ram/schema/reopen", "cfg": cfg("id", ixmode="reopen"), "root": [],
              "levels": [slevel] * 4})
    P.append({"id": "id/file/deep", "cfg": file_cfg, "root": [], "image": True, "levels": [
        [B("core", [0, 1, 2], E5)],
        [B("core", [0, 1], E5)],
        [B("lite", [0, 1], E3)]]})
    P.append({"id": "id/file_nommap_loose/deep", "cfg": loose_cfg, "root": [], "image": True, "levels": [
        [B("core", [0, 1], E5), B("lite", [2], E3)],
        [B("lite", [0, 1], E5)],
        [B("lite", [0, 1], E3)],
        [B("slite", [0, 1], E3)]]})
    P.append({"id": "two/file/5seg", "cfg": cfg("two", storage="file"), "root": root5_two(), "image": True,
              "levels": [
        [B("core", [0, 1], E5)],
        [B("lite", [0, 1], E5)]]})
    return P


def chunks(items, weight, target):
    """Group (item, weight) into tasks of about ``target`` weight."""
    cur, w = [], 0
    for it in items:
        cur.append(it)
        w += weight(it)
        if w >= target:
            yield cur
            cur, w = [], 0
    if cur:
        yield cur


def split_big(si, hist, key, txns, target):
    """One state's transactions, split into several task items."""
    for i in range(0, len(txns), target):
        yield (si, hist, key, txns[i:i + target])


def explore(ctx, plan, stats):
    cd = plan["cfg"]
    C = Conf(cd)
    opts = {"image": bool(plan.get("image")), "merged": bool(plan.get("merged")),
            "recheck": bool(plan.get("recheck_reopened")), "memo": ctx.extra.setdefault("_memo", {})}
    res = ctx.pmap(task, [("root", cd, [(0, plan["root"])], opts)])
    rootkey = res[0]["out"][0][1]
    st = {"plan": plan["id"], "levels": []}
    stats.append(st)
    if rootkey is None:
        st["root_failed"] = True
        return
    seen = {rootkey: 0}
    ctx.count("states")
    frontier = [(plan["root"], rootkey)]
    a_target = 250
    b_target = 100
    for depth, blocks in enumerate(plan["levels"], 1):
        # ---- phase A: every transition out of every frontier state --------
        items = []
        ntx = 0
        alltx = {}
        for si, (hist, key) in enumerate(frontier):
            alltx[si] = txns_for(C, key, blocks)
            txns = list(enumerate(alltx[si]))
            ntx += len(txns)
            items.extend(split_big(si, hist, key, txns, a_target))
        tasks = [("A", cd, ch, opts) for ch in chunks(items, lambda it: len(it[3]) + 3, a_target)]
        results = ctx.pmap(task, tasks)
        trans = []
        for r in results:
            trans.extend(r["out"])
            opts["memo"].update(r.get("memo") or {})
        trans.sort(key=lambda x: (x[0], x[1]))
        if len(trans) != ntx:
            raise core.HarnessError("lost transitions: %d of %d" % (len(trans), ntx))
        new = {}        # si -> [(ti, txn, key)]
        nnew = 0
        selfloops = 0
        failed_tr = 0
        for si, ti, key in trans:
            if key is None:
                failed_tr += 1
                continue
            if key == frontier[si][1]:
                selfloops += 1
            if key in seen:
                continue
            seen[key] = depth
            nnew += 1
            new.setdefault(si, []).append((ti, alltx[si][ti], key))
        ctx.count("states", nnew)
        # ---- phase B: the invariant in every new state --------------------
        bitems = [(si, frontier[si][0], frontier[si][1], lst) for si, lst in sorted(new.items())]
        bsplit = []
        for si, hist, key, lst in bitems:
            for i in range(0, len(lst), b_target):
                bsplit.append((si, hist, key, lst[i:i + b_target]))
        tasks = [("B", cd, ch, opts) for ch in chunks(bsplit, lambda it: len(it[3]) + 2, b_target)]
        results = ctx.pmap(task, tasks)
        okset = {}
        nontriv = 0
        for r in results:
            opts["memo"].update(r.get("memo") or {})
            for si, ti, ok, nt in r["out"]:
                okset[(si, ti)] = ok
                if nt:
                    nontriv += 1
        ctx.count("distinct_nontrivial", nontriv)
        nxt = []
        bad = 0
        for si, lst in sorted(new.items()):
            for ti, txn, key in lst:
                if okset.get((si, ti)):
                    nxt.append((frontier[si][0] + [txn], key))
                else:
                    bad += 1
        if os.environ.get("C07_VERBOSE"):
            import sys, time
            sys.stderr.write("%s L%d frontier=%d transitions=%d new=%d bad=%d t=%.0fs\n"
                             % (plan["id"], depth, len(frontier), ntx, nnew, bad, time.time() - ctx.t0))
        st["levels"].append({"depth": depth, "frontier": len(frontier), "transitions": ntx,
                             "new_states": nnew, "self_loops": selfloops,
                             "transitions_with_violation": failed_tr,
                             "new_states_violating_invariant": bad})
        frontier = nxt
        ctx.extra["max_depth"] = max(ctx.extra.get("max_depth", 0), depth)
        ctx.extra["max_history_length"] = max(ctx.extra.get("max_history_length", 0),
                                              depth + len(plan["root"]))
        if not frontier:
            break
    st["states"] = len(seen)
    st["unexpanded_frontier"] = len(frontier)


def run(ctx):
    stats = []
    ps = plans(ctx.tier, ctx.seed)
    only = os.environ.get("C07_PLANS")        # debugging aid only
    if only:
        ps = [p for p in ps if p["id"] in only.split(",")]
        ctx.cap("debug run restricted to plans %s" % only)
    for plan in ps:
        explore(ctx, plan, stats)
    ctx.extra.pop("_memo", None)
    ctx.extra["plans"] = stats
    ctx.extra["bfs_depth"] = max(len(p["levels"]) for p in ps)
    ctx.extra["vocabulary"] = VOCABS[ctx.seed % len(VOCABS)]
    ctx.rule = (
        "explicit-state BFS, one transition = one writer transaction on a real index; a transaction = "
        "0..n ops from the level's alphabet + one ending from {commit(merge=False), commit(), "
        "commit(optimize=True), cancel(), exception raised inside `with ix.writer()`, normal with-exit, "
        "Index.delete_by_term/delete_by_query/optimize convenience calls}; update_document at most once per "
        "unique value per writer. Alphabets: full = add/update(3 keys x 3 texts) + delete_by_term(key field, "
        "each key) + delete_by_term(text, each word) + delete_by_query(Or, Not, Every(), And, Every(field)) + "
        "delete_document(every live doc number) [two unique fields: update over 4 (key,k2) pairs sharing "
        "values, no duplicate-creating adds]; core = 16 representative ops of the same kinds (first/last live "
        "doc number); lite = 8; tri = 6; slite = 3; schema = add_field/remove_field (+1 op) transactions; "
        "undel = delete_document(n, delete=False). Caps: coverage.plan_levels lists, per plan and BFS level, "
        "the blocks (alphabet x ops per transaction x endings); every transaction inside a block is executed "
        "from every distinct state of the previous level (quick: full alphabet with 0-2 ops complete to "
        "depth 1 and 0-1 ops + 2 ops over lite to depth 2; core/lite alphabets with 0-1 ops to depth 3; "
        "thorough: depth 4-5). Start states: empty index and a 5-segment index with deletions. States are "
        "merged by the canonical dump of the real index (per segment: (key, text, extra-field flag, deleted?) "
        "per doc number, stale removed-field data, schema field names); the read-API invariant is evaluated "
        "once in every distinct state, the transition checks (writer.is_deleted after every op, delete_by_* "
        "return values, cancel/exception leave dump + generation + lock untouched and a new writer opens) on "
        "every transition. Transitions/states violating a check are reported and not expanded. evaluations = "
        "transitions; distinct_nontrivial = distinct states with a deleted document or more than one segment.")
    ctx.extra["plan_levels"] = dict((p["id"], {"root_transactions": len(p["root"]), "levels": p["levels"]})
                                    for p in ps)
    ctx.assumptions = [
        "documents are identified by their stored fields; documents with identical content are "
        "interchangeable (multiset comparison)",
        "delete_document(docnum) is translated to the model through the canonical dump of the state "
        "before the transaction (which document lives at that number)",
        "update_document deletes every committed live document sharing a unique value (docs/source/"
        "indexing.rst: 'will delete any existing documents where the path field contains /a'; add_document "
        "does not enforce uniqueness)",
        "documents added by a writer are invisible to that writer's own delete/update operations "
        "(documented for update_document)",
        "add_field is only issued when no stale data of a previously removed field of that name is "
        "physically present (the documentation leaves that case open until the index is optimized)",
        "orphan segment files left behind by cancel() are counted (aborts_leaving_orphan_files) but are "
        "not part of the statement",
        "the write lock is probed with a non-blocking acquire (a blocking second writer on RamStorage is "
        "C04's subject)",
    ]
    c = ctx.counters
    # vacuity guards
    need = ["transitions", "states", "aborts_checked_unchanged", "aborts_with_pending_deletions",
            "ret_ge2", "ret_with_deleted_match", "states_checked", "merge_small_engaged", "states_under_update_discipline", "merged_history_variants",
            "ops_ddoc", "ops_upd", "ops_dq", "ops_addf", "ops_rmf"]
    missing = [k for k in need if not c.get(k)]
    if only:
        return
    if missing and not ctx.viol:
        # (violating states are not expanded, so a run that found violations
        # may legitimately not reach every mechanism)
        raise core.HarnessError("vacuous run: counters %r are zero" % missing)
    if c.get("distinct_nontrivial", 0) < 50:
        raise core.HarnessError("too few states with deletions / several segments")


def replay(case):
    core.setup_process(case["cfg"].get("seed", 0))
    try:
        probs, eff, snap, live = check_history(case["cfg"], case["history"])
    except InvalidHistory as e:
        return {"ok": False, "what": "history cannot be executed as recorded: %s" % e}
    if not probs:
        return {"ok": True, "what": "history %s: index agrees with the model after every transaction"
                % fmt_hist(case["history"]), "live": live}
    step, api, kind, detail = probs[0]
    return {"ok": False, "what": "after transaction %d of %s: %s [%s]: %s"
            % (step + 1, fmt_hist(case["history"]), api, kind, detail),
            "api": api, "kind": kind, "step": step}
