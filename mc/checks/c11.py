"""C11 - every matcher is a faithful forward cursor over one fixed list.
E4: explicit-state BFS over call programs {next, skip_to(t), skip_to_quality(0),
replace(0), copy, copy+advance, reset} on real matcher objects built from
every query tree of the C01 families over U(D) (and directly constructed
array/preloaded/multi/filter/inverse/span matchers), against the list model
recorded by a fresh next()-only traversal and the reference evaluator."""
from mc import core, corpus, qast, mbfs
from mc.checks import c01

PID = "C11"
LEVEL = "model_checking"


def span_query(spec):
    """['snear', [w..], slop, ordered] etc. on field p."""
    from whoosh.query import spans as S, Term
    k = spec[0]
    T = lambda w: Term("p", w)
    if k == "snear":
        return S.SpanNear(T(spec[1]), T(spec[2]), slop=spec[3], ordered=spec[4])
    if k == "snear2":
        return S.SpanNear2([T(w) for w in spec[1]], slop=spec[2], ordered=spec[3])
    if k == "sor":
        return S.SpanOr([T(w) for w in spec[1]])
    if k == "snot":
        return S.SpanNot(T(spec[1]), T(spec[2]))
    if k == "sfirst":
        return S.SpanFirst(T(spec[1]), limit=spec[2])
    if k == "scontains":
        return S.SpanContains(S.SpanNear(T(spec[1]), T(spec[2]), slop=3), T(spec[3]))
    if k == "sbefore":
        return S.SpanBefore(T(spec[1]), T(spec[2]))
    if k == "scond":
        return S.SpanCondition(T(spec[1]), T(spec[2]))
    raise ValueError(spec)


SPANS = [["snear", "x", "y", 1, True], ["snear", "x", "y", 2, False], ["snear", "y", "x", 3, True],
         ["snear2", ["x", "y", "z"], 2, True], ["snear2", ["y", "x"], 1, False],
         ["sor", ["x", "z"]], ["sor", ["y", "q"]], ["snot", "x", "y"], ["snot", "y", "z"],
         ["sfirst", "x", 0], ["sfirst", "y", 1], ["scontains", "x", "z", "y"],
         ["sbefore", "x", "y"], ["sbefore", "z", "x"], ["scond", "x", "y"], ["scond", "y", "z"]]


def make_factory(spec, s):
    """spec -> zero-argument function building a fresh matcher on searcher s."""
    from whoosh import matching
    kind = spec["kind"]
    ctxname = spec.get("context", "scored")
    ctx = s.context() if ctxname == "scored" else s.boolean_context()
    if kind == "query":
        q = qast.to_whoosh(spec["ast"])
        return lambda: q.matcher(s, ctx)
    if kind == "span":
        q = span_query(spec["span"])
        return lambda: q.matcher(s, ctx)
    if kind == "direct":
        name = spec["name"]
        subs = [qast.to_whoosh(a) for a in spec.get("asts", [])]
        dc = s.doc_count_all()
        if name == "arrayunion":
            ps = spec["partsize"]
            return lambda: matching.ArrayUnionMatcher([q.matcher(s, ctx) for q in subs], dc, partsize=ps)
        if name == "preloaded":
            return lambda: matching.PreloadedUnionMatcher([q.matcher(s, ctx) for q in subs], dc)
        if name == "filter":
            ids = frozenset(spec["ids"])
            ex = spec["exclude"]
            return lambda: matching.FilterMatcher(subs[0].matcher(s, ctx), ids, exclude=ex)
        if name == "inverse":
            return lambda: matching.InverseMatcher(subs[0].matcher(s, ctx), dc)
        if name == "wrap":
            b = spec["boost"]
            return lambda: matching.WrappingMatcher(subs[0].matcher(s, ctx), b)
        if name == "constwrap":
            return lambda: matching.ConstantScoreWrapperMatcher(subs[0].matcher(s, ctx), 0.5)
        if name == "list":
            ids = list(spec["ids"])
            return lambda: matching.ListMatcher(ids, [1.0 + 0.5 * i for i in range(len(ids))])
    raise ValueError(spec)


def T(D, m):
    return ["term", "s", corpus.sterm(m)]


def objects(D, family):
    terms = c01.term_leaves(D)
    if family == "d1":
        for ast in c01.trees_depth1(terms, c01.special_leaves(D), ternary=False):
            yield {"kind": "query", "ast": ast}
    elif family == "d1_mix":
        # all binary/unary trees over term leaves; every special leaf alone,
        # negated, and paired with representative terms in both positions
        for ast in c01.trees_depth1(terms, [], ternary=False):
            yield {"kind": "query", "ast": ast}
        reps = [terms[m] for m in sorted(set([(1 << D) - 1, 0b0101 & ((1 << D) - 1), 0b0010, 1 << (D - 1)]))]
        for sp in c01.special_leaves(D):
            yield {"kind": "query", "ast": sp}
            yield {"kind": "query", "ast": ["not", sp]}
            for t in reps:
                for op in c01.NARY:
                    yield {"kind": "query", "ast": [op, [sp, t]]}
                    yield {"kind": "query", "ast": [op, [t, sp]]}
                for op in c01.BINOPS:
                    yield {"kind": "query", "ast": [op, sp, t]}
                    yield {"kind": "query", "ast": [op, t, sp]}
    elif family == "d1_tern":
        red = [terms[m] for m in sorted(set([0, 1, (1 << D) - 1, 0b0110 & ((1 << D) - 1), 0b1001 & ((1 << D) - 1), 0b0100 & ((1 << D) - 1)]))]
        for ast in c01.trees_depth1(terms, [], ternary=False):
            yield {"kind": "query", "ast": ast}
        for op in c01.NARY:
            for a in red:
                for b in red:
                    for c in red:
                        yield {"kind": "query", "ast": [op, [a, b, c]]}
    elif family == "d1_terms_bin":
        for ast in c01.trees_depth1(terms, [], ternary=False):
            yield {"kind": "query", "ast": ast}
    elif family == "d1_terms":
        for ast in c01.trees_depth1(terms, [], ternary=True):
            yield {"kind": "query", "ast": ast}
    elif family == "d2_terms":
        for ast in c01.trees_depth2(terms):
            yield {"kind": "query", "ast": ast}
    elif family == "bool":
        for ast in c01.trees_depth1(terms, [["every"], ["prefix", "w", "a"]], ternary=False):
            yield {"kind": "query", "ast": ast, "context": "bool"}
    elif family == "direct":
        for sp in SPANS:
            yield {"kind": "span", "span": sp}
        n = 1 << D
        for a in range(n):
            for b in range(n):
                for ps in (1, 2, 3):
                    yield {"kind": "direct", "name": "arrayunion", "asts": [T(D, a), T(D, b)], "partsize": ps}
                yield {"kind": "direct", "name": "preloaded", "asts": [T(D, a), T(D, b)]}
            for ids in range(n):
                idl = [i for i in range(D) if ids & (1 << i)]
                yield {"kind": "direct", "name": "filter", "asts": [T(D, a)], "ids": idl, "exclude": False}
                yield {"kind": "direct", "name": "filter", "asts": [T(D, a)], "ids": idl, "exclude": True}
            yield {"kind": "direct", "name": "inverse", "asts": [T(D, a)]}
            yield {"kind": "direct", "name": "wrap", "asts": [T(D, a)], "boost": 2.0}
            yield {"kind": "direct", "name": "constwrap", "asts": [T(D, a)]}
            yield {"kind": "direct", "name": "list", "ids": [i for i in range(D) if a & (1 << i)]}
        for a in range(1, n, 3):
            for b in range(n):
                for c in range(0, n, 2):
                    yield {"kind": "direct", "name": "arrayunion", "asts": [T(D, a), T(D, b), T(D, c)], "partsize": 2}
    else:
        raise ValueError(family)


def obj_shape(spec):
    if spec["kind"] == "query":
        return qast.shape(spec["ast"]) + ("" if spec.get("context", "scored") == "scored" else "/bool")
    if spec["kind"] == "span":
        return "span:" + spec["span"][0]
    return "direct:%s" % spec["name"]


def culprit_spec(spec, s, maxid, depth, model):
    """Smallest sub-query whose matcher still violates the protocol."""
    if spec["kind"] != "query":
        return spec
    for c in c01.children(spec["ast"]):
        sub = dict(spec, ast=c)
        r = explore_one(sub, s, maxid, depth, model)
        if r["violation"] is not None:
            return culprit_spec(sub, s, maxid, depth, model)
    return spec


def _reads_do_not_matter(runner):
    """In every explored state: a quality skip applied to the live matcher
    (whose id()/score() have just been read) must leave it exactly where the
    same calls leave a matcher that was never read - observing a matcher must
    not change where later calls take it (cached ids have to be dropped by
    every call that moves a sub-matcher)."""
    m = runner.m
    if not m.is_active():
        return
    try:
        if not m.supports_block_quality():
            return
    except Exception:
        return
    rest = [e.get("score") for e in runner.L[runner.pos:] if isinstance(e.get("score"), float)]
    if not rest:
        return
    for q in sorted(set([rest[0], max(rest), min(rest)])):
        if q <= 0:
            continue
        warm = runner.blind(runner.prog)
        # warm its caches the way an observer would
        if warm.is_active():
            warm.id()
            warm.score()
        cold = runner.blind(runner.prog)
        warm.skip_to_quality(q)
        cold.skip_to_quality(q)
        a = (warm.is_active(), warm.id() if warm.is_active() else None)
        b = (cold.is_active(), cold.id() if cold.is_active() else None)
        if a != b:
            raise mbfs.Violation("observed-differs", "after program %r + skip_to_quality(%r): a matcher whose id()/"
                                 "score() were read first is at %r, an unobserved one at %r" % (runner.prog, q, a, b))
        if a[0]:
            sa, sb = warm.score(), cold.score()
            if not mbfs.close(sa, sb):
                raise mbfs.Violation("observed-differs:score", "after program %r + skip_to_quality(%r) at id %r: "
                                     "score %r when observed before, %r otherwise" % (runner.prog, q, a[1], sa, sb))


def explore_one(spec, s, maxid, depth, model, km=None):
    scored = spec.get("context", "scored") == "scored"
    reader = mbfs.Reader(scored=scored)
    try:
        make = make_factory(spec, s)
        make()
    except Exception as e:
        return {"states": 0, "transitions": 0, "executions": 0, "depth": 0,
                "violation": ("exc:%s@%s" % (type(e).__name__, mbfs.whoosh_where(e)),
                              "building the matcher raised %r" % (e,), [])}
    r = mbfs.bfs(make, reader, maxid, depth,
                 extra_state_check=_reads_do_not_matter if (scored and spec.get("observe")) else None)
    if r["violation"] is None and spec["kind"] == "query" and km is not None:
        # the list itself must be the reference result
        ref = qast.ref_eval(spec["ast"], model)
        got = [km[e["id"]] for e in r["L"]]
        if set(got) != ref or len(got) != len(set(got)):
            r["violation"] = ("list!=reference", "matcher lists %s, reference evaluator %s"
                              % (sorted(got), sorted(ref)), [])
    return r


def task(t):
    D, seed, layout, family, nsl, sl, depth = t
    acc = core.Acc()
    docs = corpus.universe_docs(D, seed)
    ix, docs = corpus.build_index(docs, layout)
    try:
        model = corpus.make_model(docs)
        with ix.searcher() as s:
            km = c01.keymap(s)
            maxid = s.doc_count_all()
            for i, spec in enumerate(objects(D, family)):
                if i % nsl != sl:
                    continue
                if layout.get("observe"):
                    spec = dict(spec, observe=True)
                r = explore_one(spec, s, maxid, depth, model, km)
                acc.count("objects")
                acc.count("states", r["states"])
                acc.count("transitions", r["transitions"])
                acc.count("traces_validated_against_impl", r["executions"])
                acc.count("evaluations", r["executions"])
                if r["states"] > 2:
                    acc.count("distinct_nontrivial")
                if r.get("frontier_left"):
                    acc.count("objects_with_unexplored_frontier")
                if r["violation"] is not None:
                    cu = culprit_spec(spec, s, maxid, depth, model)
                    rc = explore_one(cu, s, maxid, depth, model, km) if cu is not spec else r
                    if rc["violation"] is None:
                        cu, rc = spec, r
                    kind, detail, prog = rc["violation"]
                    opn = prog[-1][0] if prog else "init"
                    shape = c01.top_shape(cu["ast"]) if cu["kind"] == "query" else obj_shape(cu)
                    if cu.get("context", "scored") != "scored":
                        shape += "/bool"
                    acc.violation("%s|%s|%s" % (shape, opn, kind),
                                  {"D": D, "seed": seed, "layout": layout, "spec": cu,
                                   "program": prog, "depth": depth, "found_in": spec},
                                  "%s: program %r: %s" % (obj_shape(cu), prog, detail))
                if i % 997 == 5:
                    acc.sample({"object": spec, "layout": layout, "states": r["states"],
                                "transitions": r["transitions"],
                                "list_ids": [e["id"] for e in r.get("L", [])]})
    finally:
        corpus.destroy_index(ix)
    return acc.result()


def run(ctx):
    seed = ctx.seed
    tasks = []
    L1 = {"segs": [4], "deleted": [], "blocklimit": 2}
    L2 = {"segs": [4], "deleted": [1], "blocklimit": 1}
    L3 = {"segs": [2, 2], "deleted": [0], "blocklimit": 1}
    L4 = {"segs": [1, 3], "deleted": [], "blocklimit": None, "storage": "file"}
    M1 = {"segs": [3], "deleted": [], "blocklimit": 1}
    M2 = {"segs": [2, 1], "deleted": [1], "blocklimit": 2}
    N1 = {"segs": [2], "deleted": [], "blocklimit": 1}
    deep = []
    if ctx.tier == "quick":
        depth = 3
        plan = [(4, L1, "d1_mix", 32), (4, L2, "d1_tern", 16), (4, L3, "d1_tern", 16),
                (2, N1, "d2_terms", 16), (4, L2, "direct", 16), (4, L3, "direct", 16),
                (3, M2, "bool", 4)]
        # the same protocol to depth 5 on every binary/unary tree over U(3)
        deep = [(3, dict(M1, observe=True), "d1_terms_bin", 8, 5), (3, dict(M2, observe=True), "d1_terms_bin", 8, 5),
                (4, dict(L2, observe=True), "d1_terms_bin", 16, 2)]
    else:
        depth = 6
        plan = [(4, L1, "d1", 64), (4, L2, "d1_mix", 32), (4, L3, "d1_mix", 32), (4, L4, "d1_tern", 32),
                (4, L2, "d1_terms", 64),
                (3, M1, "d2_terms", 64), (3, M2, "d2_terms", 64), (4, L1, "direct", 32),
                (4, L2, "direct", 32), (4, L3, "direct", 32), (4, L2, "bool", 16), (3, M2, "bool", 4)]
    for D, lay, fam, nsl in plan:
        for sl in range(nsl):
            tasks.append((D, seed, lay, fam, nsl, sl, depth))
    for D, lay, fam, nsl, dp in deep:
        for sl in range(nsl):
            tasks.append((D, seed, lay, fam, nsl, sl, dp))
    ctx.extra["deep_plan"] = [[p[0], p[1], p[2], p[4]] for p in deep]
    ctx.extra["bfs_depth"] = depth
    ctx.extra["plan"] = [[p[0], p[1], p[2]] for p in plan]
    ctx.rule = ("for every matcher object (query trees of the stated families over U(D) on the stated "
                "index variants, scored and boolean contexts, directly constructed array/preloaded/"
                "filter/inverse/wrapping/list matchers, span matchers): BFS over call programs "
                "{next, skip_to(0..D+1), skip_to_quality(0), skip_to_quality(q) for q in {current score, best "
                "remaining score}, replace(), copy, copy+advance, reset} up to "
                "the depth, states merged by digest of the real object graph + model position; states/"
                "transitions are summed over objects; an object counts as non-trivial when it has more "
                "than 2 distinct states")
    ctx.assumptions = ["the list model is the object's own fresh next()-only traversal (ids must also equal "
                       "the reference evaluator's result for query-built matchers)",
                       "only calls whose documented precondition holds are made (no next/skip_to on an "
                       "inactive matcher, no reset after replace, all_ids only on fresh matchers)"]
    ctx.pmap(task, tasks)
    if ctx.counters.get("objects_with_unexplored_frontier"):
        ctx.extra["note_depth"] = ("%d objects still had unexplored states at the depth bound"
                                   % ctx.counters["objects_with_unexplored_frontier"])


def replay(case):
    core.setup_process(case.get("seed", 0))
    docs = corpus.universe_docs(case["D"], case.get("seed", 0))
    ix, docs = corpus.build_index(docs, case["layout"])
    model = corpus.make_model(docs)
    with ix.searcher() as s:
        km = c01.keymap(s)
        r = explore_one(case["spec"], s, s.doc_count_all(), case.get("depth", 4), model, km)
    v = r["violation"]
    return {"ok": v is None, "what": None if v is None else "%s: %s (program %r)" % v,
            "states": r["states"], "transitions": r["transitions"]}
