"""C03 - readers are snapshots; new readers and refresh() see exactly the
last commit.  E3: one or two writer transactions race with a reader thread
(open searcher, probe, probe again through lazily opened parts,
up_to_date(), refresh(), fresh searcher) under the cooperative scheduler;
every schedule with <= B preemptions at storage-call granularity runs on the
real code.  Oracle: probes of the generation model computed by running the
same history sequentially."""
import os
import random
import shutil
import traceback

from mc import core, sched as S
from mc.checks.c04 import patch_whoosh, _norm, _lab

PID = "C03"
LEVEL = "model_checking"


def schema():
    from whoosh import fields
    return fields.Schema(key=fields.ID(stored=True, unique=True),
                         text=fields.TEXT(stored=True, vector=True),
                         n=fields.NUMERIC(int, sortable=True))


DOCS = {u"k0": (u"alfa bravo", 3), u"k1": (u"bravo charlie", 1), u"k2": (u"alfa delta", 2),
        u"k3": (u"echo alfa", 5), u"k4": (u"bravo echo echo", 4)}


def add(w, k):
    w.add_document(key=k, text=DOCS[k][0], n=DOCS[k][1])


def do_txn(ix, kind, compound):
    from whoosh.writing import CLEAR
    w = ix.writer()
    if not compound:
        w.compound = False
    if kind == "append":
        add(w, u"k3")
        w.commit(merge=False)
    elif kind == "append2":
        add(w, u"k4")
        w.commit(merge=False)
    elif kind == "optimize":
        w.commit(optimize=True)
    elif kind == "add_optimize":
        add(w, u"k3")
        w.commit(optimize=True)
    elif kind == "delete":
        w.delete_by_term("key", u"k1")
        w.commit(merge=False)
    elif kind == "empty":
        w.commit(merge=False)
    elif kind == "delete2":
        w.delete_by_term("key", u"k0")
        w.commit(merge=False)
    elif kind == "delete2_cancel":
        # marks a deletion on a segment and abandons the transaction
        w.delete_by_term("key", u"k0")
        w.cancel()
    elif kind == "delete_optimize":
        w.delete_by_term("key", u"k0")
        w.commit(optimize=True)
    elif kind == "clear":
        add(w, u"k4")
        w.commit(mergetype=CLEAR)
    elif kind == "merge":
        add(w, u"k3")
        w.commit()
    elif kind == "update":
        w.update_document(key=u"k0", text=u"zulu alfa", n=9)
        w.commit(merge=False)
    else:
        raise ValueError(kind)


def build_initial(st, compound, oneseg=False):
    ix = st.create_index(schema())
    w = ix.writer()
    if not compound:
        w.compound = False
    add(w, u"k0")
    add(w, u"k1")
    if oneseg:
        add(w, u"k2")
        w.commit(merge=False)
        return ix
    w.commit(merge=False)
    w = ix.writer()
    if not compound:
        w.compound = False
    add(w, u"k2")
    w.commit(merge=False)
    return ix


def probe_a(s):
    """stored fields, lexicon, postings, counts"""
    from whoosh import query as Q
    r = s.reader()
    out = {}
    out["stored"] = sorted((sf["key"], sf["text"]) for sf in s.all_stored_fields())
    out["lex"] = [t.decode("utf8") for t in r.lexicon("text")]
    km = {}
    for d, sf in r.iter_docs():
        km[d] = sf["key"]
    posts = {}
    for t in (u"alfa", u"bravo", u"echo"):
        try:
            m = r.postings("text", t)
        except Exception as e:
            if type(e).__name__ == "TermNotFound":
                posts[t] = None
                continue
            raise
        ids = []
        while m.is_active():
            ids.append(km.get(m.id(), "<%d>" % m.id()))
            m.next()
        posts[t] = sorted(ids)
    out["posts"] = posts
    out["counts"] = [r.doc_count(), r.doc_count_all() - sum(1 for d in range(r.doc_count_all()) if r.is_deleted(d))]
    out["hits"] = sorted(h["key"] for h in s.search(Q.Term("text", u"alfa"), limit=None))
    return out


def probe_b(s):
    """parts that are opened lazily: sort column, vectors"""
    from whoosh import query as Q
    r = s.reader()
    out = {}
    out["sorted"] = [h["key"] for h in s.search(Q.Every(), limit=None, sortedby="n")]
    vecs = {}
    for d, sf in r.iter_docs():
        if r.has_vector(d, "text"):
            vecs[sf["key"]] = sorted(t for t, _ in r.vector_as("frequency", d, "text"))
    out["vecs"] = sorted(vecs.items())
    return out


def expected_generations(cfg):
    """Runs the history sequentially (no scheduler) and probes a fresh
    searcher after each commit: generation -> probes."""
    from whoosh.filedb.filestore import FileStorage, RamStorage
    random.seed(99)
    work = core.fresh_dir("c03exp")
    try:
        st = FileStorage(work) if cfg["storage"] != "ram" else RamStorage()
        ix = build_initial(st, cfg["compound"], cfg.get("oneseg"))
        exp = {}
        with ix.searcher() as s:
            exp[ix.latest_generation()] = {"a": probe_a(s), "b": probe_b(s)}
        for kind in cfg["txns"]:
            do_txn(ix, kind, cfg["compound"])
            with ix.searcher() as s:
                exp[ix.latest_generation()] = {"a": probe_a(s), "b": probe_b(s)}
        return exp
    finally:
        shutil.rmtree(work, ignore_errors=True)


def one_run(cfg, prefix, expected):
    random.seed(cfg.get("seed", 0) * 1000 + 7)
    sch = S.Scheduler(prefix)
    undo = patch_whoosh(sch)
    work = None
    outcome = {"problems": [], "obs": []}
    try:
        lockreg = {}
        mutlog = []
        if cfg["storage"] == "ram":
            st = S.make_sched_ram_storage(sch)
            sch.state_fn = lambda: S.ram_digest(st)
            # committed generation = renames of TOC files: track through a wrapper
            orig_rename = st.rename_file

            def rename_file(a, b, safe=False, _o=orig_rename):
                r = _o(a, b, safe=safe)
                mutlog.append(("?", "rename", b))
                return r
            st.rename_file = rename_file
        else:
            work = core.fresh_dir("c03")
            d = os.path.join(work, "ix")
            os.makedirs(d)
            st = S.make_sched_storage(sch, d, lockreg, mutlog, supports_mmap=(cfg["storage"] == "file"))
            sch.state_fn = lambda: S.dir_digest(d)
        ix_w = build_initial(st, cfg["compound"], cfg.get("oneseg"))
        # "shared": reader and writer come from ONE Index object (the usual
        # way to use the library inside one process) instead of two
        ix_r = ix_w if cfg.get("shared") else st.open_index()
        base_gen = ix_w.latest_generation()
        del mutlog[:]

        def committed():
            g = base_gen
            for who, op, name in mutlog:
                if op == "rename" and name.startswith("_MAIN_") and name.endswith(".toc"):
                    g = max(g, int(name[len("_MAIN_"):-len(".toc")]))
            return g

        def check_probe(s, which, tag):
            g = s.reader().generation()
            got = probe_a(s) if which == "a" else probe_b(s)
            exp = expected.get(g)
            if exp is None:
                outcome["problems"].append(("unknown-generation", "%s: searcher reports generation %r" % (tag, g)))
                return
            if got != exp[which]:
                diff = [k for k in got if got[k] != exp[which][k]]
                outcome["problems"].append(("snapshot:%s:%s" % (tag.split("#")[0], "+".join(diff)),
                                            "%s: probe_%s of a searcher on generation %d differs from that "
                                            "generation in %s: got %r expected %r"
                                            % (tag, which, g, diff, dict((k, got[k]) for k in diff),
                                               dict((k, exp[which][k]) for k in diff))))

        def check_window(g, before, after, tag):
            if not (before <= g <= after):
                outcome["problems"].append(("stale-or-future:%s" % tag,
                                            "%s returned generation %d; commits completed before the call: %d, "
                                            "by its end: %d" % (tag, g, before, after)))

        def writer():
            for kind in cfg["txns"]:
                do_txn(ix_w, kind, cfg["compound"])

        def reader():
            b = committed()
            s = ix_r.searcher()
            a = committed()
            g0 = s.reader().generation()
            check_window(g0, b, a, "searcher()")
            check_probe(s, "a", "held#1")
            sch.point(("reader", "between-probes"))
            check_probe(s, "b", "held#2-lazy")
            check_probe(s, "a", "held#3")
            b = committed()
            u = s.up_to_date()
            a = committed()
            if u and not (b <= g0 <= a):
                outcome["problems"].append(("up_to_date", "up_to_date()=True for generation %d although generation %d "
                                            "was committed before the call" % (g0, b)))
            if (not u) and g0 >= a:
                outcome["problems"].append(("up_to_date", "up_to_date()=False for generation %d although no newer "
                                            "generation existed by the end of the call (%d)" % (g0, a)))
            b = committed()
            s2 = s.refresh()
            a = committed()
            g2 = s2.reader().generation()
            check_window(g2, max(b, g0), a, "refresh()")
            check_probe(s2, "a", "refreshed#1")
            check_probe(s2, "b", "refreshed#2")
            b = committed()
            s3 = ix_r.searcher()
            a = committed()
            check_window(s3.reader().generation(), b, a, "searcher()#2")
            check_probe(s3, "b", "fresh#1-lazy")
            check_probe(s3, "a", "fresh#2")
            outcome["obs"].append((g0, g2, s3.reader().generation(), u))
            s3.close()
            s2.close()

        sch.spawn("W", writer)
        sch.spawn("R", reader)
        ok = sch.run()
        if not ok:
            if sch.deadlock:
                outcome["problems"].append(("deadlock", "pending %r" % (sch.deadlock,)))
            if sch.horizon:
                outcome["problems"].append(("livelock", "horizon"))
            sch.abandon()
        for tid in ("W", "R"):
            t = sch.threads[tid]
            if t.exc is not None:
                tb = traceback.extract_tb(t.exc.__traceback__)
                fr = [f for f in tb if "/whoosh/" in f.filename] or list(tb)
                where = "%s:%s" % (fr[-1].filename.split("/")[-1], fr[-1].name)
                stage = ""
                for f in tb:
                    if f.name == "reader" and f.line:
                        stage = f.line.strip()[:40]
                outcome["problems"].append(("exc:%s:%s@%s" % (tid, type(t.exc).__name__, where),
                                            "%s thread raised %r at %s (%s)" % (tid, t.exc, where, stage)))
        if ok and not outcome["problems"]:
            # after everything: a fresh searcher sees exactly the last commit
            with ix_r.searcher() as s:
                last = max(expected)
                if s.reader().generation() != last:
                    outcome["problems"].append(("final-generation", "final searcher on %r, last commit %r"
                                                % (s.reader().generation(), last)))
                else:
                    check_probe(s, "a", "final")
    except S.Divergence:
        raise
    except Exception:
        outcome["problems"].append(("harness", traceback.format_exc()[-900:]))
    finally:
        undo()
        if work:
            shutil.rmtree(work, ignore_errors=True)
    return sch, outcome


def explore_cfg(cfg, bound, max_execs, acc):
    expected = expected_generations(cfg)
    outcomes = {}
    allstates = set()

    def make_run(prefix):
        return one_run(cfg, prefix, expected)

    def on_exec(sch, outcome):
        for o in outcome["obs"]:
            outcomes[o] = outcomes.get(o, 0) + 1
        acc.count("traces_validated_against_impl")
        acc.count("evaluations")
        acc.count("transitions", len(sch.decisions))
        new = sch.states - allstates
        allstates.update(new)
        acc.count("states", len(new))
        if any(c for c in sch.choices):
            acc.count("distinct_nontrivial")
        for kind, text in outcome["problems"]:
            if kind == "harness":
                raise core.HarnessError(text)
            acc.violation("%s|%s" % (cfg["name"], kind), {"cfg": cfg, "choices": list(sch.choices)},
                          "%s; schedule tail=%r" % (text[:600], [(t, _lab(l)) for t, l in sch.trace][-25:]))
        return False

    s1, o1 = one_run(cfg, [], expected)
    s2, o2 = one_run(cfg, [], expected)
    if [(t, _lab(l)) for t, l in s1.trace] != [(t, _lab(l)) for t, l in s2.trace]:
        raise core.HarnessError("non-deterministic replay of the default schedule for %s" % cfg["name"])
    completed = -1
    stats = None
    for b in range(0, bound + 1):
        stats = S.explore(make_run, b, max_execs, on_exec)
        if stats["capped"]:
            break
        completed = b
    if completed < bound:
        acc.count("configs_below_target_bound")
    if completed < 1:
        acc.count("capped_configs")
    acc.count("configs")
    acc.count("bound%d_completed" % max(completed, 0))
    acc.count("distinct_outcomes", len(outcomes))
    acc.sample({"config": cfg["name"], "preemption_bound_completed": completed,
                "executions_at_last_bound": stats["executions"],
                "observed (gen at open, after refresh, fresh, up_to_date) -> count":
                    [[list(k), n] for k, n in sorted(outcomes.items(), key=repr)][:10]})


def configs(tier):
    out = []
    txsets = [["append"], ["optimize"], ["delete"], ["add_optimize"], ["clear"], ["merge"], ["update"],
              ["delete_optimize"], ["append", "optimize"], ["delete", "append2"], ["add_optimize", "append2"],
              # a second delete-only commit on a segment that already has a deletion
              ["delete", "delete2"],
              # a commit that changes nothing but the generation
              ["empty"], ["empty", "append"]]
    storages = [("file", True), ("file", False), ("file_nommap", True), ("ram", True)]
    if tier != "quick":
        storages.append(("file_nommap", False))
    core_tx = [["optimize"], ["add_optimize"], ["delete"], ["clear"], ["append", "optimize"], ["delete", "delete2"], ["empty"]]
    for storage, compound in storages:
        for tx in txsets:
            if tier == "quick" and not (storage == "file" and compound) and tx not in core_tx:
                continue
            out.append({"name": "%s:%s:%s" % (storage, "compound" if compound else "loose", "+".join(tx)),
                        "storage": storage, "compound": compound, "txns": tx})
    # single-segment initial index (a lone SegmentReader is what refresh() re-uses)
    for tx in (["empty"], ["delete"], ["append"], ["empty", "delete"]):
        out.append({"name": "file:compound:oneseg:%s" % "+".join(tx), "storage": "file", "compound": True,
                    "txns": tx, "oneseg": True})
    # reader and writer obtained from the same Index object: what a writer
    # marks on its segments before (or without) committing must not leak
    for storage in ("file", "ram"):
        for tx in (["delete", "delete2"], ["delete", "delete2_cancel", "empty"], ["update"], ["delete", "append2"]):
            out.append({"name": "%s:compound:shared:%s" % (storage, "+".join(tx)), "storage": storage,
                        "compound": True, "txns": tx, "shared": True})
    return out


def task(t):
    cfg, bound, max_execs, seed = t
    acc = core.Acc()
    explore_cfg(dict(cfg, seed=seed), bound, max_execs, acc)
    return acc.result()


def run(ctx):
    tasks = []
    for cfg in configs(ctx.tier):
        if ctx.tier == "quick":
            bound, cap = 2, 1500
        else:
            bound, cap = 3, 6000     # ~15 minutes on 16 cores
        tasks.append((cfg, bound, cap, ctx.seed))
    ctx.extra["configs"] = len(tasks)
    ctx.rule = ("for each configuration (storage {file mmap, file no-mmap, RAM} x {compound, loose segments} x writer "
                "history of 1-2 transactions from {append, optimize, delete-only, add+optimize, CLEAR, default merge, "
                "update, delete+optimize, second delete on a segment, cancelled delete, empty commit}; reader and writer on "
                "separate Index objects, or sharing one): a writer thread and a reader thread (searcher -> probe -> probe of lazily "
                "opened parts -> up_to_date -> refresh -> probes -> fresh searcher -> probes) under every schedule with "
                "<= B preemptions at storage-call granularity (iterative bounding, B=2 quick / 3 thorough, largest "
                "completed bound reported); non-trivial = schedule deviating from the default")
    ctx.assumptions = ["generation models are obtained by running the same history sequentially and probing a fresh "
                       "searcher after every commit",
                       "a generation counts as committed from the instant its TOC rename has executed",
                       "threads stand in for processes: all sharing goes through the storage layer"]
    ctx.pmap(task, tasks)
    if ctx.counters.get("capped_configs"):
        ctx.cap("%d configurations hit the execution cap before completing preemption bound 1" % ctx.counters["capped_configs"])


def replay(case):
    core.setup_process(case["cfg"].get("seed", 0))
    cfg = case["cfg"]
    expected = expected_generations(cfg)
    sch, outcome = one_run(cfg, case["choices"], expected)
    return {"ok": not outcome["problems"], "what": outcome["problems"],
            "trace": [(t, _lab(l)) for t, l in sch.trace]}
