"""C09 - scores are the documented composition of the weighting model's term
scores.  E1, two-level oracle so that nothing layout-dependent is assumed:

(1) LEAF LAW (histories without deletions).  For every posting of U(5) under
    every segment composition, every shipped weighting model / parameter set
    and four boost configurations (none, field boost, document boosts,
    field + document + per-field document boosts) the score of Term - through
    Hit.score, Results.score(n), a limited search, terms=True, stepping the
    top-level matcher and stepping the per-segment matchers - equals the
    documented formula applied to (stored weight rounded to float32, byte
    approximated field length, statistics re-derived from the corpus model),
    times the query boost; the same value under every layout.
    BM25F PARAMETER GRID: additionally every combination of default B in
    {0, 0.75, 1} x field-specific B (absent | s_B in {0, 0.4, 1} | given for
    the other fields only) x K1 in {0, 1.2} - the boundary values 0 and 1 on
    both levels, so that "not given", "given as 0" and "given for another
    field" are all told apart - on both boost extremes and four layouts.

(2) COMPOSITION LAW (all histories, incl. deletions).  For every query tree
    (depth <= 2, boosts, constant-score wrappers, multi-term expansions) over
    U(4)/U(5) and every matching document: score == compose(scores of the leaf
    queries measured on the SAME searcher); the same value through
    search(limit=None), terms=True, limited searches, filtered / masked /
    collapsed / grouped searches, stepping the matcher by hand (top level and
    per segment) and, without deletions, under every layout.
"""
import math
import struct
import traceback

from mc import core, corpus, qast

PID = "C09"
LEVEL = "exploration"

TOL = 1e-9
TOL32 = 1e-6

NARY = ("and", "or", "dismax")
BINOPS = ("andnot", "andmaybe", "require")


def f32(x):
    return struct.unpack("f", struct.pack("f", x))[0]


def close(a, b, tol=TOL):
    if a is None or b is None:
        return a is b
    if a != a or b != b:
        return False
    if a in (float("inf"), float("-inf")) or b in (float("inf"), float("-inf")):
        return a == b
    return abs(a - b) <= tol * max(1.0, abs(a), abs(b))


# ---------------------------------------------------------------------------
# corpus: U(D) of mc.corpus + an unscorable field + boosts
# ---------------------------------------------------------------------------

BOOSTCFG = {
    "plain": {"fb": 1.0, "doc": [None], "sdoc": [None]},
    "fieldboost": {"fb": 2.0, "doc": [None], "sdoc": [None]},
    "docboost": {"fb": 1.0, "doc": [None, 2.0, 1.5, None, 3.0], "sdoc": [None]},
    # 1.1 and 1.3 are not representable in float32: the stored weight is the
    # rounded one; 0.5 gives weights below 1
    # weights of at most 1.0, some below it, side by side in one posting block
    "lowboost": {"fb": 1.0, "doc": [None, 0.5, None, 0.25, 1.0], "sdoc": [None]},
    "mixed": {"fb": 1.5, "doc": [2.0, None, 1.1, None, 0.5, 1.0],
              "sdoc": [None, 3.0, None, None, 1.3]},
}
SCORABLE = {"s": True, "u": False}


def docboost(cfg, seed, i, f):
    c = BOOSTCFG[cfg]
    if f == "s":
        sd = c["sdoc"][(i + seed) % len(c["sdoc"])]
        if sd is not None:
            return sd
    d = c["doc"][(i + seed) % len(c["doc"])]
    return 1.0 if d is None else d


def make_docs(D, seed):
    docs = corpus.universe_docs(D, seed)
    for i, d in enumerate(docs):
        d["u"] = ["u%d" % (i % 2)] * (1 + (i + seed) % 3) + ["uall"]
    return docs


def make_schema(cfg):
    from whoosh import fields, analysis
    fb = BOOSTCFG[cfg]["fb"]
    return fields.Schema(
        key=fields.ID(stored=True, unique=True),
        s=fields.KEYWORD(scorable=True, field_boost=fb),
        u=fields.KEYWORD(scorable=False, field_boost=fb),
        p=fields.TEXT(analyzer=analysis.SpaceSeparatedTokenizer(), phrase=True),
        n=fields.NUMERIC(int, bits=8, signed=True, sortable=True),
        o=fields.NUMERIC(int, sortable=True),
    )


def make_to_doc(cfg, seed):
    c = BOOSTCFG[cfg]

    def to_doc(d, i):
        out = {"key": d["key"], "o": i}
        for f in ("s", "u", "p"):
            if d.get(f):
                out[f] = " ".join(d[f])
        if d.get("n") is not None:
            out["n"] = d["n"]
        db = c["doc"][(i + seed) % len(c["doc"])]
        if db is not None:
            out["_boost"] = db
        sd = c["sdoc"][(i + seed) % len(c["sdoc"])]
        if sd is not None:
            out["_s_boost"] = sd
        return out
    return to_doc


def build(D, seed, cfg, layout):
    docs = make_docs(D, seed)
    return corpus.build_index(docs, layout, schema=make_schema(cfg),
                              to_doc=make_to_doc(cfg, seed))


class Stats(object):
    """Collection statistics re-derived from the documents (no deletions)."""

    def __init__(self, docs, cfg, seed):
        from whoosh.util.numeric import length_to_byte, byte_to_length
        self.docs = docs
        self.cfg = cfg
        self.seed = seed
        self.N = len(docs)
        self.fb = BOOSTCFG[cfg]["fb"]
        self._l2b = length_to_byte
        self._b2l = byte_to_length
        self.total_override = {}

    def count(self, f, t, i):
        return self.docs[i][f].count(t)

    def weight(self, f, t, i):
        """term frequency x field boost x document boost, as float32"""
        return f32(self.count(f, t, i) * self.fb * docboost(self.cfg, self.seed, i, f))

    def postings(self, f, t):
        return [i for i in range(self.N) if t in self.docs[i].get(f, ())]

    def df(self, f, t):
        return len(self.postings(f, t))

    def cf(self, f, t):
        return sum(self.weight(f, t, i) for i in self.postings(f, t))

    def exact_length(self, f, i):
        return len(self.docs[i].get(f, ()))

    def length(self, f, i):
        """documented lossy 1-byte approximation of the field length"""
        return self._b2l(self._l2b(self.exact_length(f, i)))

    def total(self, f):
        """total number of tokens in the field (reading.field_length:
        'the total number of terms in the given field')"""
        if f in self.total_override:
            return self.total_override[f]
        return sum(self.exact_length(f, i) for i in range(self.N))

    def terms(self, f):
        out = set()
        for d in self.docs:
            out.update(d.get(f, ()))
        out.discard("pad")
        return sorted(out)


# ---------------------------------------------------------------------------
# weighting models and their reference formulas
# ---------------------------------------------------------------------------

WEIGHTINGS = ["bm25", "bm25_b0", "bm25_b1", "bm25_fieldb", "tfidf", "freq",
              "pl2", "pl2_c2", "dfree", "multi", "reverse", "function", "final"]

# name -> (kind, params)
WSPEC = {
    "bm25": ("bm25", {"B": 0.75, "K1": 1.2}),
    "bm25_b0": ("bm25", {"B": 0.0, "K1": 2.0}),
    "bm25_b1": ("bm25", {"B": 1.0, "K1": 0.5}),
    "bm25_fieldb": ("bm25", {"B": 0.75, "K1": 1.2, "fieldB": {"s": 0.1, "u": 1.0}}),
    "bm25_multi": ("bm25", {"B": 0.5, "K1": 1.5}),
    "tfidf": ("tfidf", {}),
    "freq": ("freq", {}),
    "pl2": ("pl2", {"c": 1.0}),
    "pl2_c2": ("pl2", {"c": 2.0}),
    "dfree": ("dfree", {}),
    "multi": ("multi", {"default": "tfidf", "s": "bm25_multi", "u": "freq"}),
    "reverse": ("reverse", {"inner": "bm25"}),
    "function": ("function", {}),
    "final": ("final", {"inner": "bm25"}),
}


# BM25F parameter grid: default B x field-specific B x K1, boundary values
# (0 = no length normalisation, 1 = full) on both levels.  "s" is the scorable
# field the postings are taken from, "u" has no lengths (WeightScorer whatever
# B says), "p" is never scored in the leaf law: a B given only for u/p must
# leave s on the default B.
GRID_B = (0.0, 0.75, 1.0)
GRID_FIELDB = (("none", None), ("s0", {"s": 0.0, "u": 0.75}), ("s04", {"s": 0.4}),
               ("s1", {"s": 1.0, "p": 0.0}), ("others", {"u": 0.0, "p": 1.0}))
GRID_K1 = (1.2, 0.0)
BM25_GRID = []
for _B in GRID_B:
    for _fn, _fb in GRID_FIELDB:
        for _K1 in GRID_K1:
            _name = "bm25g_B%s_%s_K%s" % (_B, _fn, _K1)
            _p = {"B": _B, "K1": _K1}
            if _fb is not None:
                _p["fieldB"] = dict(_fb)
            WSPEC[_name] = ("bm25", _p)
            BM25_GRID.append(_name)


def keyidx(searcher, docnum):
    return int(searcher.stored_fields(docnum)["key"][1:])


def _fn(searcher, fieldname, text, matcher):
    # documented signature; the searcher may be a per-segment one, so only
    # things that mean the same at both levels are used
    return (1.0 + matcher.weight() / (1.0 + keyidx(searcher, matcher.id()))
            + 0.01 * len(text))


def final_value(k, score):
    return score * (1.0 + k % 3) + 0.125 * k


def weighting(name):
    from whoosh import scoring
    kind, p = WSPEC[name]
    if kind == "bm25":
        kw = dict(("%s_B" % f, b) for f, b in p.get("fieldB", {}).items())
        return scoring.BM25F(B=p["B"], K1=p["K1"], **kw)
    if kind == "tfidf":
        return scoring.TF_IDF()
    if kind == "freq":
        return scoring.Frequency()
    if kind == "pl2":
        return scoring.PL2(c=p["c"])
    if kind == "dfree":
        return scoring.DFree()
    if kind == "multi":
        return scoring.MultiWeighting(weighting(p["default"]), s=weighting(p["s"]),
                                      u=weighting(p["u"]))
    if kind == "reverse":
        return scoring.ReverseWeighting(weighting(p["inner"]))
    if kind == "function":
        return scoring.FunctionWeighting(_fn)
    if kind == "final":
        class FinalBM25(scoring.BM25F):
            use_final = True

            def final(self, searcher, docnum, score):
                return final_value(keyidx(searcher, docnum), score)
        return FinalBM25()
    raise ValueError(name)


def formula_pinned(name, cfg):
    """Is the score of this model pinned by documentation for this boost
    configuration?  PL2/DFree use the collection frequency, documented as the
    'number of instances of the term'; with document/field boosts it is the
    total weight instead, so only layout independence is demanded there."""
    kind, p = WSPEC[name]
    if kind in ("pl2", "dfree"):
        return cfg == "plain"
    if kind == "multi":
        return all(formula_pinned(p[k], cfg) for k in ("default", "s", "u"))
    if kind in ("reverse", "final"):
        return formula_pinned(p["inner"], cfg)
    return True


def ref_term_score(name, st, f, t, i):
    """Documented score of posting (field f, term t, document i) for the
    weighting model `name`, query boost 1, before final()."""
    kind, p = WSPEC[name]
    tf = st.weight(f, t, i)
    N = st.N
    n = st.df(f, t)
    if kind == "multi":
        return ref_term_score(p.get(f, p["default"]), st, f, t, i)
    if kind == "reverse":
        return 0 - ref_term_score(p["inner"], st, f, t, i)
    if kind == "final":
        return ref_term_score(p["inner"], st, f, t, i)
    if kind == "function":
        return 1.0 + tf / (1.0 + i) + 0.01 * len(t)
    if kind == "freq":
        return tf
    idf = math.log(N / (n + 1.0)) + 1.0
    if kind == "tfidf":
        return tf * idf
    if not SCORABLE[f]:
        # WeightScorer docstring: models asked for a scorer on a field without
        # lengths return the weight
        return tf
    fl = st.length(f, i)
    avgfl = st.total(f) / float(N)
    if kind == "bm25":
        B = p.get("fieldB", {}).get(f, p["B"])
        K1 = p["K1"]
        return idf * (tf * (K1 + 1)) / (tf + K1 * ((1 - B) + B * fl / avgfl))
    # PL2 / DFree: "from Terrier", no formula in the documentation: the
    # module-level functions (whose parameters are documented one by one) are
    # applied to statistics re-derived from the model
    from whoosh import scoring
    if kind == "pl2":
        return scoring.pl2(tf, st.cf(f, t), 1, N, fl, avgfl, p["c"])
    if kind == "dfree":
        return scoring.dfree(tf, st.cf(f, t), 1, fl, st.total(f))
    raise ValueError(name)


# ---------------------------------------------------------------------------
# query ASTs: those of mc.qast plus
#   ["mt", kind, field, args, boost, constantscore]   multi-term expansions
#       kind = prefix (args [text]) | wild ([pat]) | trange ([lo, hi, le, he])
# ---------------------------------------------------------------------------

def to_q(ast):
    from whoosh import query as Q
    k = ast[0]
    if k == "mt":
        _, kind, f, args, boost, cs = ast
        if kind == "prefix":
            return Q.Prefix(f, args[0], boost=boost, constantscore=cs)
        if kind == "wild":
            return Q.Wildcard(f, args[0], boost=boost, constantscore=cs)
        if kind == "trange":
            return Q.TermRange(f, args[0], args[1], args[2], args[3], boost=boost,
                               constantscore=cs)
        raise ValueError(kind)
    if k == "nrangeb":
        _, f, lo, hi, boost, cs = ast
        return Q.NumericRange(f, lo, hi, boost=boost, constantscore=cs)
    if k in NARY:
        cls = {"and": Q.And, "or": Q.Or, "dismax": Q.DisjunctionMax}[k]
        return cls([to_q(x) for x in ast[1]])
    if k in BINOPS:
        cls = {"andnot": Q.AndNot, "andmaybe": Q.AndMaybe, "require": Q.Require}[k]
        return cls(to_q(ast[1]), to_q(ast[2]))
    if k == "boost":
        return to_q(ast[1]).with_boost(ast[2])
    if k == "const":
        return Q.ConstantScoreQuery(to_q(ast[1]), ast[2])
    return qast.to_whoosh(ast)


def strip(ast):
    """The same query as a mc.qast AST (for the reference *matching*)."""
    k = ast[0]
    if k == "mt":
        _, kind, f, args, boost, cs = ast
        return [kind, f] + list(args)
    if k == "nrangeb":
        return ["nrange", ast[1], ast[2], ast[3], False, False]
    if k in NARY:
        return [k, [strip(x) for x in ast[1]]]
    if k in BINOPS:
        return [k, strip(ast[1]), strip(ast[2])]
    if k in ("boost", "const"):
        return [k, strip(ast[1]), ast[2]]
    return ast


def children(ast):
    k = ast[0]
    if k in NARY:
        return list(ast[1])
    if k in ("boost", "const"):
        return [ast[1]]
    if k in BINOPS:
        return [ast[1], ast[2]]
    return []


def is_leaf(ast):
    return not children(ast)


def leaves(ast):
    if is_leaf(ast):
        yield ast
    else:
        for c in children(ast):
            for l in leaves(c):
                yield l


def sigshape(ast, env=None):
    """Shape used in violation signatures: the culprit's operator and the
    operators directly below it (the culprit is minimal, its children agree
    with the reference on their own)."""
    k = ast[0]

    def tag(x):
        if x[0] == "boost":
            return "boost<=0" if x[2] <= 0 else "boost"
        if x[0] == "const":
            return "const0" if x[2] == 0 else "const"
        if x[0] == "mt":
            return "multiterm"
        if x[0] in ("nrange", "nrangeb"):
            return "nrange"
        if is_leaf(x):
            return shape(x, env)
        return x[0]
    if k == "mt":
        # Prefix/Wildcard/TermRange share MultiTerm.matcher(); what matters is
        # how many terms the expansion has on this index
        n = len(env.expansion(ast)) if env is not None else -1
        return "multiterm(%s,x%s)" % ("const" if ast[5] else "scored", n if n < 3 else "3plus")
    if k in ("nrange", "nrangeb"):
        return "nrange"
    if k in NARY:
        tags = [tag(x) for x in ast[1]]
        if len(tags) >= 3:
            return "%s3plus(%s)" % (k, ",".join(sorted(set(tags))))
        return "%s(%s)" % (k, ",".join(sorted(tags)))
    if k in BINOPS:
        return "%s(%s,%s)" % (k, tag(ast[1]), tag(ast[2]))
    if k == "const":
        # what is wrapped does not matter to a constant
        return "%s(any)" % tag(ast)
    if k == "boost":
        return "%s(%s)" % (tag(ast), tag(ast[1]))
    return shape(ast, env)


def shape(ast, env=None):
    k = ast[0]
    if k in NARY:
        # the clause order of And/Or/DisMax means nothing: canonical order
        return "%s(%s)" % (k, ",".join(sorted(shape(x, env) for x in ast[1])))
    if k in BINOPS:
        return "%s(%s,%s)" % (k, shape(ast[1], env), shape(ast[2], env))
    if k == "boost":
        tag = "boost<=0" if ast[2] <= 0 else "boost"
        return "%s(%s)" % (tag, shape(ast[1], env))
    if k == "const":
        tag = "const0" if ast[2] == 0 else "const"
        return "%s(%s)" % (tag, shape(ast[1], env))
    if k == "mt":
        nx = ""
        if env is not None:
            n = len(env.expansion(ast))
            nx = ":x%s" % (n if n < 3 else "3+")
        b = "" if ast[4] == 1.0 else ":boosted"
        return "%s[%s%s%s]" % (ast[1], "const" if ast[5] else "scored", nx, b)
    if k == "nrangeb":
        return "nrange[%s%s]" % ("const" if ast[5] else "scored",
                                 "" if ast[4] == 1.0 else ":boosted")
    if k == "term":
        return "term" if ast[1] == "s" else "term:" + ast[1]
    return k


# ---------------------------------------------------------------------------
# environment of one searcher: model matching, measured leaf scores, paths
# ---------------------------------------------------------------------------

class Env(object):
    def __init__(self, s, docs, wname, D):
        self.s = s
        self.docs = docs
        self.wname = wname
        self.D = D
        self.model = qast.Model(docs, numeric=("n",))
        self.key2doc = dict((d["key"], d) for d in docs)
        self.km = {}
        r = s.reader()
        for dn in range(r.doc_count_all()):
            if not r.is_deleted(dn):
                self.km[dn] = r.stored_fields(dn)["key"]
        self.livekeys = set(d["key"] for d in docs if d.get("live", True))
        if set(self.km.values()) != self.livekeys:
            raise core.HarnessError("live documents of the index %r differ from the model %r"
                                    % (sorted(self.km.values()), sorted(self.livekeys)))
        self.use_final = WSPEC[wname][0] == "final"
        self._leaf = {}
        self._lex = {}
        self.leaf_problem = {}

    # -- model side ---------------------------------------------------------
    def matches(self, ast, dn):
        return qast.doc_matches(strip(ast), self.key2doc[self.km[dn]], self.model)

    def lexicon(self, f):
        if f not in self._lex:
            self._lex[f] = sorted(self.model.lexicon(f))
        return self._lex[f]

    def expansion(self, ast):
        q = strip(ast)
        return [t for t in self.lexicon(ast[2]) if qast.term_selected(q, t)]

    # -- measured leaf scores ------------------------------------------------
    def leaf(self, ast):
        """docnum -> score of a leaf query measured by stepping its own
        matcher on this searcher (scored context, before final())."""
        key = repr(ast)
        m = self._leaf.get(key)
        if m is None:
            m = step_top(self.s, to_q(ast))
            self._leaf[key] = m
            want = set(dn for dn in self.km if self.matches(ast, dn))
            if set(m) != want:
                self.leaf_problem[key] = (sorted(m), sorted(want))
        return m

    # -- reference ----------------------------------------------------------
    def compose(self, ast, dn):
        """Documented score of document dn for the query, None if it does not
        match.  Leaves are measured, everything above is recomputed."""
        k = ast[0]
        if k in NARY:
            vals = [self.compose(x, dn) for x in ast[1]]
            if k == "and":
                if not vals or any(v is None for v in vals):
                    return None
                return math.fsum(vals)
            vs = [v for v in vals if v is not None]
            if not vs:
                return None
            return math.fsum(vs) if k == "or" else max(vs)
        if k == "andnot":
            a = self.compose(ast[1], dn)
            if a is None or self.matches(ast[2], dn):
                return None
            return a
        if k == "require":
            a = self.compose(ast[1], dn)
            if a is None or not self.matches(ast[2], dn):
                return None
            return a
        if k == "andmaybe":
            a = self.compose(ast[1], dn)
            if a is None:
                return None
            b = self.compose(ast[2], dn)
            return a if b is None else a + b
        if k == "boost":
            v = self.compose(ast[1], dn)
            return None if v is None else v * ast[2]
        if k == "const":
            return ast[2] if self.matches(ast[1], dn) else None
        if k == "nrange":
            # NumericRange(constantscore=True) [default]: "returns a constant
            # score (the value of the boost keyword argument)"
            return 1.0 if self.matches(ast, dn) else None
        if k == "nrangeb":
            if not self.matches(ast, dn):
                return None
            # only constantscore=True numeric ranges are generated
            return ast[4]
        if k == "mt":
            if not self.matches(ast, dn):
                return None
            _, kind, f, args, boost, cs = ast
            if not cs:
                # "actually scoring the matched terms": Or of the expansion
                vs = [self.leaf(["term", f, t]).get(dn) for t in self.expansion(ast)]
                return boost * math.fsum(v for v in vs if v is not None)
            # constant x boost; the constant itself is only documented for
            # NumericRange, so it is taken from the boost-1 query's first hit
            return boost * self.mt_constant(ast)
        # term / every / phrase: measured
        v = self.leaf(ast).get(dn)
        if v is None and self.matches(ast, dn):
            return float("nan")   # the leaf itself is broken; reported there
        return v

    def mt_constant(self, ast):
        base = ["mt", ast[1], ast[2], ast[3], 1.0, True]
        key = "C" + repr(base)
        if key not in self._leaf:
            r = self.s.search(to_q(base), limit=None)
            by_doc = sorted((d, sc) for sc, d in r.top_n)
            self._leaf[key] = by_doc[0][1] if by_doc else 1.0
        return self._leaf[key]

    def reference(self, ast):
        out = {}
        for dn in self.km:
            v = self.compose(ast, dn)
            if v is not None:
                out[dn] = v
        return out

    def nontrivial(self, ast, ref):
        if not ref:
            return False
        lv = list(leaves(ast))
        if len(lv) < 2:
            return True
        for dn in ref:
            if not all(self.matches(l, dn) for l in lv):
                return True
        return False


# -- access paths -----------------------------------------------------------

def step_matcher(m, offset=0, out=None):
    out = {} if out is None else out
    guard = 0
    while m.is_active():
        dn = m.id() + offset
        if dn in out:
            out[("dup", dn)] = m.score()
        else:
            out[dn] = m.score()
        m.next()
        guard += 1
        if guard > 1000:
            raise core.HarnessError("matcher does not terminate")
    return out


def step_top(s, q, needs_current=False):
    m = q.matcher(s, s.context(needs_current=needs_current))
    return step_matcher(m)


def step_sub(s, q):
    if s.is_atomic():
        subs = [(s, 0)]
    else:
        subs = list(s.leaf_searchers())
    out = {}
    for sub, off in subs:
        m = q.matcher(sub, sub.context())
        step_matcher(m, off, out)
    # the per-segment matchers see deleted documents filtered by the reader
    return out


def has_array_matcher(m, depth=0):
    from whoosh.matching import ArrayUnionMatcher
    if isinstance(m, ArrayUnionMatcher):
        return True
    if depth > 4:
        return False
    try:
        kids = list(m.children())
    except Exception:
        return False
    return any(has_array_matcher(c, depth + 1) for c in kids)


def top_n_map(r):
    out = {}
    for sc, dn in r.top_n:
        if dn in out:
            out[("dup", dn)] = sc
        else:
            out[dn] = sc
    return out


def filt_term(mask):
    from whoosh import query as Q
    return Q.Term("s", corpus.sterm(mask))


def observe(env, q, path):
    """(docnum -> score, complete?, restrict) for one access path.  complete:
    every matching document must be present; restrict: set of docnums the
    path is allowed to return (None = all)."""
    s = env.s
    if path == "none":
        return top_n_map(s.search(q, limit=None)), True, None
    if path == "terms":
        return top_n_map(s.search(q, limit=None, terms=True)), True, None
    if path == "hits":
        r = s.search(q, limit=None)
        out = {}
        for i, h in enumerate(r):
            if not close(h.score, r.score(i)) or h.docnum != r.docnum(i):
                out[("hit!=score(n)", h.docnum)] = h.score
            out[h.docnum] = h.score
        return out, True, None
    if path in ("k1", "k2", "k3"):
        return top_n_map(s.search(q, limit=int(path[1]))), False, None
    if path == "terms_k2":
        return top_n_map(s.search(q, limit=2, terms=True)), False, None
    if path == "step":
        return step_top(s, q), True, None
    if path == "step_nc":
        return step_top(s, q, needs_current=True), True, None
    if path == "substep":
        return step_sub(s, q), True, None
    if path.startswith("filter:"):
        mask = int(path[7:])
        allow = set(dn for dn, k in env.km.items() if mask & (1 << int(k[1:])))
        return top_n_map(s.search(q, limit=None, filter=filt_term(mask))), True, allow
    if path.startswith("mask:"):
        mask = int(path[5:])
        allow = set(dn for dn, k in env.km.items() if not mask & (1 << int(k[1:])))
        return top_n_map(s.search(q, limit=None, mask=filt_term(mask))), True, allow
    if path == "collapse":
        from whoosh import sorting
        # the facet is unique per document: nothing is collapsed
        return top_n_map(s.search(q, limit=None, collapse=sorting.FieldFacet("o"),
                                  collapse_limit=1)), True, None
    if path == "grouped":
        return top_n_map(s.search(q, limit=None, groupedby="n")), True, None
    raise ValueError(path)


STEP_PATHS = ("step", "step_nc", "substep")


PATH_CLASS = {"none": "search", "hits": "search", "k1": "topk", "k2": "topk", "k3": "topk",
              "terms": "needs_current", "terms_k2": "needs_current", "step_nc": "needs_current",
              "step": "step", "substep": "substep", "filter": "filter", "mask": "filter",
              "collapse": "collapse", "grouped": "grouped", "layout": "layout", "stats": "stats"}


def path_class(path):
    return PATH_CLASS[path.split(":")[0]]


def exc_kind(e):
    tb = traceback.extract_tb(e.__traceback__)
    fr = [f for f in tb if "/whoosh/" in f.filename] or list(tb)
    where = "%s:%s" % (fr[-1].filename.split("/")[-1], fr[-1].name)
    return "exc:%s@%s" % (type(e).__name__, where), "raised %r at %s" % (e, where)


def check(env, ast, path, ref=None, tol=TOL):
    """(kind, detail) - kind None when the path agrees with the reference."""
    try:
        if ref is None:
            ref = env.reference(ast)
        q = to_q(ast)
        obs, complete, allow = observe(env, q, path)
    except core.HarnessError:
        raise
    except Exception as e:
        return exc_kind(e)
    final = env.use_final and path not in STEP_PATHS
    exp = {}
    for dn, v in ref.items():
        if allow is not None and dn not in allow:
            continue
        exp[dn] = final_value(int(env.km[dn][1:]), v) if final else v
    dups = [k for k in obs if isinstance(k, tuple)]
    if dups:
        return "duplicate", "document returned twice / inconsistent hit: %r" % (dups,)

    def show(m):
        return sorted((env.km.get(dn, "<docnum %r>" % (dn,)), v) for dn, v in m.items())
    extra = [dn for dn in obs if dn not in exp]
    if extra:
        return "extra-doc", "returned %r, reference %r" % (show(obs), show(exp))
    if complete:
        missing = [dn for dn in exp if dn not in obs]
        if missing:
            return "missing-doc", "returned %r, reference %r" % (show(obs), show(exp))
    for dn, v in obs.items():
        if not close(v, exp[dn], tol):
            return "score", ("document %s scored %r, composition of the leaf scores gives %r; "
                             "returned %r, reference %r"
                             % (env.km[dn], v, exp[dn], show(obs), show(exp)))
    return None, None


def culprit(env, ast, path):
    for c in children(ast):
        k, _ = check(env, c, path)
        if k is not None:
            return culprit(env, c, path)
    return ast


def pathset(name, D):
    """Access paths; "none" (plain search(limit=None)) comes first: when it
    already disagrees the other collectors are not asked."""
    if name == "full":
        # every document alone under a filter: its score must not depend on
        # which other documents are in the result
        singles = tuple("filter:%d" % (1 << i) for i in range(D))
        return (("none", "terms", "hits", "k1", "k2", "terms_k2", "step", "step_nc", "substep")
                + singles + ("mask:5", "collapse", "grouped"))
    if name == "mid":
        full = (1 << D) - 1
        return ("none", "terms", "k2", "step", "substep", "filter:6", "filter:%d" % (full & ~6))
    if name == "light":
        return ("none", "terms", "step")
    raise ValueError(name)


def eval_query(env, ast, paths, acc, caseinfo, refenv=None):
    acc.count("queries")
    try:
        ref = env.reference(ast)
    except core.HarnessError:
        raise
    except Exception as e:
        # measuring a leaf by stepping its matcher raised
        kind, detail = exc_kind(e)
        acc.violation("%s|%s|measure|%s" % (sigshape(ast, env), env.wname, kind),
                      dict(caseinfo, ast=ast, path="step", found_in=ast),
                      "%s weighting=%s: measuring the leaf scores %s" % (shape(ast, env), env.wname, detail))
        return
    if env.nontrivial(ast, ref):
        acc.count("distinct_nontrivial")
    for l in leaves(ast):
        if l[0] in ("mt", "nrangeb", "nrange"):
            continue
        env.leaf(l)
        prob = env.leaf_problem.get(repr(l))
        if prob:
            acc.violation("leaf:%s|%s|measure|docs" % (shape(l, env), env.wname),
                          dict(caseinfo, ast=l, path="step", found_in=ast),
                          "leaf %r stepped by hand matches docnums %r, reference %r" % (l, prob[0], prob[1]))
    base_failed = False
    for path in paths:
        if base_failed:
            # the plain search already disagrees: the other collectors would
            # only repeat it
            acc.count("paths_masked_by_plain_search_failure")
            continue
        acc.count("evaluations")
        kind, detail = check(env, ast, path, ref)
        if kind is None:
            continue
        if path == "none":
            base_failed = True
        cu = culprit(env, ast, path)
        ck, cdetail = check(env, cu, path)
        if ck is None:      # cannot happen: culprit() only descends into failing children
            cu, ck, cdetail = ast, kind, detail
        pc = path_class(path)
        rpath = path
        if path != "none":
            # a culprit that is already wrong under the plain search is that bug
            bk, bdetail = check(env, cu, "none")
            if bk is not None:
                pc, ck, cdetail, rpath = "search", bk, bdetail, "none"
        acc.violation("%s|%s|%s|%s" % (sigshape(cu, env), env.wname, pc, ck),
                      dict(caseinfo, ast=cu, path=rpath, found_in=ast),
                      "%s weighting=%s path=%s: %s" % (shape(cu, env), env.wname, rpath, cdetail))
    if refenv is not None and not base_failed:
        # without deletions the score of a document is the same under every layout
        acc.count("evaluations")
        acc.count("layout_comparisons")
        bad = layout_diff(env, refenv, ast)
        if bad:
            # shrink: descend while a child already differs
            cu = ast
            progress = True
            while progress:
                progress = False
                for c in children(cu):
                    if layout_diff(env, refenv, c):
                        cu = c
                        progress = True
                        break
            bad, a, b = layout_diff(env, refenv, cu)
            acc.violation("%s|%s|layout|score" % (sigshape(cu, env), env.wname),
                          dict(caseinfo, ast=cu, path="layout", found_in=ast),
                          "%s weighting=%s: scores differ between this layout and the single-segment "
                          "index for documents %r: %r vs %r" % (shape(cu, env), env.wname, bad,
                                                                sorted(a.items()), sorted(b.items())))


def keyed_scores(env, ast):
    """stored key -> score under search(limit=None)"""
    return dict((env.km.get(dn, dn), v)
                for dn, v in top_n_map(env.s.search(to_q(ast), limit=None)).items()
                if not isinstance(dn, tuple))


def layout_diff(env, refenv, ast):
    """None when both indexes give every document the same score"""
    try:
        a = keyed_scores(env, ast)
        b = keyed_scores(refenv, ast)
    except Exception:
        return None    # exceptions are reported by the access paths
    bad = sorted(k for k in set(a) | set(b) if not close(a.get(k), b.get(k), TOL32))
    return (bad, a, b) if bad else None


# ---------------------------------------------------------------------------
# query families
# ---------------------------------------------------------------------------

def T(m):
    return ["term", "s", corpus.sterm(m)]


def red(D):
    full = (1 << D) - 1
    if D == 4:
        return [0b1111, 0b0101, 0b1010, 0b0011, 0b0110, 0b1000]
    return [full, 0b10101 & full, 0b01010 & full, 0b00111, 0b11000 & full, 0b00001, 0b01100]


def opaque_leaves():
    return [["every"], ["everyf", "s"], ["phrase", "p", ["x", "y"], 2], ["phrase", "p", ["y", "x"], 1],
            ["nrange", "n", -1, 64, False, False], ["nrange", "n", None, 0, False, False],
            ["term", "u", "u0"], ["term", "u", "uall"]]


def mt_leaves(D):
    """Multi-term leaves over field s (terms s01 .. s<2^D-1>): expansions to
    1, 2 and >= 3 terms, constant and scored, with and without boost."""
    top = (1 << D) - 1
    specs = []
    if D == 4:
        specs += [("prefix", ["s15"]),            # 1 term
                  ("prefix", ["s07"]),            # 1 term, proper subset of docs
                  ("trange", ["s14", "s15", False, False]),   # 2 terms
                  ("trange", ["s05", "s06", False, False]),   # 2 terms
                  ("prefix", ["s1"]),             # 6 terms (s10..s15)
                  ("trange", ["s05", "s07", False, False]),   # 3 terms
                  ("wild", ["s0?"]),              # 9 terms
                  ("wild", ["s?5"]),              # s05, s15
                  ("prefix", ["s9"])]             # nothing
    else:
        specs += [("prefix", ["s31"]), ("prefix", ["s07"]),
                  ("prefix", ["s3"]),             # s30, s31
                  ("trange", ["s05", "s06", False, False]),
                  ("prefix", ["s1"]),             # 10 terms
                  ("trange", ["s05", "s07", False, False]),
                  ("wild", ["s?5"]),              # s05 s15 s25
                  ("prefix", ["s9"])]
    out = []
    for kind, args in specs:
        for boost in (1.0, 2.0, 0.5):
            for cs in (True, False):
                out.append(["mt", kind, "s", args, boost, cs])
    for lo, hi in ((-1, 127), (5, 5), (0, 5), (-128, 127), (100, 120)):
        for boost in (1.0, 2.0):
            out.append(["nrangeb", "n", lo, hi, boost, True])
    return out


BOOSTPAT2 = ((2.0, 1.0, 1.0), (1.0, 0.5, 1.0), (1.0, 1.0, 3.0), (0.25, 4.0, 2.0))


def bz(x, f):
    return x if f == 1.0 else ["boost", x, f]


def gen(family, D):
    allm = list(range(0, 1 << D))
    nz = list(range(1, 1 << D))
    R = red(D)
    if family == "leaf":
        for m in allm:
            yield T(m)
        for m in nz:
            for f in (2.5, 0.5):
                yield ["boost", T(m), f]
        for m in nz:
            yield ["const", T(m), 0.7]
        for l in opaque_leaves():
            yield l
            yield ["boost", l, 2.0]
            yield ["const", l, 3.0]
    elif family == "two":
        for op in NARY:
            for a in allm:
                for b in allm:
                    yield [op, [T(a), T(b)]]
        for op in BINOPS:
            for a in allm:
                for b in allm:
                    yield [op, T(a), T(b)]
    elif family == "two_red":
        for op in NARY:
            for a in R:
                for b in R:
                    yield [op, [T(a), T(b)]]
        for op in BINOPS:
            for a in R:
                for b in R:
                    yield [op, T(a), T(b)]
    elif family == "three":
        for op in NARY:
            for a in nz:
                for b in nz:
                    for c in nz:
                        yield [op, [T(a), T(b), T(c)]]
    elif family == "three_red":
        for op in NARY:
            for a in R:
                for b in R:
                    for c in R:
                        yield [op, [T(a), T(b), T(c)]]
        for a in R:
            for b in R:
                for c in R:
                    yield ["or", [T(a), T(b), T(c), T(R[1])]]
    elif family in ("boost2", "boost2_red"):
        ms = nz if family == "boost2" else R
        for op in NARY:
            for a in ms:
                for b in ms:
                    for fa, fb, fo in BOOSTPAT2:
                        yield bz([op, [bz(T(a), fa), bz(T(b), fb)]], fo)
        for op in BINOPS:
            for a in ms:
                for b in ms:
                    for fa, fb, fo in BOOSTPAT2:
                        if fo != 1.0 and (fa != 1.0 or fb != 1.0):
                            # with_boost() on a binary query is documented to
                            # SET the boost of its operands: boosts below it
                            # would be overwritten, so none are put there
                            fo = 1.0
                        yield bz([op, bz(T(a), fa), bz(T(b), fb)], fo)
    elif family == "boost3":
        for op in NARY:
            for a in R:
                for b in R:
                    for c in R:
                        yield [op, [bz(T(a), 2.0), T(b), bz(T(c), 0.5)]]
                        yield ["boost", [op, [T(a), bz(T(b), 3.0), T(c)]], 2.0]
    elif family == "zero":
        # boosts of 0 and negative boosts ("arbitrary boosts")
        for f in (0.0, -1.0):
            for a in R:
                yield ["boost", T(a), f]
                for b in R:
                    for op in NARY:
                        yield [op, [["boost", T(a), f], T(b)]]
                        yield [op, [T(a), ["boost", T(b), f]]]
                        yield ["boost", [op, [T(a), T(b)]], f]
                    yield ["andmaybe", T(a), ["boost", T(b), f]]
                    yield ["andmaybe", ["boost", T(a), f], T(b)]
                    yield ["andnot", ["boost", T(a), f], T(b)]
                    yield ["require", ["boost", T(a), f], T(b)]
                    for c in R:
                        for op in NARY:
                            yield [op, [["boost", T(a), f], T(b), T(c)]]
                            yield [op, [T(a), T(b), ["boost", T(c), f]]]
        for a in R:
            yield ["const", T(a), 0.0]
            yield ["const", T(a), -2.0]
            for b in R:
                for c in R:
                    yield ["or", [["const", T(a), 0.0], T(b), T(c)]]
    elif family == "const":
        for a in nz:
            for b in nz:
                for op in NARY:
                    yield [op, [["const", T(a), 0.7], T(b)]]
                    yield [op, [T(a), ["const", T(b), 0.7]]]
                    yield ["const", [op, [T(a), T(b)]], 1.5]
                for op in BINOPS:
                    yield [op, ["const", T(a), 0.7], T(b)]
                    yield [op, T(a), ["const", T(b), 0.7]]
                    yield ["const", [op, T(a), T(b)], 1.5]
        for a in R:
            for b in R:
                for c in R:
                    for op in NARY:
                        yield [op, [["const", T(a), 0.7], T(b), T(c)]]
                        yield [op, [T(a), T(b), ["const", T(c), 2.0]]]
    elif family == "opaque":
        for l in opaque_leaves():
            for a in nz:
                for op in NARY:
                    yield [op, [T(a), l]]
                    yield [op, [l, T(a)]]
                for op in BINOPS:
                    yield [op, T(a), l]
                    yield [op, l, T(a)]
            for a in R:
                for b in R:
                    for op in NARY:
                        yield [op, [T(a), l, T(b)]]
    elif family in ("nested", "nested_boost", "nested4", "nested_boost4"):
        if family.endswith("4"):
            R = R[:4]
        wrap = (lambda x: x) if family.startswith("nested_boost") is False else (lambda x: ["boost", x, 2.0])
        for outer in NARY + BINOPS:
            for inner in NARY + BINOPS:
                for a in R:
                    for b in R:
                        for c in R:
                            i = [inner, [T(a), T(b)]] if inner in NARY else [inner, T(a), T(b)]
                            i = wrap(i)
                            if outer in NARY:
                                yield [outer, [i, T(c)]]
                                yield [outer, [T(c), i]]
                            else:
                                yield [outer, i, T(c)]
                                yield [outer, T(c), i]
    elif family == "nested3":
        # three clauses, one of them a tree
        R4 = R[:4]
        for outer in NARY:
            for inner in NARY + BINOPS:
                for a in R4:
                    for b in R4:
                        for c in R4:
                            for d in R4:
                                i = [inner, [T(a), T(b)]] if inner in NARY else [inner, T(a), T(b)]
                                yield [outer, [T(c), i, T(d)]]
    elif family == "multiterm":
        ml = mt_leaves(D)
        for l in ml:
            yield l
        for l in ml:
            if l[0] == "mt" and l[4] == 0.5:
                continue
            for a in R[:3]:
                yield ["or", [T(a), l]]
                yield ["and", [l, T(a)]]
                yield ["andmaybe", T(a), l]
                yield ["or", [T(a), l, T(R[3])]]
    else:
        raise ValueError(family)


# ---------------------------------------------------------------------------
# tasks
# ---------------------------------------------------------------------------

def leaf_task(t):
    """Leaf law: (D, seed, cfg, layout) x every weighting x every posting."""
    _, D, seed, cfg, layout, wnames = t
    from whoosh import query as Q
    acc = core.Acc()
    docs0 = make_docs(D, seed)
    st = Stats(docs0, cfg, seed)
    ix, docs = build(D, seed, cfg, layout)
    single = layout["segs"] == [D] and not layout.get("optimize")
    ix0 = None
    tol = TOL if cfg == "plain" else TOL32
    try:
        if not single:
            ix0, _ = build(D, seed, cfg, {"segs": [D]})
        terms = [("s", x) for x in st.terms("s")] + [("u", x) for x in st.terms("u")]
        stats_differ = False
        for wname in wnames:
            pinned = formula_pinned(wname, cfg)
            s0 = ix0.searcher(weighting=weighting(wname)) if ix0 is not None else None
            with ix.searcher(weighting=weighting(wname)) as s:
                env = Env(s, docs, wname, D)
                key2dn = dict((k, dn) for dn, k in env.km.items())
                nseg = len(list(s.leaf_searchers())) if not s.is_atomic() else 1
                if nseg != (1 if layout.get("optimize") else len(layout["segs"])):
                    raise core.HarnessError("layout %r produced %d segments" % (layout, nseg))
                # statistics the formulas rest on (documented accessors)
                for f in ("s",):
                    acc.count("evaluations")
                    st.total_override.pop(f, None)
                    got = (s.doc_count_all(), s.field_length(f),
                           [s.doc_field_length(key2dn["k%d" % i], f) for i in range(D)])
                    want = (st.N, st.total(f), [st.length(f, i) for i in range(D)])
                    if got != want:
                        only_total = got[0] == want[0] and got[2] == want[2]
                        if wname == wnames[0]:
                            acc.violation("stats|%s" % ("total-field-length" if only_total else "lengths"),
                                          {"kind": "leaf", "D": D, "seed": seed, "cfg": cfg, "layout": layout,
                                           "weighting": wname, "field": f, "term": None, "qboost": 1.0,
                                           "path": "stats"},
                                          "layout %r: (doc count, total field length, per-document field lengths) "
                                          "of field %s = %r, the documents give %r" % (layout, f, got, want))
                        if only_total:
                            # keep checking everything else: the formulas are
                            # evaluated with the total the index reports, and
                            # the comparison with the single-segment index
                            # (which must differ then) is skipped
                            st.total_override[f] = got[1]
                            stats_differ = True
                for f, text in terms:
                    post = st.postings(f, text)
                    base = dict((key2dn["k%d" % i], ref_term_score(wname, st, f, text, i)) for i in post)
                    for v in base.values():
                        if v != v or v in (float("inf"), float("-inf")):
                            raise core.HarnessError("reference score not finite: %s %s %s" % (wname, f, text))
                    ref0 = None
                    if s0 is not None:
                        r0 = s0.search(Q.Term(f, text), limit=None)
                        ref0 = dict((r0.searcher.stored_fields(dn)["key"], sc) for sc, dn in r0.top_n)
                    for qb in (1.0, 2.5, 0.5):
                        ast = ["term", f, text] if qb == 1.0 else ["boost", ["term", f, text], qb]
                        acc.count("queries")
                        acc.count("distinct_nontrivial")
                        case = {"kind": "leaf", "D": D, "seed": seed, "cfg": cfg, "layout": layout,
                                "weighting": wname, "field": f, "term": text, "qboost": qb}
                        base_failed = False
                        for path in ("hits", "k2", "terms", "step", "step_nc", "substep"):
                            if base_failed:
                                acc.count("paths_masked_by_plain_search_failure")
                                continue
                            acc.count("evaluations")
                            if pinned:
                                ref = dict((dn, v * qb) for dn, v in base.items())
                                what = "documented formula"
                            else:
                                # formula not pinned: the paths must agree with
                                # each other (reference: search(limit=None))
                                ref = dict(top_n_map(s.search(to_q(ast), limit=None)))
                                if env.use_final and path in STEP_PATHS:
                                    continue
                                what = "search(limit=None)"
                            kind, detail = check(env, ast, path, ref, tol)
                            if kind is not None:
                                if path == "hits":
                                    base_failed = True
                                acc.violation("leaf:%s|%s|%s|%s|%s" % (shape(["term", f, text]), wname,
                                                                        "noboost" if cfg == "plain" else "boosted",
                                                                        path_class(path), kind),
                                              dict(case, path=path),
                                              "Term(%r, %r) boost=%s weighting=%s boosts=%s layout=%r path=%s vs %s: %s"
                                              % (f, text, qb, wname, cfg, layout["segs"], path, what, detail))
                        if base_failed:
                            continue
                        if ref0 is not None and qb == 1.0 and stats_differ:
                            acc.count("layout_comparisons_masked_by_stats_violation")
                        elif ref0 is not None and qb == 1.0:
                            acc.count("evaluations")
                            acc.count("layout_comparisons")
                            got = dict((env.km[dn], sc) for dn, sc in top_n_map(s.search(Q.Term(f, text), limit=None)).items())
                            bad = sorted(k for k in set(got) | set(ref0) if not close(got.get(k), ref0.get(k), TOL32))
                            if bad:
                                acc.violation("leaf:%s|%s|%s|layout|score" % (shape(["term", f, text]), wname,
                                                                             "noboost" if cfg == "plain" else "boosted"),
                                              dict(case, path="layout"),
                                              "Term(%r, %r) weighting=%s boosts=%s: layout %r gives %r, single segment gives %r"
                                              % (f, text, wname, cfg, layout["segs"], sorted(got.items()), sorted(ref0.items())))
            if s0 is not None:
                s0.close()
        acc.sample({"kind": "leaf", "D": D, "cfg": cfg, "layout": layout, "weightings": list(wnames),
                    "postings": sum(len(st.postings(f, x)) for f, x in terms)})
    finally:
        corpus.destroy_index(ix)
        if ix0 is not None:
            corpus.destroy_index(ix0)
    return acc.result()


def comp_task(t):
    """Composition law: (D, seed, cfg, layout, weighting, family, slices, paths)."""
    _, D, seed, cfg, layout, wname, family, nsl, sl, pathset_name = t
    acc = core.Acc()
    ix, docs = build(D, seed, cfg, layout)
    ix0 = None
    s0 = None
    try:
        nodel = not layout.get("deleted")
        single = layout["segs"] == [D]
        if nodel and not single:
            ix0, docs0 = build(D, seed, cfg, {"segs": [D]})
            s0 = ix0.searcher(weighting=weighting(wname))
        paths = pathset(pathset_name, D)
        caseinfo = {"kind": "comp", "D": D, "seed": seed, "cfg": cfg, "layout": layout,
                    "weighting": wname}
        with ix.searcher(weighting=weighting(wname)) as s:
            env = Env(s, docs, wname, D)
            refenv = Env(s0, docs0, wname, D) if s0 is not None else None
            for i, ast in enumerate(gen(family, D)):
                if i % nsl != sl:
                    continue
                eval_query(env, ast, paths, acc, caseinfo, refenv)
                if not is_leaf(ast) and i % 97 == 0:
                    try:
                        if has_array_matcher(to_q(ast).matcher(s, s.context())):
                            acc.count("array_union_matcher_seen_in_sampled_trees")
                    except Exception:
                        pass
                if i % 3001 == 11:
                    acc.sample({"kind": "comp", "D": D, "layout": layout, "weighting": wname,
                                "ast": ast, "paths": list(paths)})
    finally:
        if s0 is not None:
            s0.close()
        corpus.destroy_index(ix)
        if ix0 is not None:
            corpus.destroy_index(ix0)
    return acc.result()


def task(t):
    if t[0] == "leaf":
        return leaf_task(t)
    return comp_task(t)


# ---------------------------------------------------------------------------
# plan
# ---------------------------------------------------------------------------

def leaf_layouts(D):
    out = [{"segs": c} for c in corpus.compositions(D)]
    out.append({"segs": [2, D - 2], "optimize": True})
    out.append({"segs": [1, D - 2, 1], "storage": "file", "blocklimit": 1})
    out.append({"segs": [D - 1, 1], "storage": "file_nommap", "compound": False, "blocklimit": 2})
    return out


def comp_layouts(D, tier):
    """every composition without deletions + a deletion family"""
    out = [{"segs": c} for c in corpus.compositions(D)]
    if D == 4:
        dels = [([4], [1]), ([4], [0, 3]), ([2, 2], [0]), ([2, 2], [1, 2]), ([1, 3], [0]),
                ([3, 1], [2, 3]), ([1, 1, 1, 1], [3]), ([1, 2, 1], [1])]
    else:
        dels = [([5], [2]), ([2, 3], [0, 4]), ([3, 2], [2, 3]), ([1, 1, 1, 1, 1], [0]),
                ([4, 1], [4]), ([1, 4], [1, 2])]
    if tier == "thorough" and D == 4:
        import itertools
        dels = []
        for c in corpus.compositions(D):
            for r in (1, 2):
                for de in itertools.combinations(range(D), r):
                    dels.append((c, list(de)))
    dl = [{"segs": segs, "deleted": de} for segs, de in dels]
    dl.append({"segs": [2, D - 2], "deleted": [1], "optimize": True})
    dl.append({"segs": [1, D - 1], "deleted": [0], "blocklimit": 1, "storage": "file"})
    # interleave so that a rotated subset holds both kinds
    mixed = []
    for i in range(max(len(out), len(dl))):
        if i < len(out):
            mixed.append(out[i])
        if i < len(dl):
            mixed.append(dl[i])
    return mixed


def run(ctx):
    seed = ctx.seed
    tasks = []
    quick = ctx.tier == "quick"
    # ---- leaf law -----------------------------------------------------------
    D = 5
    lls = leaf_layouts(D)
    for cfg in ("plain", "fieldboost", "docboost", "lowboost", "mixed"):
        for lay in lls:
            tasks.append(("leaf", D, seed, cfg, lay, WEIGHTINGS))
    if not quick:
        for cfg in ("plain", "mixed"):
            for lay in leaf_layouts(6):
                tasks.append(("leaf", 6, seed, cfg, lay, WEIGHTINGS[:7]))
                tasks.append(("leaf", 6, seed, cfg, lay, WEIGHTINGS[7:]))
    # BM25F parameter grid (default B x field-specific B x K1, see BM25_GRID)
    grid_layouts = [{"segs": [D]}, {"segs": [2, D - 2]}, {"segs": [1] * D},
                    {"segs": [1, D - 2, 1], "storage": "file", "blocklimit": 1}]
    grid_cfgs = ("plain", "mixed") if quick else ("plain", "fieldboost", "docboost", "mixed")
    for cfg in grid_cfgs:
        for lay in (grid_layouts if quick else lls):
            for j in range(0, len(BM25_GRID), 10):
                tasks.append(("leaf", D, seed, cfg, lay, BM25_GRID[j:j + 10]))
    # ---- composition law ----------------------------------------------------
    plan = []   # (D, cfg, weighting, family, pathset, layout selector)
    W_MAIN = "bm25"
    W_OTHER = ["reverse", "final", "freq", "function", "pl2", "tfidf"]
    if quick:
        plan += [(4, "plain", W_MAIN, "leaf", "full", "all"),
                 (4, "plain", W_MAIN, "two", "light", "all"),
                 (4, "plain", W_MAIN, "two_red", "full", "rot2"),
                 (4, "plain", W_MAIN, "three", "light", "rot9"),
                 (4, "plain", W_MAIN, "three_red", "mid", "rot6"),
                 (4, "plain", W_MAIN, "boost2_red", "mid", "rot6"),
                 (4, "plain", W_MAIN, "boost3", "light", "rot6"),
                 (4, "plain", W_MAIN, "zero", "light", "rot9"),
                 (4, "plain", W_MAIN, "const", "light", "rot9"),
                 (4, "plain", W_MAIN, "opaque", "light", "rot9"),
                 (4, "plain", W_MAIN, "nested4", "light", "rot9"),
                 (4, "plain", W_MAIN, "nested_boost4", "light", "rot9"),
                 (4, "plain", W_MAIN, "nested3", "light", "rot9"),
                 (4, "plain", W_MAIN, "multiterm", "mid", "rot3"),
                 (5, "plain", W_MAIN, "two", "light", "rot12"),
                 (5, "plain", W_MAIN, "three_red", "light", "rot6"),
                 (5, "mixed", W_MAIN, "two_red", "full", "rot12"),
                 (5, "plain", W_MAIN, "multiterm", "light", "rot12")]
        for w in W_OTHER:
            plan += [(4, "plain", w, "leaf", "full", "rot6"),
                     (4, "plain", w, "two_red", "mid", "rot3"),
                     (4, "plain", w, "three_red", "light", "rot6"),
                     (4, "plain", w, "boost2_red", "light", "rot9")]
        plan += [(4, "plain", "reverse", "two", "light", "rot6"),
                 (4, "plain", "reverse", "zero", "light", "rot18"),
                 (4, "plain", "final", "two", "light", "rot9"),
                 (4, "plain", "freq", "multiterm", "light", "rot9")]
    else:
        # "x:" = the extended index family (every deletion subset of size 1-2 x
        # every composition for D=4)
        plan += [(4, "plain", W_MAIN, "leaf", "full", "x:all"),
                 (4, "plain", W_MAIN, "two", "full", "all"),
                 (4, "plain", W_MAIN, "two", "light", "x:all"),
                 (4, "plain", W_MAIN, "three", "light", "rot2"),
                 (4, "plain", W_MAIN, "three_red", "mid", "all"),
                 (4, "plain", W_MAIN, "boost2", "mid", "rot3"),
                 (4, "plain", W_MAIN, "boost2_red", "mid", "all"),
                 (4, "plain", W_MAIN, "boost3", "mid", "all"),
                 (4, "plain", W_MAIN, "zero", "light", "all"),
                 (4, "plain", W_MAIN, "const", "mid", "rot2"),
                 (4, "plain", W_MAIN, "opaque", "mid", "rot2"),
                 (4, "plain", W_MAIN, "nested", "light", "rot2"),
                 (4, "plain", W_MAIN, "nested_boost", "light", "rot3"),
                 (4, "plain", W_MAIN, "nested3", "light", "rot2"),
                 (4, "plain", W_MAIN, "multiterm", "full", "all"),
                 (4, "plain", W_MAIN, "multiterm", "light", "x:all"),
                 (5, "plain", W_MAIN, "two", "mid", "rot3"),
                 (5, "plain", W_MAIN, "three_red", "mid", "all"),
                 (5, "mixed", W_MAIN, "two_red", "full", "all"),
                 (5, "plain", W_MAIN, "multiterm", "mid", "rot3")]
        for w in W_OTHER:
            plan += [(4, "plain", w, "leaf", "full", "all"),
                     (4, "plain", w, "two", "mid", "rot2"),
                     (4, "plain", w, "two_red", "full", "all"),
                     (4, "plain", w, "three_red", "mid", "all"),
                     (4, "plain", w, "boost2_red", "mid", "rot2"),
                     (4, "plain", w, "const", "light", "rot6"),
                     (4, "plain", w, "nested4", "light", "rot6"),
                     (5, "plain", w, "three_red", "light", "rot3")]
        plan += [(4, "plain", "reverse", "zero", "light", "rot3"),
                 (4, "plain", "freq", "multiterm", "mid", "rot2"),
                 (4, "plain", "final", "multiterm", "mid", "rot3")]
    cost_ms = {"full": 22.0, "mid": 10.0, "light": 4.5}
    sizes = {}
    nvar = 0
    rotc = 0
    for D, cfg, w, family, pathset, sel in plan:
        if (family, D) not in sizes:
            sizes[(family, D)] = sum(1 for _ in gen(family, D))
        nsl = max(1, int(round(sizes[(family, D)] * cost_ms[pathset] / 4000.0)))
        if sel.startswith("x:"):
            sel = sel[2:]
            lays = comp_layouts(D, "thorough")
        else:
            lays = comp_layouts(D, "quick")
        for li, lay in enumerate(lays):
            if sel.startswith("rot"):
                m = int(sel[3:])
                # 1/m of the index variants per (family, weighting), rotated so
                # that the families meet different variants
                if (li + rotc + seed) % m != 0:
                    continue
            nvar += 1
            for sl in range(nsl):
                tasks.append(("comp", D, seed, cfg, lay, w, family, nsl, sl, pathset))
        rotc += 1
    ctx.extra["family_sizes"] = dict(("%s/U(%d)" % k, v) for k, v in sizes.items())
    ctx.extra["composition_searchers"] = nvar
    ctx.extra["leaf_index_variants"] = len(lls) * 4
    ctx.extra["composition_index_variants_D4"] = len(comp_layouts(4, "quick"))
    ctx.extra["composition_index_variants_D5"] = len(comp_layouts(5, "quick"))
    if not quick:
        ctx.extra["composition_index_variants_D4_extended"] = len(comp_layouts(4, "thorough"))
    ctx.extra["weightings"] = WEIGHTINGS
    ctx.extra["bm25f_parameter_grid"] = {"default_B": list(GRID_B), "K1": list(GRID_K1),
                                         "field_B": dict((k, v) for k, v in GRID_FIELDB),
                                         "configurations": len(BM25_GRID),
                                         "boost_configurations": list(grid_cfgs),
                                         "layouts": len(grid_layouts if quick else lls)}
    ctx.extra["tasks"] = len(tasks)
    ctx.rule = (
        "leaf law: every posting (term, document) of U(5) (fields s scorable, u unscorable) x query boost "
        "{1, 2.5, 0.5} x 13 weighting configurations x 4 boost configurations x every segment composition of 5 "
        "documents (+ optimised, file storage, loose files) x 6 access paths, against the documented formula on "
        "statistics re-derived from the documents, and against the single-segment index; "
        "BM25F parameter grid (leaf law, same postings, boosts and paths): every combination of default B {0, 0.75, 1} x "
        "field-specific B {absent, s_B=0 (+u_B), s_B=0.4, s_B=1 (+p_B), given for the fields u and p only} x K1 {1.2, 0} "
        "= %d configurations x boost configurations %s x %d layouts; "
        "composition law: every query tree of the families leaf/two/three/boost/zero/const/opaque/nested/"
        "multiterm over U(4)/U(5) (all posting-list alignments for <=3 clauses, 6 representative masks for depth 2) "
        "x every segment composition + a deletion family x weighting x access path, against compose(leaf scores "
        "measured on the same searcher) and (no deletions) against the single-segment index; the plain "
        "search(limit=None) is asked first and, when it already disagrees, the other access paths are not asked "
        "(counted as paths_masked_by_plain_search_failure); a query is counted non-trivial when it matches a "
        "document and, for composites, some matching document is matched by a proper subset of the leaves "
        "(unaligned children); leaf-law postings all count; enumerated without repetition"
        % (len(BM25_GRID), "/".join(grid_cfgs), len(grid_layouts if quick else lls)))
    ctx.assumptions = [
        "idf = log(N/(df+1))+1 with N = doc_count_all(); BM25F = idf*tf*(K1+1)/(tf+K1*(1-B+B*fl/avgfl)); "
        "TF_IDF = tf*idf; Frequency = tf; tf is the stored weight (frequency x field boost x document boost) as float32; "
        "fl = byte_to_length(length_to_byte(number of tokens)); avgfl = total tokens / N",
        "BM25F(fieldname_B=x) ('set field-specific values for B'): the field is scored with B = x whatever x is (0 "
        "included: no length normalisation), every other field with the default B; B and K1 range over [0, 1] and "
        "[0, inf) as in the BM25 literature the docstring refers to (K1 = 0: the score is the idf)",
        "PL2 and DFree are documented only as 'from Terrier': whoosh.scoring.pl2/dfree (parameters documented "
        "one by one) are applied to statistics re-derived from the model on the boost-free corpus; with field/"
        "document boosts only agreement between access paths and layouts is demanded",
        "fields without lengths: length-based models score with the weight (WeightScorer docstring)",
        "constantscore=True on Prefix/Wildcard/TermRange is read as 'a constant times the boost' (the constant "
        "taken from the boost-1 query's first hit under search(limit=None)); NumericRange: the documented "
        "'value of the boost keyword argument'",
        "Every/Phrase/Not scores are not documented: measured as opaque leaves; Or(scale=) and DisjunctionMax "
        "tiebreak != 0 are out of scope",
        "relative tolerance 1e-9 (1e-6 where float32 weights or cross-layout float32 statistics are involved)",
        "with_boost() on AndNot/AndMaybe/Require is documented to SET the boost of the operands, so boosted "
        "binary queries are only built over unboosted operands",
        "when an index reports a total field length different from the token count of its documents (reported "
        "once as stats|total-field-length) the formulas are evaluated with the reported total so that the other "
        "quantities are still checked",
    ]
    ctx.pmap(task, tasks)
    if ctx.counters.get("layout_comparisons", 0) < 1000:
        raise core.HarnessError("vacuous: too few layout comparisons")
    if ctx.counters.get("array_union_matcher_seen_in_sampled_trees", 0) < 10:
        raise core.HarnessError("vacuous: ArrayUnionMatcher never engaged")


# ---------------------------------------------------------------------------
# replay
# ---------------------------------------------------------------------------

def replay(case):
    core.setup_process(case.get("seed", 0))
    D, seed, cfg, layout, wname = case["D"], case.get("seed", 0), case["cfg"], case["layout"], case["weighting"]
    ix, docs = build(D, seed, cfg, layout)
    out = {"layout": layout, "weighting": wname, "boosts": cfg, "path": case["path"]}
    try:
        with ix.searcher(weighting=weighting(wname)) as s:
            env = Env(s, docs, wname, D)
            if case["kind"] == "leaf":
                st = Stats(make_docs(D, seed), cfg, seed)
                key2dn = dict((k, dn) for dn, k in env.km.items())
                f, text, qb = case["field"], case["term"], case["qboost"]
                if case["path"] == "stats":
                    got = (s.doc_count_all(), s.field_length(f),
                           [s.doc_field_length(key2dn["k%d" % i], f) for i in range(D)])
                    want = (st.N, st.total(f), [st.length(f, i) for i in range(D)])
                    out.update(ok=got == want, what="(doc count, total field length, per-document lengths) "
                               "%r, the documents give %r" % (got, want))
                    return out
                tot = s.field_length(f) if f in SCORABLE and SCORABLE[f] else None
                if tot is not None and tot != st.total(f):
                    # known separately as stats|total-field-length: the other
                    # quantities are checked against the total the index reports
                    out["note"] = "total field length reported %r, documents give %r" % (tot, st.total(f))
                    st.total_override[f] = tot
                ast = ["term", f, text] if qb == 1.0 else ["boost", ["term", f, text], qb]
                out["query"] = repr(to_q(ast))
                if case["path"] == "layout":
                    ix0, _ = build(D, seed, cfg, {"segs": [D]})
                    with ix0.searcher(weighting=weighting(wname)) as s0:
                        r0 = s0.search(to_q(ast), limit=None)
                        ref0 = dict((s0.stored_fields(dn)["key"], sc) for sc, dn in r0.top_n)
                    got = dict((env.km[dn], sc) for dn, sc in top_n_map(s.search(to_q(ast), limit=None)).items())
                    bad = sorted(k for k in set(got) | set(ref0) if not close(got.get(k), ref0.get(k), TOL32))
                    out.update(ok=not bad, what="this layout %r, single segment %r" % (sorted(got.items()), sorted(ref0.items())))
                    return out
                tol = TOL if cfg == "plain" else TOL32
                if formula_pinned(wname, cfg):
                    ref = dict((key2dn["k%d" % i], qb * ref_term_score(wname, st, f, text, i))
                               for i in st.postings(f, text))
                else:
                    ref = dict(top_n_map(s.search(to_q(ast), limit=None)))
                kind, detail = check(env, ast, case["path"], ref, tol)
                out.update(ok=kind is None, kind=kind, what=detail or "agrees with the reference",
                           reference=sorted((env.km[dn], v) for dn, v in ref.items()))
                return out
            ast = case["ast"]
            out["query"] = repr(to_q(ast))
            if case["path"] == "layout":
                ix0, docs0 = build(D, seed, cfg, {"segs": [D]})
                try:
                    with ix0.searcher(weighting=weighting(wname)) as s0:
                        d = layout_diff(env, Env(s0, docs0, wname, D), ast)
                finally:
                    corpus.destroy_index(ix0)
                out.update(ok=d is None, what="same scores as on the single-segment index" if d is None else
                           "documents %r: this layout %r, single segment %r" % (d[0], sorted(d[1].items()), sorted(d[2].items())))
                return out
            try:
                ref = env.reference(ast)
            except Exception as e:
                k, d = exc_kind(e)
                out.update(ok=False, kind=k, what="measuring the leaf scores " + d)
                return out
            kind, detail = check(env, ast, case["path"], ref)
            prob = None
            if is_leaf(ast) and ast[0] not in ("mt", "nrangeb", "nrange"):
                env.leaf(ast)
                prob = env.leaf_problem.get(repr(ast))
            ok = kind is None and not prob
            out.update(ok=ok, kind=kind,
                       what=detail or ("leaf matches %r" % (prob,) if prob else "agrees with the reference"),
                       reference=sorted((env.km[dn], v) for dn, v in ref.items()),
                       leaf_scores=dict((repr(l), sorted((env.km[dn], v) for dn, v in env.leaf(l).items()))
                                        for l in leaves(ast) if l[0] not in ("mt", "nrangeb", "nrange")))
            return out
    finally:
        corpus.destroy_index(ix)
