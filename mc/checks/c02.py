"""C02 - a commit is atomic with respect to process crashes.
E2: for every transaction of the alphabet, from every start state reachable
by <=2 earlier transactions, the transaction is executed on the real writer
over a recording FileStorage; a crash is injected (by reconstruction from the
log) after EVERY storage-layer mutation, with every admissible prefix of the
files still open at that instant; each crash state is materialised and must
re-open as exactly the old or exactly the new logical state, monotonically,
be searchable and writable, and a following commit must remove the orphans."""
import os
import random
import re
import shutil
import traceback

from mc import core, crashfs

PID = "C02"
LEVEL = "fault_enumeration"

NF = "n-col:1"
TEXTS = {"a": u"alfa bravo", "b": u"bravo charlie charlie", "c": u"delta"}


def schema():
    from whoosh import fields
    sch = fields.Schema(key=fields.ID(stored=True, unique=True),
                        text=fields.TEXT(stored=True),
                        tag=fields.KEYWORD(stored=True, vector=True))
    # the sort column lives in a file named after the field: a legal field name
    # with characters that file-name patterns tend to forget
    sch.add(NF, fields.NUMERIC(int, sortable=True))
    return sch


def apply_ops(w, ops):
    for op in ops:
        k = op[0]
        if k == "add":
            w.add_document(**{"key": op[1], "text": TEXTS[op[2]], NF: len(op[1]) + ord(op[2]), "tag": op[2] + u" t"})
        elif k == "upd":
            w.update_document(**{"key": op[1], "text": TEXTS[op[2]], NF: ord(op[2]), "tag": op[2]})
        elif k == "del":
            w.delete_by_term("key", op[1])
        elif k == "addfield":
            from whoosh import fields
            w.add_field(op[1], fields.ID(stored=True))
        elif k == "rmfield":
            w.remove_field(op[1])
        else:
            raise ValueError(op)


class Boom(Exception):
    pass


def merge_first_two(writer, segments):
    from whoosh.reading import SegmentReader
    if len(segments) < 2:
        return segments
    for seg in segments[:2]:
        r = SegmentReader(writer.storage, writer.schema, seg)
        writer.add_reader(r)
        r.close()
    return list(segments[2:])


def run_txn(ix, txn, mark=None):
    """Executes one transaction; returns 'committed' or 'rolledback'."""
    from whoosh.writing import CLEAR
    end = txn["end"]
    kwargs = {}
    if end == "raise":
        try:
            with ix.writer() as w:
                if txn.get("compound") is False:
                    w.compound = False
                apply_ops(w, txn["ops"])
                if mark:
                    mark("commit-enter")
                raise Boom()
        except Boom:
            pass
        return "rolledback"
    w = ix.writer()
    if txn.get("compound") is False:
        w.compound = False
    apply_ops(w, txn["ops"])
    if mark:
        mark("commit-enter")
    if end == "commit":
        w.commit()
    elif end == "nomerge":
        w.commit(merge=False)
    elif end == "optimize":
        w.commit(optimize=True)
    elif end == "clear":
        w.commit(mergetype=CLEAR)
    elif end == "custom":
        w.commit(mergetype=merge_first_two)
    elif end == "cancel":
        w.cancel()
        if mark:
            mark("commit-return")
        return "rolledback"
    else:
        raise ValueError(end)
    if mark:
        mark("commit-return")
    return "committed"


def dump(ix):
    """Canonical logical content (layout independent)."""
    out = {"docs": [], "lex": {}, "gen_fields": sorted(ix.schema.names())}
    with ix.searcher() as s:
        r = s.reader()
        keyof = {}
        for docnum, sf in r.iter_docs():
            keyof[docnum] = sf["key"]
            col = None
            if NF in ix.schema.names() and r.has_column(NF):
                try:
                    col = r.column_reader(NF)[docnum]
                except Exception as e:
                    col = "exc:%s" % type(e).__name__
            vec = None
            if "tag" in ix.schema.names() and r.has_vector(docnum, "tag"):
                vec = sorted(t for t, _ in r.vector_as("frequency", docnum, "tag"))
            out["docs"].append([sf["key"], sorted(sf.items()), col, vec])
        out["docs"].sort()
        for fname in ("key", "text", "tag"):
            if fname not in ix.schema.names():
                continue
            terms = {}
            for t in r.lexicon(fname):
                m = r.postings(fname, t)
                posts = []
                while m.is_active():
                    if m.id() in keyof:
                        posts.append([keyof[m.id()], round(m.weight(), 5)])
                    m.next()
                if posts:
                    terms[t.decode("utf8")] = sorted(posts)
            out["lex"][fname] = terms
        out["doc_count"] = r.doc_count()
    return out


def probe(ix):
    from whoosh import query as Q
    with ix.searcher() as s:
        r1 = sorted(h["key"] for h in s.search(Q.Term("text", u"bravo"), limit=None))
        r2 = sorted(h["key"] for h in s.search(Q.Every(), limit=None, sortedby=NF))
        r3 = [h["key"] for h in s.search(Q.Or([Q.Term("text", u"charlie"), Q.Term("tag", u"t")]), limit=2)]
    return [r1, r2, len(r3)]


SEGPAT = re.compile("(MAIN_[0-9a-z]+)[.][A-Za-z0-9_.]+")
TOCPAT = re.compile("^_MAIN_([0-9]+).toc$")


def recover_and_check(img, olddump, newdump, expect, workdir):
    """Materialise a crash image and run the recovery oracle.  Returns
    (which, problem): which in {'old','new'}; problem None or (kind, text)."""
    from whoosh.filedb.filestore import FileStorage
    from whoosh import index as windex
    d = os.path.join(workdir, "crash")
    if os.path.exists(d):
        shutil.rmtree(d)
    crashfs.write_image(img, d)
    which = None
    try:
        st = FileStorage(d)
        ix = st.open_index()
        got = dump(ix)
        if got == olddump:
            which = "old"
        elif newdump is not None and got == newdump:
            which = "new"
        if olddump == newdump and which is not None:
            which = "same"
        if which is None:
            return None, ("mixture", "re-opened index is neither the old nor the new state: docs=%r"
                          % ([x[0] for x in got["docs"]],))
        if expect == "old" and which == "new":
            return which, ("too-early", "new state visible although commit() had not been entered / writer was cancelled")
        if expect == "new" and which == "old":
            return which, ("lost-commit", "old state visible after commit() returned")
        probe(ix)
        # a fresh writer must be able to open, add and commit
        w = ix.writer()
        follow = {"key": u"zz", "text": u"zulu", NF: 1, "tag": u"z"}
        names = set(ix.schema.names())
        w.add_document(**dict((k, v) for k, v in follow.items() if k in names))
        w.commit(merge=False)
        ix2 = st.open_index()
        after = dump(ix2)
        keys = [x[0] for x in after["docs"]]
        want = sorted([x[0] for x in got["docs"]] + [u"zz"])
        if keys != want:
            return which, ("follow-up-commit", "after a follow-up commit documents are %r, expected %r" % (keys, want))
        # orphans gone: every segment file belongs to the newest TOC, one TOC
        toc = windex.TOC.read(st, "MAIN")
        live = set(s.segment_id() for s in toc.segments)
        tocs = []
        for fn in os.listdir(d):
            full = os.path.join(d, fn)
            if os.path.isdir(full):
                return which, ("orphan-dir", "directory %r left behind after the follow-up commit" % fn)
            m = TOCPAT.match(fn)
            if m:
                tocs.append(fn)
                continue
            m = SEGPAT.match(fn)
            if m and m.group(1) not in live:
                return which, ("orphan-file", "segment file %r of no live segment left after the follow-up commit" % fn)
        if len(tocs) != 1:
            return which, ("toc-count", "TOC files after follow-up commit: %r" % (sorted(tocs),))
        ix.close()
        ix2.close()
        return which, None
    except Exception as e:
        tb = traceback.extract_tb(e.__traceback__)
        fr = [f for f in tb if "/whoosh/" in f.filename] or list(tb)
        where = "%s:%s" % (fr[-1].filename.split("/")[-1], fr[-1].name)
        return which, ("exc:%s@%s" % (type(e).__name__, where), "recovery raised %r at %s" % (e, where))


def build_start(history, root):
    """Runs the (unrecorded) start history on a plain FileStorage in root."""
    from whoosh.filedb.filestore import FileStorage
    st = FileStorage(root).create()
    ix = st.create_index(schema())
    for txn in history:
        run_txn(ix, txn)
    ix.close()


def explore_txn(history, txn, seed, acc, byte_cuts, rich=False):
    """One recorded transaction from one start state: every crash point."""
    from whoosh.filedb.filestore import FileStorage
    work = core.fresh_dir("c02")
    root = os.path.join(work, "ix")
    try:
        random.seed(seed)
        build_start(history, root)
        initial = crashfs.read_image(root)
        olddump = dump(FileStorage(root).open_index())
        # OS-level recording: the real FileStorage methods run unmodified and
        # every system call they issue under the index root is a crash point
        with crashfs.OsRecorder(root) as rst:
            ix = rst.storage().open_index()
            random.seed(seed + 1)
            outcome = run_txn(ix, txn, mark=rst.mark)
            ix.close()
        log = rst.log
        finaldump = dump(FileStorage(root).open_index())
        if outcome == "rolledback":
            if finaldump != olddump:
                acc.violation("%s|rollback-changed-index" % txn["end"],
                              {"history": history, "txn": txn, "seed": seed, "point": None},
                              "cancel/exception changed the index")
            newdump = None
        else:
            newdump = finaldump
        model = crashfs.CrashModel(initial, log)
        pts = model.points()
        enter = next((i for i, op in enumerate(log) if op == ("mark", "commit-enter")), None)
        ret = next((i for i, op in enumerate(log) if op == ("mark", "commit-return")), None)
        seen_new = False
        acc.count("transactions")
        acc.count("crash_points", len(pts))
        kinds = set()
        for p in pts:
            if outcome == "rolledback" or (enter is not None and p <= enter):
                expect = "old"
            elif ret is not None and p > ret:
                expect = "new"
            else:
                expect = None
            for desc, img in model.crash_states(p, byte_cuts, rich):
                acc.count("evaluations")
                which, problem = recover_and_check(img, olddump, newdump, expect, work)
                kinds.add(which)
                if desc != "full":
                    acc.count("torn_states")
                if problem is None and desc == "full":
                    if which == "new":
                        seen_new = True
                    elif which == "old" and seen_new:
                        problem = ("non-monotone", "old state re-appeared after the new state had been visible")
                if problem is not None:
                    lastop = log[p - 1] if p > 0 else ("start",)
                    opk = lastop[0]
                    tgt = ""
                    if len(lastop) > 1:
                        tgt = re.sub(r"[0-9a-z]{16}", "*", str(lastop[-1] if opk == "rename" else lastop[1]))
                        tgt = re.sub(r"toc\.[0-9.]+", "toc.tmp", tgt)
                        tgt = re.sub(r"_MAIN_[0-9]+\.toc", "_MAIN_N.toc", tgt)
                    acc.violation("%s|after:%s:%s|%s|%s" % (txn["end"], opk, tgt, "torn" if desc != "full" else "full", problem[0]),
                                  {"history": history, "txn": txn, "seed": seed, "point": p, "variant": desc},
                                  "crash after log[%d]=%r (%s): %s" % (p - 1, lastop[:2], desc, problem[1]))
        if "new" in kinds and "old" in kinds:
            acc.count("distinct_nontrivial")
        acc.sample({"start_history": history, "transaction": txn, "crash_points": len(pts),
                    "log_ops": [op[0] + ":" + str(op[1])[:40] for op in log[:12]]}, maxn=1)
    finally:
        shutil.rmtree(work, ignore_errors=True)


def task(t):
    history, txn, seed, byte_cuts, rich = t
    acc = core.Acc()
    explore_txn(history, txn, seed, acc, byte_cuts, rich)
    return acc.result()


def T(ops, end, **kw):
    d = {"ops": ops, "end": end}
    d.update(kw)
    return d


def transactions():
    """The recorded transaction alphabet, simplest first."""
    out = []
    for end in ("nomerge", "commit", "optimize", "cancel", "raise", "clear", "custom"):
        out.append(T([["add", "x", "a"]], end))
        out.append(T([["add", "x", "a"], ["del", "k0"]], end))
        out.append(T([["upd", "k0", "b"]], end))
        out.append(T([["del", "k0"]], end))
    for end in ("nomerge", "optimize"):
        out.append(T([["add", "x", "a"], ["add", "y", "b"]], end, compound=False))
        out.append(T([["addfield", "extra"], ["add", "x", "c"]], end))
        out.append(T([["rmfield", "tag"]], end))
    out.append(T([], "commit"))
    out.append(T([], "optimize"))
    return out


def start_states(tier):
    one = T([["add", "k0", "a"], ["add", "k1", "b"]], "nomerge")
    two = T([["add", "k2", "c"]], "nomerge")
    dele = T([["del", "k1"]], "nomerge")
    loose = T([["add", "k0", "a"], ["add", "k1", "b"]], "nomerge", compound=False)
    five = [T([["add", "k%d" % i, "abc"[i % 3]]], "nomerge") for i in range(5)]
    # generation 9, so that the recorded transaction takes the generation
    # number across a digit-count boundary (TOC names are compared as numbers)
    gen9 = [one] + [T([], "nomerge") for _ in range(8)]
    starts = [[], [one], [one, two], [one, dele], five, gen9]
    if tier != "quick":
        starts += [[loose, two], [one, two, dele], [one, T([["upd", "k0", "c"]], "commit")],
                   five + [T([["del", "k3"]], "nomerge")]]
    return starts


def run(ctx):
    tasks = []
    byte_cuts = True
    for st in start_states(ctx.tier):
        for txn in transactions():
            if not st and any(op[0] in ("del", "upd", "rmfield") for op in txn["ops"]) and txn["end"] != "nomerge":
                continue
            tasks.append((st, txn, ctx.seed, byte_cuts, ctx.tier != "quick"))
    ctx.extra["start_states"] = len(start_states(ctx.tier))
    ctx.extra["transaction_alphabet"] = len(transactions())
    ctx.rule = ("for each (start state reachable by <=2..6 transactions, transaction from the alphabet "
                "{add, add+delete, update, delete, schema add/remove field, empty} x {commit(merge=False), "
                "default merge, optimize, CLEAR, custom merge, cancel, exception in with-block} x {compound, "
                "loose}): a crash after EVERY storage-layer mutation recorded by the recording FileStorage "
                "(create/close/rename/delete/mkdir/rmdir and the end of every run of write() calls), each with "
                "the full image and, for each file still open, the write-record prefixes {0, n/2, n-1} (thorough: "
                "{0,1,2,n/4,n/2,3n/4,n-3,n-2,n-1}) of its n write() records plus byte cuts of the last record, "
                "and 'every open file empty'; an evaluation = one recovered crash "
                "state; a transaction counts as non-trivial when both the old and the new state were observed "
                "among its crash states")
    ctx.assumptions = ["process crash model: data handed to write() may or may not have reached the OS for files "
                       "still open; closed files, renames and deletes are durable in order",
                       "torn variants alter one open file at a time (plus 'all open files empty')",
                       "logical state = canonical dump (stored fields, postings with weights, column, vectors) "
                       "keyed by the stored unique key",
                       "leftover lock files and _MAIN_N.toc.<time> temp files are outside the statement"]
    ctx.pmap(task, tasks)
    if ctx.counters.get("torn_states", 0) < 100:
        raise core.HarnessError("vacuous: only %d torn states" % ctx.counters.get("torn_states", 0))


def replay(case):
    core.setup_process(case.get("seed", 0))
    acc = core.Acc()
    explore_txn(case["history"], case["txn"], case["seed"], acc, True, True)
    res = acc.result()
    return {"ok": not res["viol"], "what": [(v[0], v[2]) for v in res["viol"]], "counts": res["counts"]}
