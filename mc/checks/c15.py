"""C15 - query rewriting never changes what a query means.

E1 (bounded-exhaustive differential) on the all-document-contents corpus V:
one live document for every content (field f: every word sequence of length
0..3 over {a,b,c}; field g: every subset of {a,b}), realised as a 1-segment
index and as a 2-segment index with one deleted duplicate.  Whether a document
matches a query depends only on its own content, so two queries mean the same
on every index over that vocabulary/length bound iff they agree on V.

Every query tree of the stated families is built, and for each rewrite R in
  normalize, normalize o normalize (idempotence), the operators & | -,
  with_boost(2.0), replace(absent term), apply/accept(identity), deepcopy,
  pickle, simplify(reader), estimate_size(reader)
the real code is run and  docs(R(q)) == docs(q)  is demanded on the same
searcher (estimate_size: >= |docs(q)|; every rewrite: no exception).

Near-duplicate families (corpus P, see p_docs): normalize() drops "duplicate"
clauses and merges "overlapping" ones, and what counts as a duplicate is
decided by the __eq__/__hash__ of the query classes.  For every public query
class the instances are the full product of two values per match-relevant
constructor parameter; every ordered pair of instances that differ in exactly
one parameter (and every instance with itself) is put under every operator
(pair_trees) and through every rewrite.  P is an all-document-contents corpus
over a vocabulary in which each of these parameters changes the matched
documents (edit distances 0/1/2, common prefixes, morphological variations,
numeric and datetime values); a vacuity guard checks that per class and
parameter.  The FuzzyTermPlugin spellings go through the parser the same way.

Oracle = the original query executed on the same index (differential).  The
only leniency: the documentation of normalize() says it "removes ... empty
queries" (its example drops an Or([]) out of an And), while NullQuery is
documented as "a query that won't match anything".  Both readings are accepted
wherever a sub-query normalises to NullQuery under And / Not (see variants()).
"""
import copy
import itertools
import json
import pickle
import traceback

from mc import core, corpus

PID = "C15"
LEVEL = "exploration"

NARY = ("and", "or", "dismax", "seq", "ord")
BINOPS = ("andnot", "andmaybe", "require", "otherwise")
UNARY = ("not", "const")
# rewrites for which the documented "empty queries are removed" reading is
# also accepted (they all go through normalize())
LENIENT = ("normalize", "operators", "simplify", "parser")


# ---------------------------------------------------------------------------
# corpus V

def vocab(seed):
    # (x, y) are the two words used by Term/Phrase/Prefix leaves; ranges are
    # always written over the ordered vocabulary a < b < c.  Equally complete
    # scope variants.
    return [("a", "b"), ("b", "c"), ("a", "c")][seed % 3]


def v_docs(seed=0):
    """Model documents of V plus ONE duplicate (index DUP) that the 2-segment
    layout deletes, so the live documents are exactly V in both layouts."""
    W = ["a", "b", "c"]
    fs = []
    for n in range(0, 4):
        fs.extend(list(p) for p in itertools.product(W, repeat=n))
    gs = [[], ["a"], ["b"], ["a", "b"]]
    docs = []
    for f in fs:
        for g in gs:
            docs.append({"f": f, "g": g})
    # rotate so that segment boundaries fall elsewhere for other seeds
    r = (seed * 37) % len(docs)
    docs = docs[r:] + docs[:r]
    dup = dict(docs[(11 + seed) % len(docs)])
    dup_at = 5
    docs.insert(dup_at, dup)
    for i, d in enumerate(docs):
        d["key"] = "k%d" % i
        d["live"] = True
    return docs, dup_at


def v_schema():
    from whoosh import fields, analysis
    return fields.Schema(
        key=fields.ID(stored=True, unique=True),
        f=fields.TEXT(analyzer=analysis.SpaceSeparatedTokenizer(), phrase=True),
        g=fields.TEXT(analyzer=analysis.SpaceSeparatedTokenizer(), phrase=True))


def v_to_doc(d, order=None):
    out = {"key": d["key"]}
    if d["f"]:
        out["f"] = " ".join(d["f"])
    if d["g"]:
        out["g"] = " ".join(d["g"])
    return out


def build_v(which, seed=0):
    docs, dup_at = v_docs(seed)
    if which == "one":
        # single segment; the duplicate is deleted too so that the live set is V
        layout = {"segs": [len(docs)], "deleted": [dup_at], "optimize": True}
    else:
        n1 = len(docs) // 2 + (seed % 5)
        layout = {"segs": [n1, len(docs) - n1], "deleted": [dup_at]}
    ix, docs = corpus.build_index(docs, layout, schema=v_schema(), to_doc=v_to_doc)
    return ix, docs


# ---------------------------------------------------------------------------
# corpus P ("parameter corpus") for the near-duplicate families
#
# V's one-letter vocabulary cannot tell FuzzyTerm(maxdist=1) from
# FuzzyTerm(maxdist=2), Variations from Term, or two numeric ranges apart.  P is
# again an all-document-contents corpus, over a vocabulary in which EVERY
# match-relevant constructor parameter of every public query class changes the
# matched documents (run() verifies that, per class and parameter):
#   f: every sequence of <=2 words over W5 and every sequence of 3 words over
#      {x, y, xv} (phrase slop / span distance need another word in between);
#   g: absent or one of the words x, y, xv
#   n x m: every pair of (absent, 0..4) x (absent, 2, 3); d: absent or one of 5
#      instants.  Text and typed fields are never combined in one document: the
#      clauses of a near-duplicate pair mention one field (two when the field
#      name is the parameter that differs: f/g, n/m).
# Every instance of the families below selects at least one term of its field
# on P (no void range, no pattern without expansion): what happens to clauses
# that are EMPTY is the business of the V families (and of a known finding).

def p_words(seed):
    """(x, y, xv, xv2, yv): y at edit distance 1 from x without a common prefix;
    xv a morphological variation of x at distance 1 sharing 3 letters; xv2 at
    distance 2 sharing 3 letters; yv a variation of y at distance 2 from x."""
    return [("bent", "lent", "bend", "bendy", "lend"),
            ("lent", "bent", "lend", "lendy", "bend")][seed % 2]


P_DATES = ["2001-02-03T04:05:06.000000", "2001-02-03T04:05:07.000000", "2003-01-01T00:00:00.000000",
           "2003-01-01T00:00:00.000001", "2010-12-31T23:59:59.999999"]


def p_docs(seed=0):
    x, y, xv, xv2, yv = p_words(seed)
    W5 = [x, y, xv, xv2, yv]
    fs = [[]] + [[a] for a in W5] + [[a, b] for a in W5 for b in W5]
    fs += [list(p) for p in itertools.product([x, y, xv], repeat=3)]
    docs = []
    for f in fs:
        for g in ([], [x], [y], [xv]):
            docs.append({"f": f, "g": g})
    for n in (None, 0, 1, 2, 3, 4):
        for m in (None, 2, 3):
            if n is not None or m is not None:
                docs.append({"f": [], "g": [], "n": n, "m": m})
    for d in P_DATES:
        docs.append({"f": [], "g": [], "d": d})
    r = (seed * 29) % len(docs)
    docs = docs[r:] + docs[:r]
    dup = dict(docs[(17 + seed) % len(docs)])
    dup_at = 7
    docs.insert(dup_at, dup)
    for i, d in enumerate(docs):
        d["key"] = "k%d" % i
        d["live"] = True
    return docs, dup_at


def p_schema():
    from whoosh import fields, analysis
    return fields.Schema(
        key=fields.ID(stored=True, unique=True),
        f=fields.TEXT(analyzer=analysis.SpaceSeparatedTokenizer(), phrase=True),
        g=fields.TEXT(analyzer=analysis.SpaceSeparatedTokenizer(), phrase=True),
        n=fields.NUMERIC(int), m=fields.NUMERIC(int), d=fields.DATETIME())


def p_to_doc(d, order=None):
    out = {"key": d["key"]}
    for f in ("f", "g"):
        if d.get(f):
            out[f] = " ".join(d[f])
    for f in ("n", "m"):
        if d.get(f) is not None:
            out[f] = d[f]
    if d.get("d") is not None:
        out["d"] = _pdt(d["d"])
    return out


def _pdt(s):
    import datetime
    return None if s is None else datetime.datetime.strptime(s, "%Y-%m-%dT%H:%M:%S.%f")


def build_p(which, seed=0):
    docs, dup_at = p_docs(seed)
    if which == "par1":
        layout = {"segs": [len(docs)], "deleted": [dup_at], "optimize": True}
    else:
        n1 = len(docs) // 2 + (seed % 5)
        layout = {"segs": [n1, len(docs) - n1], "deleted": [dup_at]}
    ix, docs = corpus.build_index(docs, layout, schema=p_schema(), to_doc=p_to_doc)
    return ix, docs


def describe_doc(d):
    t = "%s|%s" % (" ".join(d["f"]) or "-", " ".join(d["g"]) or "-")
    for f in ("n", "m", "d"):
        if d.get(f) is not None:
            t += "|%s=%s" % (f, d[f])
    return t


# ---------------------------------------------------------------------------
# ASTs (JSON-able) -> whoosh queries
#
#  ["term", f, text, boost]  ["every", boost]  ["everyf", f, boost]  ["null"]
#  ["prefix", f, text, boost]  ["wild", f, pat, boost]
#  ["trange", f, lo, hi, loexcl, hiexcl, boost]
#  ["phrase", f, [words], slop, boost]
#  ["and"|"or"|"dismax", [kids], boost]   ["seq"|"ord", [kids], slop, boost]
#  ["not", kid]  ["const", kid, score]
#  ["andnot"|"andmaybe"|"require"|"otherwise", a, b]
#  ["x", kind, wx, wy, wz]  fixed instances of the remaining public types
#  ["p", cls, [values]]     parametrised instance of a public type (PNAMES[cls]
#                           names the values; sub-queries are ASTs); opaque leaf

def build(ast):
    from whoosh import query as Q
    k = ast[0]
    if k == "term":
        return Q.Term(ast[1], ast[2], boost=ast[3])
    if k == "every":
        return Q.Every(boost=ast[1])
    if k == "everyf":
        return Q.Every(ast[1], boost=ast[2])
    if k == "null":
        return Q.NullQuery
    if k == "prefix":
        return Q.Prefix(ast[1], ast[2], boost=ast[3])
    if k == "wild":
        return Q.Wildcard(ast[1], ast[2], boost=ast[3])
    if k == "trange":
        return Q.TermRange(ast[1], ast[2], ast[3], ast[4], ast[5], boost=ast[6])
    if k == "phrase":
        return Q.Phrase(ast[1], list(ast[2]), slop=ast[3], boost=ast[4])
    if k == "x":
        return build_extra(ast)
    if k == "p":
        return build_param(ast)
    if k == "and":
        return Q.And([build(x) for x in ast[1]], boost=ast[2])
    if k == "or":
        return Q.Or([build(x) for x in ast[1]], boost=ast[2])
    if k == "dismax":
        return Q.DisjunctionMax([build(x) for x in ast[1]], boost=ast[2])
    if k == "seq":
        return Q.Sequence([build(x) for x in ast[1]], slop=ast[2], boost=ast[3])
    if k == "ord":
        return Q.Ordered([build(x) for x in ast[1]], slop=ast[2], boost=ast[3])
    if k == "not":
        return Q.Not(build(ast[1]))
    if k == "const":
        return Q.ConstantScoreQuery(build(ast[1]), ast[2])
    if k == "andnot":
        return Q.AndNot(build(ast[1]), build(ast[2]))
    if k == "andmaybe":
        return Q.AndMaybe(build(ast[1]), build(ast[2]))
    if k == "require":
        return Q.Require(build(ast[1]), build(ast[2]))
    if k == "otherwise":
        return Q.Otherwise(build(ast[1]), build(ast[2]))
    raise ValueError("unknown ast %r" % (ast,))


EXTRA_KINDS = ("regex", "regexall", "fuzzy", "variations", "spannear", "spannear_s2u", "spannear2",
               "spanfirst", "spannot", "spanor", "spancontains", "spanbefore", "spancondition",
               "nestedparent", "nestedchildren", "weighting")


def build_extra(ast):
    """["x", kind, wx, wy, wz]: the remaining public query types as opaque
    leaves over fixed Term sub-queries of field f."""
    from whoosh import query as Q, scoring
    _, kind, wx, wy, wz = ast
    tx, ty, tz = Q.Term("f", wx), Q.Term("f", wy), Q.Term("f", wz)
    if kind == "regex":
        return Q.Regex("f", "[%s%s]" % (wx, wy))
    if kind == "regexall":
        return Q.Regex("f", ".*")
    if kind == "fuzzy":
        return Q.FuzzyTerm("f", wx, maxdist=1, prefixlength=0)
    if kind == "variations":
        return Q.Variations("f", wx)
    if kind == "spannear":
        return Q.SpanNear(tx, ty)
    if kind == "spannear_s2u":
        return Q.SpanNear(tx, ty, slop=2, ordered=False)
    if kind == "spannear2":
        return Q.SpanNear2([tx, ty], slop=2)
    if kind == "spanfirst":
        return Q.SpanFirst(tx, limit=1)
    if kind == "spannot":
        return Q.SpanNot(Q.SpanNear(tx, ty, slop=2), tz)
    if kind == "spanor":
        return Q.SpanOr([tx, ty])
    if kind == "spancontains":
        return Q.SpanContains(Q.SpanNear(tx, ty, slop=2), tz)
    if kind == "spanbefore":
        return Q.SpanBefore(tx, ty)
    if kind == "spancondition":
        return Q.SpanCondition(tx, ty)
    if kind == "nestedparent":
        return Q.NestedParent(Q.Term("g", "a"), tx)
    if kind == "nestedchildren":
        return Q.NestedChildren(Q.Term("g", "a"), tx)
    if kind == "weighting":
        return Q.WeightingQuery(tx, scoring.Frequency())
    raise ValueError(kind)


# parameter names of the parametrised leaves, in the order of their values
PNAMES = {
    "fuzzy": ("fieldname", "text", "boost", "maxdist", "prefixlength"),
    "variations": ("fieldname", "text", "boost"),
    "regex": ("fieldname", "text", "boost"),
    "nrange": ("fieldname", "start", "end", "startexcl", "endexcl", "boost"),
    "drange": ("fieldname", "start", "end", "startexcl", "endexcl", "boost"),
    "sequence": ("subqueries", "slop", "ordered", "boost"),
    "spannear": ("a", "b", "slop", "ordered", "mindist"),
    "spannear2": ("qs", "slop", "ordered", "mindist"),
    "spanfirst": ("q", "limit"),
    "spanor": ("subqs",),
    "spannot": ("a", "b"), "spancontains": ("a", "b"), "spanbefore": ("a", "b"),
    "spancondition": ("a", "b"),
    "nestedparent": ("parents", "subq"),
    "nestedchildren": ("parents", "subq"),
    "weighting": ("child",),
}


def build_param(ast):
    """["p", cls, values]: one instance of a public query class with the
    constructor parameters PNAMES[cls]."""
    from whoosh import query as Q, scoring
    _, cls, v = ast
    b = build
    if cls == "fuzzy":
        return Q.FuzzyTerm(v[0], v[1], boost=v[2], maxdist=v[3], prefixlength=v[4])
    if cls == "variations":
        return Q.Variations(v[0], v[1], boost=v[2])
    if cls == "regex":
        return Q.Regex(v[0], v[1], boost=v[2])
    if cls == "nrange":
        return Q.NumericRange(v[0], v[1], v[2], v[3], v[4], boost=v[5])
    if cls == "drange":
        return Q.DateRange(v[0], _pdt(v[1]), _pdt(v[2]), v[3], v[4], boost=v[5])
    if cls == "sequence":
        return Q.Sequence([b(x) for x in v[0]], slop=v[1], ordered=v[2], boost=v[3])
    if cls == "spannear":
        return Q.SpanNear(b(v[0]), b(v[1]), slop=v[2], ordered=v[3], mindist=v[4])
    if cls == "spannear2":
        return Q.SpanNear2([b(x) for x in v[0]], slop=v[1], ordered=v[2], mindist=v[3])
    if cls == "spanfirst":
        return Q.SpanFirst(b(v[0]), limit=v[1])
    if cls == "spanor":
        return Q.SpanOr([b(x) for x in v[0]])
    if cls == "spannot":
        return Q.SpanNot(b(v[0]), b(v[1]))
    if cls == "spancontains":
        return Q.SpanContains(b(v[0]), b(v[1]))
    if cls == "spanbefore":
        return Q.SpanBefore(b(v[0]), b(v[1]))
    if cls == "spancondition":
        return Q.SpanCondition(b(v[0]), b(v[1]))
    if cls == "nestedparent":
        return Q.NestedParent(b(v[0]), b(v[1]))
    if cls == "nestedchildren":
        return Q.NestedChildren(b(v[0]), b(v[1]))
    if cls == "weighting":
        return Q.WeightingQuery(b(v[0]), scoring.Frequency())
    raise ValueError(cls)


def from_whoosh(q):
    """Inverse of build() for the classes the query parser produces."""
    from whoosh import query as Q
    from whoosh.query import qcore
    t = type(q)
    if isinstance(q, qcore._NullQuery):
        return ["null"]
    if t is Q.Sequence and q.ordered is not True:
        return ["p", "sequence", [[from_whoosh(x) for x in q.subqueries], q.slop, q.ordered, q.boost]]
    if t is Q.FuzzyTerm and q.constantscore is True:
        return ["p", "fuzzy", [q.fieldname, q.text, q.boost, q.maxdist, q.prefixlength]]
    if t is Q.Term:
        return ["term", q.fieldname, q.text, q.boost]
    if t is Q.Every:
        return ["every", q.boost] if q.fieldname is None else ["everyf", q.fieldname, q.boost]
    if t is Q.Prefix:
        return ["prefix", q.fieldname, q.text, q.boost]
    if t is Q.Wildcard:
        return ["wild", q.fieldname, q.text, q.boost]
    if t is Q.TermRange:
        return ["trange", q.fieldname, q.start, q.end, bool(q.startexcl), bool(q.endexcl), q.boost]
    if t is Q.Phrase:
        return ["phrase", q.fieldname, list(q.words), q.slop, q.boost]
    for name, cls in (("and", Q.And), ("or", Q.Or), ("dismax", Q.DisjunctionMax)):
        if t is cls:
            return [name, [from_whoosh(x) for x in q.subqueries], q.boost]
    for name, cls in (("seq", Q.Sequence), ("ord", Q.Ordered)):
        if t is cls:
            return [name, [from_whoosh(x) for x in q.subqueries], q.slop, q.boost]
    if t is Q.Not:
        return ["not", from_whoosh(q.query)]
    if t is Q.ConstantScoreQuery:
        return ["const", from_whoosh(q.child), q.score]
    for name, cls in (("andnot", Q.AndNot), ("andmaybe", Q.AndMaybe), ("require", Q.Require),
                      ("otherwise", Q.Otherwise)):
        if t is cls:
            return [name, from_whoosh(q.a), from_whoosh(q.b)]
    raise ValueError("no AST for %r" % (q,))


def children(ast):
    k = ast[0]
    if k in NARY:
        return list(ast[1])
    if k in UNARY:
        return [ast[1]]
    if k in BINOPS:
        return [ast[1], ast[2]]
    return []


def with_children(ast, kids):
    k = ast[0]
    if k in NARY:
        return [k, list(kids)] + list(ast[2:])
    if k in UNARY:
        return [k, kids[0]] + list(ast[2:])
    if k in BINOPS:
        return [k, kids[0], kids[1]]
    return ast


def _b(x):
    return "" if x == 1.0 else "^"


def leaf_kind(ast):
    k = ast[0]
    if k == "trange":
        lo, hi = ast[2], ast[3]
        if lo in (None, "") and hi is None:
            t = "trange:all"
        elif lo is not None and hi is not None and lo == hi:
            t = "trange:void" if (ast[4] or ast[5]) else "trange:point"
        elif lo is not None and hi is not None and lo > hi:
            t = "trange:inverted"
        else:
            t = "trange"
        return t + _b(ast[6])
    if k == "phrase":
        return "phrase%d%s%s" % (len(ast[2]), "~" if ast[3] != 1 else "", _b(ast[4]))
    if k == "wild":
        p = ast[2]
        kind = "all" if p == "*" else ("lit" if not any(c in p for c in "*?[") else
                                       ("pfx" if p.endswith("*") and not any(c in p[:-1] for c in "*?[")
                                        else ("cls" if "[" in p else "pat")))
        return "wild:%s%s" % (kind, _b(ast[3]))
    if k == "prefix":
        return ("prefix" if ast[2] else "prefix:empty") + _b(ast[3])
    if k == "null":
        return k
    if k == "p":
        # grouped by base class so that one missing method is one signature
        if ast[1].startswith("span"):
            return "p:span"
        if ast[1] in ("nestedparent", "nestedchildren", "weighting"):
            return "p:wrapping"
        return "p:" + ast[1]
    if k == "x":
        # grouped by base class so that one missing method is one signature
        if ast[1].startswith("span"):
            return "x:span"
        if ast[1] in ("nestedparent", "nestedchildren", "weighting"):
            return "x:wrapping"
        return "x:" + ast[1]
    return k + _b(ast[-1])


def shape(ast, coarse=False):
    """Operator skeleton, leaves reduced to their kind; children of the
    commutative operators sorted so that and(every,term)==and(term,every).
    coarse (signatures of exceptions, which already name the exception class
    and the whoosh function): every parametrised leaf is 'p:*'."""
    k = ast[0]
    if k in ("and", "or", "dismax"):
        return "%s%s(%s%s)" % (k, _b(ast[2]), ",".join(sorted(shape(x, coarse) for x in ast[1])),
                               "" if coarse else _delta(ast[1]))
    if k in ("seq", "ord"):
        return "%s%s%s(%s%s)" % (k, "~" if ast[2] != 1 else "", _b(ast[3]),
                                 ",".join(shape(x, coarse) for x in ast[1]),
                                 "" if coarse else _delta(ast[1]))
    if k in UNARY:
        return "%s(%s)" % (k, shape(ast[1], coarse))
    if k in BINOPS:
        return "%s(%s,%s%s)" % (k, shape(ast[1], coarse), shape(ast[2], coarse),
                                "" if coarse else _delta(ast[1:3]))
    if coarse and k == "p":
        return "p:*"
    return leaf_kind(ast)


def _delta(kids):
    """';differ:<parameters>' when two clauses are parametrised leaves of the
    same class: which constructor parameters tell the first such pair apart
    (so that conflating maxdist and conflating prefixlength are two signatures)."""
    ps = [c for c in kids if c[0] == "p" or (c[0] == "not" and c[1][0] == "p")]
    ps = [c[1] if c[0] == "not" else c for c in ps]
    for i, a in enumerate(ps):
        for b in ps[i + 1:]:
            if a[1] == b[1]:
                names = [n for n, va, vb in zip(PNAMES[a[1]], a[2], b[2]) if va != vb]
                return ";differ:%s" % ("+".join(names) or "nothing")
    return ""


# ---------------------------------------------------------------------------
# structural fingerprint of a whoosh query object (stricter than __eq__)

_SKIP_ATTRS = ("startchar", "endchar", "error", "char_ranges")


def fp(q):
    from whoosh.query import qcore
    if isinstance(q, qcore._NullQuery):
        return ("null",)
    d = getattr(q, "__dict__", None)
    if d is None:
        return (type(q).__name__, repr(q))
    items = []
    for k in sorted(d):
        if k in _SKIP_ATTRS:
            continue
        items.append((k, _fpv(d[k])))
    return (type(q).__name__, tuple(items))


def _fpv(v):
    from whoosh.query import qcore
    if isinstance(v, qcore.Query):
        return fp(v)
    if isinstance(v, (list, tuple)):
        return tuple(_fpv(x) for x in v)
    if isinstance(v, (str, bytes, int, float, bool)) or v is None:
        return v
    return type(v).__name__


# ---------------------------------------------------------------------------
# execution environment

def where_of(e):
    tb = traceback.extract_tb(e.__traceback__)
    fr = [f for f in tb if "/whoosh/" in f.filename] or list(tb)
    return "%s:%s" % (fr[-1].filename.split("/")[-1], fr[-1].name)


def exc_kind(e):
    return "exc:%s@%s" % (type(e).__name__, where_of(e))


class Env(object):
    """One index of V + searcher + memo of executed queries."""

    def __init__(self, which, seed=0):
        self.which = which
        self.seed = seed
        self.par = which.startswith("par")
        self.ix, self.docs = (build_p if self.par else build_v)(which, seed)
        self.s = self.ix.searcher()
        self.reader = self.s.reader()
        # bulk path: docs_for_query; search(limit=None) cross-checks every discrepancy
        self.path = "dfq"
        self.memo = {}
        self._base = None
        self.nlive = sum(1 for d in self.docs if d["live"])
        if self.reader.doc_count() != self.nlive:
            raise core.HarnessError("V not realised: %d live docs, expected %d"
                                    % (self.reader.doc_count(), self.nlive))
        self.desc = {}
        for dn in range(self.reader.doc_count_all()):
            key = self.reader.stored_fields(dn)["key"]
            d = self.docs[int(key[1:])]
            t = describe_doc(d)
            if self.reader.is_deleted(dn):
                t = "<deleted:%s>" % t
            self.desc[dn] = t

    def close(self):
        try:
            self.s.close()
        finally:
            corpus.destroy_index(self.ix)

    def run(self, q, path=None, fpq=None):
        """("ok", frozenset(docnums)) or ("exc", kind, text)."""
        path = path or self.path
        key = (path, fpq if fpq is not None else fp(q))
        r = self.memo.get(key)
        if r is not None:
            return r
        try:
            if path == "dfq":
                ds = list(self.s.docs_for_query(q))
                r = ("ok", frozenset(ds))
                if len(ds) != len(r[1]):
                    r = ("exc", "duplicate-docnums", "docs_for_query returned duplicates")
            else:
                res = self.s.search(q, limit=None)
                r = ("ok", frozenset(res.docs()))
        except Exception as e:
            r = ("exc", exc_kind(e), "%s: %s" % (type(e).__name__, e))
        if len(self.memo) > 200000:
            self.memo.clear()
        self.memo[key] = r
        return r

    def base(self, ast):
        """(query object, fingerprint, execution result) of the original;
        the object is only used for estimate_size() and the idempotence
        test; every rewrite gets a freshly built copy."""
        b = self._base
        if b is None or b[0] is not ast:
            q = build(ast)
            f = fp(q)
            b = (ast, q, f, self.run(q, fpq=f))
            self._base = b
        return b[1], b[2], b[3]

    def show(self, ds):
        return sorted(self.desc.get(d, "<docnum:%r>" % d) for d in ds)

    def simple_terms(self):
        """plain terms of this corpus (used to simplify failing trees)"""
        x, y = (p_words(self.seed)[:2] if self.par else vocab(self.seed))
        return [["term", "f", x, 1.0], ["term", "f", y, 1.0],
                ["term", "g", x if self.par else "a", 1.0]]

    def parser(self):
        """The query parser of the 'parser' rewrite: the default parser on V;
        on P additionally the FuzzyTermPlugin (word~, word~2, word~1/2)."""
        qp = getattr(self, "_parser", None)
        if qp is None:
            from whoosh import qparser
            qp = qparser.QueryParser("f", self.ix.schema)
            if self.par:
                qp.add_plugin(qparser.FuzzyTermPlugin())
            self._parser = qp
        return qp


def ident_apply(q):
    return q.apply(ident_apply)


def _same(q):
    return q


def op_build(ast):
    """(query, used) - the same tree written with the operators & | - wherever
    a node is And/Or of exactly two children with boost 1 (a - b for
    And([a, Not(b)]), the documented meaning of the operators)."""
    from whoosh import query as Q
    k = ast[0]
    ks = children(ast)
    if not ks:
        return build(ast), False
    sub = []
    used = False
    if k == "and" and len(ks) == 2 and ast[2] == 1.0 and ks[1][0] == "not":
        a, ua = op_build(ks[0])
        b, ub = op_build(ks[1][1])
        return a - b, True
    for c in ks:
        q, u = op_build(c)
        sub.append(q)
        used = used or u
    if k in ("and", "or") and len(ks) == 2 and ast[2] == 1.0:
        return (sub[0] & sub[1]) if k == "and" else (sub[0] | sub[1]), True
    if k == "and":
        return Q.And(sub, boost=ast[2]), used
    if k == "or":
        return Q.Or(sub, boost=ast[2]), used
    if k == "dismax":
        return Q.DisjunctionMax(sub, boost=ast[2]), used
    if k == "seq":
        return Q.Sequence(sub, slop=ast[2], boost=ast[3]), used
    if k == "ord":
        return Q.Ordered(sub, slop=ast[2], boost=ast[3]), used
    if k == "not":
        return Q.Not(sub[0]), used
    if k == "const":
        return Q.ConstantScoreQuery(sub[0], ast[2]), used
    cls = {"andnot": Q.AndNot, "andmaybe": Q.AndMaybe, "require": Q.Require,
           "otherwise": Q.Otherwise}[k]
    return cls(sub[0], sub[1]), used


ABSENT = ("zz", "yy")


def rewrite(name, ast, env, text=None, keep=None):
    """The rewritten query object, or None when the rewrite does not apply.
    keep: list receiving the (fresh) original the rewrite was applied to."""
    if name == "operators":
        q, used = op_build(ast)
        return q if used else None
    if name == "parser":
        return env.parser().parse(text, normalize=True)
    q = build(ast)
    if keep is not None:
        keep.append(q)
    if name == "normalize":
        return q.normalize()
    if name == "with_boost":
        return q.with_boost(2.0)
    if name == "replace":
        return q.replace("f", ABSENT[0], ABSENT[1])
    if name == "apply":
        return ident_apply(q)
    if name == "accept":
        return q.accept(_same)
    if name == "deepcopy":
        return copy.deepcopy(q)
    if name == "pickle":
        return pickle.loads(pickle.dumps(q, pickle.HIGHEST_PROTOCOL))
    if name == "simplify":
        return q.simplify(env.reader)
    raise ValueError(name)


_null_cache = {}

_EMPTYISH = ("null", "every", "everyf")


def _skeleton(ast):
    """`ast` with every leaf that searches for something replaced by a plain
    Term: what is left of the tree's emptiness is purely syntactic."""
    k = ast[0]
    ks = children(ast)
    if ks:
        return with_children(ast, [_skeleton(c) for c in ks])
    if k in _EMPTYISH or k in NARY or (k == "phrase" and not ast[2]):
        return ast
    return ["term", "f", "a", 1.0]


def norm_is_null(ast):
    """True iff `ast` is an *empty query* in the sense of normalize()'s
    documentation: the real normalize() turns it into NullQuery and would do
    so whatever its term-bearing leaves were (NullQuery, empty compounds,
    an empty Phrase, compounds of those, Not/AndNot/... over those).  A
    TermRange that is empty by its bounds is NOT an empty query."""
    from whoosh.query import qcore
    key = json.dumps(ast)
    r = _null_cache.get(key)
    if r is None:
        try:
            r = (isinstance(build(ast).normalize(), qcore._NullQuery)
                 and isinstance(build(_skeleton(ast)).normalize(), qcore._NullQuery))
        except Exception:
            r = False
        if len(_null_cache) > 100000:
            _null_cache.clear()
        _null_cache[key] = r
    return r


def variants(ast):
    """ASTs that state the other documented reading of `ast`: a child of And
    that normalises to NullQuery is an *empty query* that normalize() is
    documented to remove (instead of 'matches nothing'), and Not(empty) is
    empty.  The first variant is always `ast` itself."""
    k = ast[0]
    ks = children(ast)
    if not ks:
        return [ast]
    out = []
    for combo in itertools.product(*[variants(c) for c in ks]):
        combo = list(combo)
        out.append(with_children(ast, combo))
        if k == "and":
            kept = [c for c in combo if not norm_is_null(c)]
            if len(kept) != len(combo):
                out.append(["and", kept, ast[2]] if kept else ["null"])
        elif k == "not":
            if norm_is_null(combo[0]):
                out.append(["null"])
        if len(out) > 64:
            break
    return out


def check(ast, name, env, text=None):
    """(kind, detail, info): kind None when rewrite `name` preserves the
    meaning of `ast` on env's index."""
    info = {}
    q, fq, orig = env.base(ast)
    # -- rewrites that are not queries
    if name == "estimate_size":
        try:
            est = q.estimate_size(env.reader)
        except Exception as e:
            return exc_kind(e), "estimate_size raised %s: %s" % (type(e).__name__, e), info
        if orig[0] != "ok":
            info["skipped"] = orig[1]
            return None, None, info
        if est < len(orig[1]):
            return "underestimate", "estimate_size=%r < %d matching documents" % (est, len(orig[1])), info
        return None, None, info
    if name == "idempotent":
        try:
            n1 = q.normalize()
        except Exception:
            return None, None, info  # reported by the normalize rewrite
        try:
            n2 = n1.normalize()
        except Exception as e:
            return exc_kind(e), "normalize(normalize(q)) raised %s: %s" % (type(e).__name__, e), info
        # structural comparison (whoosh's own __eq__ calls an empty compound unequal to itself)
        if fp(n1) != fp(n2):
            return "not-idempotent", "normalize(q)=%r but normalize(normalize(q))=%r" % (n1, n2), info
        return None, None, info
    # -- rewrites that yield a query
    keep = []
    try:
        rq = rewrite(name, ast, env, text, keep)
    except Exception as e:
        return exc_kind(e), "%s raised %s: %s" % (name, type(e).__name__, e), info
    if rq is None:
        info["na"] = True
        return None, None, info
    if keep and fp(keep[0]) != fq:
        # documented: every rewrite returns a new query, "it does not modify
        # the original query in place"
        return "original-modified", "%s changed the query it was applied to: %r became %r" % (
            name, q, keep[0]), info
    frq = fp(rq)
    info["changed"] = frq != fq
    if not info["changed"]:
        return None, None, info
    if orig[0] != "ok":
        # the original cannot be executed: nothing to compare with
        info["skipped"] = orig[1]
        return None, None, info
    got = env.run(rq, fpq=frq)
    if got[0] != "ok":
        # the rewritten query is a legal query that the executor cannot run
        # (e.g. Sequence over a sub-query without positions): that is the
        # executor's limitation (C01), the meanings cannot be compared
        info["rewritten_not_executable"] = got[1]
        return None, None, info
    if got[1] == orig[1]:
        return None, None, info
    if name in LENIENT:
        for v in variants(ast)[1:]:
            r = env.run(build(v))
            if r[0] != "ok" and name != "parser":
                # the other reading is not executable as written (e.g. an
                # Every under Sequence): compare with its rewritten form
                try:
                    rv = rewrite(name, v, env)
                    r = env.run(rv) if rv is not None else r
                except Exception:
                    pass
            if r[0] == "ok" and r[1] == got[1]:
                info["lenient"] = True
                return None, None, info
    # cross-check through the other access path: if the two documented
    # paths disagree on either side the execution (C01), not the rewrite, is
    # at fault and the comparison is inconclusive
    other = "search" if env.path == "dfq" else "dfq"
    o2 = env.run(q, other)
    g2 = env.run(rq, other)
    if o2 != orig or g2 != got:
        info["inconclusive"] = True
        return None, None, info
    extra = got[1] - orig[1]
    missing = orig[1] - got[1]
    kind = "both" if extra and missing else ("extra" if extra else "missing")
    detail = "%s turns %r into %r: extra %s missing %s (documents shown as f|g[|n=|m=|d=])" % (
        name, q, rq, env.show(extra)[:6], env.show(missing)[:6])
    return kind, detail, info


# ---------------------------------------------------------------------------
# shrinking / signatures

SETKINDS = ("extra", "missing", "both")


def is_simple(ast):
    return ast[0] == "term" and ast[3] == 1.0


def same_class(k, kind):
    return k is not None and (k == kind or (k in SETKINDS and kind in SETKINDS))


def descend(ast, name, env, kind):
    """Smallest sub-tree for which the rewrite still fails (children first)."""
    cur = ast
    progress = True
    while progress:
        progress = False
        for c in children(cur):
            try:
                k = check(c, name, env)[0]
            except Exception:
                k = None
            if same_class(k, kind):
                cur = c
                progress = True
                break
    return cur


def generalise(cur, name, env, kind):
    """Simplify a failing tree while a discrepancy of the same class remains:
    children of n-ary nodes dropped, sub-trees hoisted / replaced by their
    normal form or by plain terms, boosts and slop reset.  Every step
    strictly simplifies, so it terminates (and a step budget bounds it)."""
    def fails(a):
        try:
            k, _, _ = check(a, name, env)
        except Exception:
            return False
        return same_class(k, kind)

    simple = env.simple_terms()
    budget = [80]

    def attempt(cand):
        budget[0] -= 1
        return budget[0] >= 0 and fails(cand)

    def node_cands(n):
        """strictly simpler replacements for node n"""
        out = []
        ks = children(n)
        if n[0] in NARY and len(ks) > 1:
            for i in range(len(ks)):
                out.append(with_children(n, ks[:i] + ks[i + 1:]))
        if n[0] in NARY and n[-1] != 1.0:
            c = list(n)
            c[-1] = 1.0
            out.append(c)
        if n[0] in ("seq", "ord") and n[2] != 1:
            c = list(n)
            c[2] = 1
            out.append(c)
        return out

    def child_cands(c):
        out = list(children(c))
        if not children(c) and c[0] not in ("null", "x", "p") and c[-1] != 1.0:
            out.append(list(c[:-1]) + [1.0])
        try:
            # (a parametrised leaf stays what it is: its class and parameters
            # are what the signature names)
            nf = from_whoosh(build(c).normalize()) if c[0] != "p" else c
            if nf != c and json.dumps(nf) != json.dumps(c):
                out.append(nf)
        except Exception:
            pass
        if not is_simple(c):
            out.extend(simple)
        return out

    def subst(tree, path, new):
        if not path:
            return new
        ks = children(tree)
        i = path[0]
        return with_children(tree, ks[:i] + [subst(ks[i], path[1:], new)] + ks[i + 1:])

    def paths(tree, prefix=()):
        yield prefix, tree
        for i, c in enumerate(children(tree)):
            for x in paths(c, prefix + (i,)):
                yield x

    def step(cur):
        for path, n in paths(cur):
            cands = node_cands(n)
            if path:
                cands = cands + child_cands(n)
            for g in cands:
                cand = subst(cur, path, g)
                if attempt(cand):
                    return cand
        return None

    while budget[0] > 0:
        nxt = step(cur)
        if nxt is None:
            break
        # a simplification may expose a failing child: go down again
        cur = descend(nxt, name, env, kind)
    return cur


def _culprit_cached(ast, name, env, kind, sigcache, detail=None):
    """(culprit ast, kind, detail).  The failing sub-tree is located for every
    violation; its generalisation is done once per (index, shape of that
    sub-tree, rewrite, kind) and task - later instances reuse the
    representative (a real failing case of the same shape class)."""
    cu = descend(ast, name, env, kind)
    pre = (env.which, shape(cu), name, kind)
    hit = sigcache.get(pre)
    if hit is None:
        g = generalise(cu, name, env, kind)
        ck, cdetail, _ = check(g, name, env)
        if ck is None:
            g = cu
            ck, cdetail, _ = check(cu, name, env)
            if ck is None:
                g, ck, cdetail = ast, kind, detail
        hit = (g, ck, cdetail)
        sigcache[pre] = hit
    return hit + (cu,)


REWRITES = ("normalize", "idempotent", "operators", "with_boost", "replace", "apply", "accept",
            "deepcopy", "pickle", "simplify", "estimate_size")


def eval_case(ast, envs, acc, seed, sigcache, names=REWRITES, text=None):
    acc.count("queries")
    nontrivial = False
    for env in envs:
        q, fq, orig = env.base(ast)
        acc.count("cases")
        if orig[0] == "ok":
            if 0 < len(orig[1]) < env.nlive:
                acc.count("distinct_nontrivial")
                nontrivial = True
        else:
            acc.count("original_not_executable")
            acc.count("original_not_executable:" + orig[1])
        for name in names:
            kind, detail, info = check(ast, name, env, text)
            if info.get("na"):
                continue
            acc.count("evaluations")
            if info.get("changed"):
                acc.count("rewrite_changed_structure")
                acc.count("changed:" + name)
            if info.get("lenient"):
                acc.count("accepted_as_documented_empty_query_removal")
            if info.get("inconclusive"):
                acc.count("inconclusive_access_paths_disagree")
                acc.count("inconclusive:%s|%s" % (shape(ast), name))
            if info.get("rewritten_not_executable"):
                acc.count("rewritten_query_not_executable")
                acc.count("rewritten_not_executable:" + info["rewritten_not_executable"])
            if info.get("skipped") and name != "estimate_size":
                acc.count("comparisons_skipped_original_not_executable")
            if kind is None:
                continue
            if name == "parser":
                # a string cannot be shrunk structurally: name the violation by
                # the culprit of the normalize rewrite on the parsed tree (the
                # parser calls exactly that)
                nk, _, _ = check(ast, "normalize", env)
                if nk is not None:
                    cu = _culprit_cached(ast, "normalize", env, nk, sigcache)[0]
                    sig = "%s|parser|%s" % (shape(cu), kind)
                else:
                    sig = "parse(normalize=True) differs from normalize()|%s|parser|%s" % (shape(ast), kind)
                acc.violation(sig, {"seed": seed, "index": env.which, "ast": ast, "rewrite": name,
                                    "text": text}, "query string %r: %s" % (text, detail))
                continue
            cu, ck, cdetail, own = _culprit_cached(ast, name, env, kind, sigcache, detail)
            if name in ("operators", "simplify"):
                # these go through normalize(): a discrepancy that normalize()
                # itself shows on this case's failing sub-tree is reported
                # under that name
                nk = check(own, "normalize", env)[0]
                if not same_class(nk, kind):
                    nk = check(cu, "normalize", env)[0]
                if same_class(nk, kind):
                    acc.count("discrepancies_attributed_to_normalize")
                    continue
            case = {"seed": seed, "index": env.which, "ast": cu, "rewrite": name, "found_in": ast}
            if text is not None:
                case["found_in_text"] = text
            acc.violation("%s|%s|%s" % (shape(cu, coarse=str(ck).startswith("exc:")), name, ck), case, cdetail)
    return nontrivial


# ---------------------------------------------------------------------------
# query families

def leaves_full(seed):
    x, y = vocab(seed)
    L = [["term", "f", x, 1.0], ["term", "f", y, 1.0], ["term", "g", "a", 1.0], ["term", "g", "b", 1.0],
         ["term", "f", x, 2.0],
         ["every", 1.0], ["everyf", "f", 1.0], ["everyf", "g", 1.0], ["every", 2.0], ["everyf", "f", 0.5],
         ["null"], ["and", [], 1.0], ["or", [], 1.0],
         ["prefix", "f", x, 1.0], ["prefix", "f", "", 1.0],
         ["wild", "f", "*", 1.0], ["wild", "f", x + "*", 1.0], ["wild", "f", x, 1.0],
         ["wild", "f", "?", 1.0], ["wild", "f", "[ab]", 1.0], ["wild", "g", "*", 2.0],
         ["trange", "f", "a", "b", False, False, 1.0], ["trange", "f", "b", "c", False, False, 1.0],
         ["trange", "f", "a", "c", False, False, 1.0], ["trange", "f", "a", "c", True, True, 1.0],
         ["trange", "f", "a", "b", False, True, 1.0], ["trange", "f", None, "b", False, False, 1.0],
         ["trange", "f", "b", None, False, False, 1.0], ["trange", "f", None, None, False, False, 1.0],
         ["trange", "f", "b", "b", False, False, 1.0], ["trange", "f", "b", "b", True, False, 1.0],
         ["trange", "f", "c", "a", False, False, 1.0], ["trange", "g", "a", "b", False, False, 1.0],
         ["trange", "f", "a", "b", False, False, 2.0],
         # touching ranges that both exclude the shared boundary (merging them
         # would add the boundary term), and the half-open counterpart
         ["trange", "f", "b", "c", True, False, 1.0], ["trange", "f", "b", None, True, False, 1.0],
         ["trange", "f", None, "b", False, True, 1.0],
         ["phrase", "f", [], 1, 1.0], ["phrase", "f", [x], 1, 1.0], ["phrase", "f", [x, y], 1, 1.0],
         ["phrase", "f", [y, x], 1, 1.0], ["phrase", "f", [x, y], 2, 1.0], ["phrase", "f", [x, x], 1, 2.0]]
    return L


def leaves_mid(seed):
    x, y = vocab(seed)
    return [["term", "f", x, 1.0], ["term", "f", y, 2.0], ["term", "g", "a", 1.0],
            ["every", 1.0], ["everyf", "f", 1.0], ["null"],
            ["trange", "f", "a", "b", False, False, 1.0], ["trange", "f", "b", "c", False, False, 1.0],
            ["phrase", "f", [x, y], 1, 1.0], ["prefix", "f", "", 1.0]]


def leaves_small(seed):
    x, y = vocab(seed)
    return [["term", "f", x, 1.0], ["term", "g", "a", 2.0], ["every", 1.0], ["everyf", "f", 1.0],
            ["null"], ["trange", "f", "a", "b", False, False, 1.0]]


def leaves_tiny(seed):
    x, y = vocab(seed)
    return [["term", "f", x, 1.0], ["every", 1.0], ["everyf", "f", 1.0],
            ["trange", "f", "a", "b", False, False, 1.0]]


def nary(op, kids, boost=1.0, slop=1):
    if op in ("seq", "ord"):
        return [op, list(kids), slop, boost]
    return [op, list(kids), boost]


def one_op(L, inner_boost=False):
    """Every tree with exactly one operator over the leaves L (arity 1-2)."""
    for op in UNARY:
        for a in L:
            yield ["not", a] if op == "not" else ["const", a, 1.5]
    for op in NARY:
        for a in L:
            yield nary(op, [a])
    for op in NARY:
        for a in L:
            for b in L:
                yield nary(op, [a, b])
    for op in BINOPS:
        for a in L:
            for b in L:
                yield [op, a, b]


def gen(family, seed=0):
    full = leaves_full(seed)
    mid = leaves_mid(seed)
    small = leaves_small(seed)
    tiny = leaves_tiny(seed)
    if family == "d0":
        for l in full:
            yield l
    elif family == "d1":
        for t in one_op(full):
            yield t
    elif family == "d1_boost":
        # boosted / sloppy compounds, arity 2, mid leaves
        for op in NARY:
            for a in mid:
                for b in mid:
                    yield nary(op, [a, b], boost=2.0)
        for op in ("seq", "ord"):
            for a in mid:
                for b in mid:
                    yield nary(op, [a, b], slop=2)
    elif family == "d1_three":
        for op in NARY:
            for a in mid:
                for b in mid:
                    for c in mid:
                        yield nary(op, [a, b, c])
    elif family == "extras":
        x, y = vocab(seed)
        z = [w for w in "abc" if w not in (x, y)][0]
        X = [["x", k, x, y, z] for k in EXTRA_KINDS]
        for l in X:
            yield l
        for a in X:
            yield ["not", a]
            yield ["const", a, 1.5]
        for op in NARY:
            for a in X:
                yield nary(op, [a])
                for b in small:
                    yield nary(op, [a, b])
                    yield nary(op, [b, a])
        for op in BINOPS:
            for a in X:
                for b in small:
                    yield [op, a, b]
                    yield [op, b, a]
    elif family == "neardup":
        for t in gen_neardup(seed):
            yield t
    elif family in ("d2_small", "d2_mid"):
        L = small if family == "d2_small" else mid
        for t in depth2(L):
            yield t
    elif family == "d3_tiny":
        inner2 = list(depth2(tiny, ops=("and", "or", "andnot", "not"))) + list(one_op_few(tiny))
        for op in ("and", "or", "dismax"):
            for i in inner2:
                for c in tiny:
                    yield nary(op, [i, c])
        for op in ("andnot", "require"):
            for i in inner2:
                for c in tiny:
                    yield [op, i, c]
                    yield [op, c, i]
        for i in inner2:
            yield ["not", i]
    else:
        raise ValueError(family)


def one_op_few(L):
    for op in ("and", "or"):
        for a in L:
            for b in L:
                yield nary(op, [a, b])


def depth2(L, ops=None):
    """op(inner, leaf), op(leaf, inner), unary(inner) with inner = one
    operator over L; same-type nesting also with a boosted inner compound."""
    inner = [t for t in one_op(L) if ops is None or t[0] in ops]
    # Ordered / Otherwise as the OUTER operator are left to depth 1 (their
    # normalize() only maps over the children, like Sequence / AndNot)
    outer_n = [o for o in NARY if (ops is None and o != "ord") or (ops and o in ops)]
    outer_b = [o for o in BINOPS if (ops is None and o != "otherwise") or (ops and o in ops)]
    for i in inner:
        if ops is None or "not" in ops:
            yield ["not", i]
        if ops is None:
            yield ["const", i, 1.5]
    for op in outer_n:
        for i in inner:
            for c in L:
                yield nary(op, [i, c])
                yield nary(op, [c, i])
                if i[0] == op and len(i[1]) == 2:
                    bi = list(i)
                    bi[-1] = 2.0
                    yield nary(op, [bi, c], boost=0.5)
    for op in outer_b:
        for i in inner:
            for c in L:
                yield [op, i, c]
                yield [op, c, i]


# near-duplicate families (corpus P)
#
# normalize() drops "duplicate" clauses and merges "overlapping" ones; whether
# two clauses are duplicates is decided by the __eq__/__hash__ of the query
# classes.  So for EVERY public query class every pair of instances that differ
# in exactly ONE match-relevant constructor parameter (and every pair of equal
# instances) is put side by side under every operator.

def pspec(seed):
    """[(class name, [(parameter, domain)...], mk(values) -> AST)] - the
    instances of a class are the full product of the domains."""
    x, y, xv, xv2, yv = p_words(seed)
    srt = sorted([x, y, xv, xv2, yv])

    def T(w, f="f"):
        return ["term", f, w, 1.0]
    tx, ty, tz = T(x), T(y), T(xv)
    FG = ("fieldname", ["f", "g"])
    B1 = ("boost", [1.0])

    def P(cls):
        return lambda v: ["p", cls, list(v)]

    def near(a, b):
        return ["p", "spannear", [a, b, 2, True, 1]]
    AB = [("a", [tx, tz]), ("b", [ty, tz])]
    spec = [
        ("term", [FG, ("text", [x, y])], lambda v: ["term", v[0], v[1], 1.0]),
        ("prefix", [FG, ("text", [x[:2], xv])], lambda v: ["prefix", v[0], v[1], 1.0]),
        # (xv without any pattern character: a Wildcard is then that one word, a
        # Regex - anchored at the start only - every word beginning with it)
        ("wild", [FG, ("text", ["?" + x[1:], x[:3] + "?", xv])], lambda v: ["wild", v[0], v[1], 1.0]),
        ("regex", [FG, ("text", ["[%s%s]%s" % (x[0], y[0], x[1:]), x[:3] + ".", xv]), B1], P("regex")),
        ("fuzzy", [FG, ("text", [x, y]), B1, ("maxdist", [1, 2]), ("prefixlength", [0, 2])], P("fuzzy")),
        ("variations", [FG, ("text", [x, y]), B1], P("variations")),
        ("trange", [FG, ("start", [srt[0], srt[1]]), ("end", [srt[3], srt[4]]),
                    ("startexcl", [False, True]), ("endexcl", [False, True])],
         lambda v: ["trange", v[0], v[1], v[2], v[3], v[4], 1.0]),
        ("nrange", [("fieldname", ["n", "m"]), ("start", [0, 1]), ("end", [3, 4]),
                    ("startexcl", [False, True]), ("endexcl", [False, True]), B1], P("nrange")),
        ("drange", [("fieldname", ["d"]), ("start", [P_DATES[0], P_DATES[1]]),
                    ("end", [P_DATES[3], P_DATES[4]]), ("startexcl", [False, True]),
                    ("endexcl", [False, True]), B1], P("drange")),
        ("phrase", [FG, ("words", [[x, y], [y, x]]), ("slop", [1, 2])],
         lambda v: ["phrase", v[0], list(v[1]), v[2], 1.0]),
        ("every", [("fieldname", ["f", "g", None])],
         lambda v: ["every", 1.0] if v[0] is None else ["everyf", v[0], 1.0]),
        ("sequence", [("subqueries", [[tx, ty], [ty, tx]]), ("slop", [1, 2]), ("ordered", [True, False]), B1],
         P("sequence")),
        ("ordered", [("subqueries", [[tx, ty], [ty, tx]]), ("slop", [1, 2])],
         lambda v: ["ord", list(v[0]), v[1], 1.0]),
        ("spannear", AB + [("slop", [1, 2]), ("ordered", [True, False]), ("mindist", [1, 2])], P("spannear")),
        ("spannear2", [("qs", [[tx, ty], [ty, tx]]), ("slop", [1, 2]), ("ordered", [True, False]),
                       ("mindist", [1, 2])], P("spannear2")),
        ("spanfirst", [("q", [tx, ty]), ("limit", [0, 1])], P("spanfirst")),
        ("spanor", [("subqs", [[tx, ty], [tx, tz]])], P("spanor")),
        ("spannot", [("a", [near(tx, ty), near(ty, tx)]), ("b", [tz, ty])], P("spannot")),
        ("spancontains", [("a", [near(tx, ty), near(ty, tx)]), ("b", [tz, ty])], P("spancontains")),
        ("spanbefore", AB, P("spanbefore")),
        ("spancondition", AB, P("spancondition")),
        # NestedParent / NestedChildren are left to the 'extras' family: their
        # meaning is only documented on indexes written with parent/child groups
        ("weighting", [("child", [tx, ty])], P("weighting")),
        ("not", [("query", [tx, ty])], lambda v: ["not", v[0]]),
        ("const", [("child", [tx, ty])], lambda v: ["const", v[0], 1.5]),
    ]
    for op in BINOPS:
        spec.append((op, AB, (lambda o: lambda v: [o, v[0], v[1]])(op)))
    for op in ("and", "or", "dismax"):
        spec.append((op, [("subqueries", [[tx, ty], [tx, tz]])], (lambda o: lambda v: [o, list(v[0]), 1.0])(op)))
    return spec


# parameters that are documented not to influence which documents match
# (AndMaybe's optional side, Otherwise's fallback only when the first query is
# empty on the index, Ordered ignores slop)
NOT_MATCH_RELEVANT = ("andmaybe.b", "otherwise.b", "ordered.slop")


def near_pairs(seed):
    """(class, differing parameter or None, q, q2): every ordered pair of
    instances of one class that differ in exactly one parameter, and every
    instance paired with itself."""
    for cls, params, mk in pspec(seed):
        doms = [d for _, d in params]
        insts = list(itertools.product(*[range(len(d)) for d in doms]))

        def ast_of(ix):
            return mk([doms[i][j] for i, j in enumerate(ix)])
        for a in insts:
            yield cls, None, ast_of(a), ast_of(a)
        for a in insts:
            for b in insts:
                diff = [i for i in range(len(a)) if a[i] != b[i]]
                if len(diff) == 1:
                    yield cls, params[diff[0]][0], ast_of(a), ast_of(b)


def pair_trees(q, q2, t):
    """The two clauses under every operator: side by side, with an unrelated
    clause between them, spread over nested same-type compounds (flattened by
    normalize(), also with boosts), one of them negated, and as the operands
    of the binary operators."""
    for op in ("and", "or", "dismax"):
        yield nary(op, [q, q2])
    for op in ("and", "or", "dismax"):
        yield nary(op, [q, t, q2])
    for op in ("and", "or", "dismax"):
        yield nary(op, [nary(op, [q, t]), q2])
        yield nary(op, [q, nary(op, [t, q2])])
        yield nary(op, [nary(op, [q, t], boost=2.0), q2], boost=0.5)
    yield nary("and", [q, ["not", q2]])
    yield nary("or", [q, ["not", q2]])
    for op in BINOPS:
        yield [op, q, q2]
    yield nary("seq", [q, q2])
    yield nary("ord", [q, q2])


def gen_neardup(seed):
    t = ["term", "g", p_words(seed)[0], 1.0]
    for cls, pname, q, q2 in near_pairs(seed):
        for tree in pair_trees(q, q2, t):
            yield tree


def parser_par_texts(tier, seed=0):
    """Well-formed query strings whose clauses are near-duplicates: the
    spellings of a fuzzy term (FuzzyTermPlugin: word~ word~2 word~1/2
    word~2/2) next to the plain word, a prefix and a phrase."""
    x, y, xv, xv2, yv = p_words(seed)
    T = [x + "~", x + "~2", x + "~1/2", x + "~2/2", y + "~", x, x[:2] + "*", "g:" + x + "~",
         '"%s %s"' % (x, y)]
    OPS = ["", "AND", "OR", "ANDNOT", "ANDMAYBE", "REQUIRE", "AND NOT", "OR NOT"]
    T3 = T[:4] if tier == "thorough" else T[:2]

    def j(*p):
        return " ".join(s for s in p if s)
    for t in T:
        yield t
    for t in T:
        yield "NOT " + t
    for a in T:
        for op in OPS:
            for b in T:
                yield j(a, op, b)
    for a in T3:
        for o1 in OPS:
            for b in T3:
                for o2 in OPS:
                    for c in T3:
                        yield j(a, o1, b, o2, c)
                        yield j("(" + j(a, o1, b) + ")", o2, c)
                        yield j(a, o1, "(" + j(b, o2, c) + ")")


def task_guard(env, seed, acc):
    """Vacuity guard of the near-duplicate families: for every class and
    parameter, in how many pairs the parameter changes the matched documents
    on P (run() demands at least one)."""
    for cls, pname, q, q2 in near_pairs(seed):
        if pname is None:
            continue
        a, b = env.run(build(q)), env.run(build(q2))
        key = "%s.%s" % (cls, pname)
        acc.count("neardup_pairs")
        acc.count("neardup_pairs:" + key)
        if a[0] == "ok" and b[0] == "ok" and a[1] != b[1]:
            acc.count("neardup_distinguished")
            acc.count("neardup_distinguished:" + key)


# parser family: well-formed expressions of the default query language

def parser_texts(tier, seed=0):
    x, y = vocab(seed)
    T = [x, "g:a", "*:*", "[a TO b]", "{a TO c]", x + "*", "*", '"%s %s"' % (x, y), y + "^2", "[b TO]",
         "g:*", "f:[b TO c]"]
    OPS = ["", "AND", "OR", "ANDNOT", "ANDMAYBE", "REQUIRE", "AND NOT", "OR NOT"]
    T3 = T[:7] if tier == "thorough" else T[:4]

    def j(*p):
        return " ".join(s for s in p if s)
    for t in T:
        yield t
    for t in T:
        yield "NOT " + t
    for a in T:
        for op in OPS:
            for b in T:
                yield j(a, op, b)
    for a in T3:
        for o1 in OPS:
            for b in T3:
                for o2 in OPS:
                    for c in T3:
                        yield j(a, o1, b, o2, c)
                        yield j("(" + j(a, o1, b) + ")", o2, c)
                        yield j(a, o1, "(" + j(b, o2, c) + ")")


# ---------------------------------------------------------------------------

def task(t):
    family, start, stop, seed, tier, which = t
    acc = core.Acc()
    envs = [Env(w, seed) for w in which]
    sigcache = {}
    try:
        if family == "neardup_guard":
            task_guard(envs[0], seed, acc)
        elif family in ("parser", "parser_par"):
            qp = envs[0].parser()
            texts = parser_texts if family == "parser" else parser_par_texts
            for i, text in enumerate(texts(tier, seed)):
                if i < start:
                    continue
                if i >= stop:
                    break
                q0 = qp.parse(text, normalize=False)
                try:
                    ast = from_whoosh(q0)
                except ValueError:
                    acc.count("parser_output_outside_ast")
                    continue
                if fp(build(ast)) != fp(q0):
                    raise core.HarnessError("AST round trip not faithful for %r: %r" % (text, q0))
                eval_case(ast, envs, acc, seed, sigcache, names=("parser", "normalize"), text=text)
                if i % 997 == 3:
                    acc.sample({"text": text, "parsed": repr(q0), "normalized": repr(qp.parse(text))})
        else:
            for i, ast in enumerate(gen(family, seed)):
                if i < start:
                    continue
                if i >= stop:
                    break
                eval_case(ast, envs, acc, seed, sigcache)
                if i % 2503 == 11:
                    q = build(ast)
                    try:
                        n = repr(q.normalize())
                    except Exception as e:
                        n = "raised %r" % (e,)
                    acc.sample({"family": family, "ast": ast, "query": repr(q), "normalized": n})
    finally:
        for e in envs:
            e.close()
    return acc.result()


def plan(tier, seed=0):
    """(family, chunk size, index realisations).  Quick: both realisations of
    V for everything up to depth 1, one (rotated by seed) for the rest."""
    both = ("one", "two")
    pboth = ("par1", "par2")
    if tier == "quick":
        single = (both[seed % 2],)
        psingle = (pboth[seed % 2],)
        return [("d0", 40, both), ("d1", 500, both), ("d1_boost", 500, both), ("extras", 500, both),
                ("neardup_guard", 1, psingle), ("neardup", 600, psingle), ("parser_par", 1200, psingle),
                ("d1_three", 800, single), ("d2_small", 800, single), ("parser", 1200, single)]
    return [("d0", 40, both), ("d1", 500, both), ("d1_boost", 500, both), ("extras", 500, both),
            ("neardup_guard", 1, ("par1",)), ("neardup", 500, pboth), ("parser_par", 800, pboth),
            ("d1_three", 500, both), ("d2_small", 500, both), ("d2_mid", 500, both),
            ("d3_tiny", 500, both), ("parser", 800, both)]


def run(ctx):
    seed = ctx.seed
    tasks = []
    sizes = {}
    for family, chunk, which in plan(ctx.tier, seed):
        if family == "parser":
            n = sum(1 for _ in parser_texts(ctx.tier, seed))
        elif family == "parser_par":
            n = sum(1 for _ in parser_par_texts(ctx.tier, seed))
        elif family == "neardup_guard":
            n = 1
        else:
            n = sum(1 for _ in gen(family, seed))
        if family != "neardup_guard":
            sizes[family] = n
        for start in range(0, n, chunk):
            tasks.append((family, start, min(n, start + chunk), seed, ctx.tier, which))
    docs, _ = v_docs(seed)
    ctx.extra["families"] = sizes
    ctx.extra["V_live_documents"] = len(docs) - 1
    ctx.extra["index_variants"] = 2
    ctx.extra["plan"] = [[f, list(w)] for f, _, w in plan(ctx.tier, seed)]
    ctx.extra["rewrites"] = list(REWRITES) + ["parser"]
    pd, _ = p_docs(seed)
    ctx.extra["P_live_documents"] = len(pd) - 1
    ctx.extra["P_vocabulary"] = list(p_words(seed))
    ctx.extra["neardup_classes"] = dict((cls, [[n, len(d)] for n, d in params]) for cls, params, _ in pspec(seed))
    ctx.rule = ("every query tree of the families %s: d0 = 40 leaves (Term in two fields, Every()/Every(f), "
                "NullQuery, empty And/Or, Prefix, Wildcard incl. '*', 'x*', literal, '?', '[ab]', 13 TermRanges "
                "overlapping/touching/nested/open/point/void/inverted, Phrase of 0-2 words, duplicates, boosts "
                "!= 1); d1 = one operator (And, Or, DisjunctionMax, Sequence, Ordered of 1-2 children; Not, "
                "ConstantScoreQuery; AndNot, AndMaybe, Require, Otherwise) over all leaf pairs; d1_boost = boosted "
                "/ slop-2 compounds; d1_three = 3 children; d2_* / d3_tiny = depth 2 / 3 over reduced leaf sets "
                "incl. same-type nesting with boosts; extras = the remaining public query types (Regex, FuzzyTerm, "
                "Variations, Span*, Nested*, WeightingQuery) as leaves under one operator; parser = every "
                "well-formed query-language string of <=3 clauses x 8 connectives x bracketings.  "
                "neardup (on the parameter corpus P: f = every sequence of <=2 words over 5 words at edit "
                "distance 0/1/2 with and without a common prefix and with morphological variations, and every "
                "3-word sequence over 3 of them; g absent or one of 3 words; numeric n x m; datetime d) = for "
                "every public query class (Term, Prefix, Wildcard, Regex, FuzzyTerm, Variations, TermRange, "
                "NumericRange, DateRange, Phrase, Every, Sequence, Ordered, SpanNear, SpanNear2, SpanFirst, "
                "SpanOr, SpanNot, SpanContains, SpanBefore, SpanCondition, WeightingQuery, Not, "
                "ConstantScoreQuery, AndNot, AndMaybe, Require, Otherwise, And, Or, DisjunctionMax) the full "
                "product of two values per match-relevant constructor parameter (field name, text, start, "
                "end, startexcl, endexcl, words, slop, ordered, mindist, maxdist, prefixlength, limit, "
                "sub-queries), every ORDERED pair of instances differing in exactly one parameter and every "
                "instance paired with itself, the two clauses put under And / Or / DisjunctionMax (adjacent; "
                "with an unrelated clause between; spread over nested same-type compounds, also boosted), "
                "And/Or with the second negated, the four binary operators, Sequence and Ordered - 23 trees "
                "per pair; parser_par = every query string of <=3 clauses over the FuzzyTermPlugin spellings "
                "word~ word~2 word~1/2 word~2/2 next to the plain word, a prefix and a phrase, parsed with "
                "the default parser + FuzzyTermPlugin on P.  Each tree x "
                "the index realisations of V / P named in 'plan' (1 segment; 2 segments + deleted duplicate) x "
                "every rewrite (the operators & | - are applied wherever a node is a two-child And/Or).  "
                "Documents via docs_for_query, every discrepancy confirmed via search(limit=None).  A case "
                "(query, index) is non-trivial when the original query matches neither no nor all live "
                "documents; enumerated without repetition" % (sorted(sizes),))
    ctx.assumptions = [
        "oracle is the original query executed on the same searcher; the executor itself is decided by C01",
        "V is complete for documents with <=3 tokens over {a,b,c} in f and any subset of {a,b} in g",
        "where a sub-query normalises to NullQuery under And/Not both documented readings (matches nothing / "
        "empty query that normalize() removes) are accepted",
        "a comparison is skipped when the original query cannot be executed or the two access paths disagree",
        "P is complete for the near-duplicate families: both clauses of a pair mention one field (two when the "
        "field name is the differing parameter) and P holds every combination of contents of f x g and of n x m; "
        "run() checks that every match-relevant parameter of every class changes the matched documents on P",
        "NestedParent/NestedChildren are not part of the near-duplicate family (documented only on indexes "
        "written with parent/child groups); they stay opaque leaves of the 'extras' family",
    ]
    ctx.pmap(task, tasks)
    c = ctx.counters
    if c.get("rewrite_changed_structure", 0) < 1000 or c.get("changed:normalize", 0) < 100:
        raise core.HarnessError("vacuous: rewrites changed the query structure in only %d evaluations"
                                % c.get("rewrite_changed_structure", 0))
    # near-duplicate families: the corpus must tell the two clauses of a pair
    # apart for every class and match-relevant parameter, and duplicate
    # elimination must actually have engaged
    for cls, params, _ in pspec(seed):
        for pname, dom in params:
            key = "%s.%s" % (cls, pname)
            if len(dom) < 2 or key in NOT_MATCH_RELEVANT:
                continue
            if c.get("neardup_distinguished:" + key, 0) < 1:
                raise core.HarnessError("vacuous: corpus P never distinguishes two %s queries that differ in %s "
                                        "(%d pairs)" % (cls, pname, c.get("neardup_pairs:" + key, 0)))
    if c.get("original_not_executable", 0) * 2 > c.get("cases", 1):
        raise core.HarnessError("vacuous: %d of %d original queries could not be executed"
                                % (c.get("original_not_executable", 0), c.get("cases", 0)))


def replay(case):
    core.setup_process(case.get("seed", 0))
    env = Env(case["index"], case.get("seed", 0))
    try:
        ast = case["ast"]
        kind, detail, info = check(ast, case["rewrite"], env, case.get("text"))
        q = build(ast)
        out = {"ok": kind is None, "kind": kind, "what": detail or "rewrite preserves the meaning",
               "query": repr(q), "rewrite": case["rewrite"], "index": case["index"], "info": info}
        orig = env.run(q)
        def brief(ds):
            ds = env.show(ds)
            return {"count": len(ds), "first": ds[:12]}
        out["original_docs"] = brief(orig[1]) if orig[0] == "ok" else list(orig[1:])
        try:
            rq = rewrite(case["rewrite"], ast, env, case.get("text")) \
                if case["rewrite"] not in ("idempotent", "estimate_size") else None
            if rq is not None:
                out["rewritten"] = repr(rq)
                got = env.run(rq)
                out["rewritten_docs"] = brief(got[1]) if got[0] == "ok" else list(got[1:])
        except Exception as e:
            out["rewritten"] = "raised %r" % (e,)
        return out
    finally:
        env.close()
