"""C17 - index- and query-time analysis agree: documents are findable by
their own words.

E1 (bounded exhaustive): texts = every concatenation of <= 3 (thorough 4)
chunks of a 13-chunk alphabet (lower/upper case letter, stop word, accented
letter, sharp s, letter+digit, hyphenated word, possessive, URL, space, '.',
',', a 70-character word; chunks joined directly) x every shipped analyzer /
filter chain on the field types that analyse text.  All texts of one
(configuration, shard) go into ONE real index (one document per text, stored
key), built once per task.

Oracle = relations between whoosh's own paths (no second analyzer; only R4a
compares the tokenizer stage with reference models of the shipped tokenizers):

 R0  analysing / indexing the text does not raise
 R1  doc in search(Term(f, t)) for every token t of field.tokenize(mode=index)
 R2  doc in search(And(Term(t) for t in field.process_text(mode=query))), in
     search(parser.term_query(f, text)), in search(parser.parse("'text'"))
     (single quotes: the documented way to pass arbitrary characters as one
     term) and in search(parser.parse(text)) for whitespace-free texts
     without operator characters; on positional fields additionally
     parser.parse('"text"') when index and query tokens coincide and occupy
     consecutive positions
 R3  positional fields: doc in search(Phrase(f, run)) for every run of 2-3
     tokens at consecutive positions
 R4  positions non-decreasing in order of appearance; 0 <= startchar <=
     endchar <= len(text); text[startchar:endchar] re-analyses to (a stream
     containing) the token
 R4a the tokenizer stage of every chain (its first item, called with
     positions and chars) yields exactly the (text, startchar, endchar
     [, position]) sequence of a reference model written from the tokenizer's
     documentation: IDTokenizer (the whole text), RegexTokenizer (every match
     / with gaps=True every non-empty piece between matches, hence also the
     Space- and CommaSeparatedTokenizer), CharsetTokenizer (maximal runs of
     characters the map translates, translated), NgramTokenizer (every
     substring of minsize..maxsize characters); PathTokenizer records no
     offsets and is not modelled
 R4b in one-to-one chains every final token carries the (startchar, endchar)
     of a tokenizer-stage token: filters hand the offsets through
 R6  the highlighter's re-tokenisation (the field's analyzer in index mode with
     removestops=False, tokens marked ``stopped`` ignored) yields the
     index-time token list with the same character offsets
 R5  Hit.highlights(f) for {Whole, Sentence, Context, Pinpoint}Fragmenter x
     {Uppercase, Html, Null}Formatter x search(terms=False|True): the three
     formatters agree modulo their markup; with markup stripped every
     fragment is a substring of the stored text; every marked span
     re-analyses to a stream containing a query term (weak) / consisting of
     query terms only (strong)
 R5x queries spanning two fields: every document holds its text in f and in a
     second field g of the same type; for every highlight term t (as R5) and
     its cyclic successor o among the document's distinct tokens,
     search(And([Term(f, o), Term(g, t)]), terms=False|True) finds the
     document and highlights(g) (Whole fragmenter; with terms=True also
     Pinpoint = stored-characters path) marks only spans that re-analyse to
     t, g's only query term, never the term asked for in f, and is the same
     excerpt highlights(f) gave for the single-field query Term(f, t)

Violations are shrunk on a one-document index (drop chunks, then drop filters
of the chain) and the signature is relation | kind | field type : minimal
chain, so one root cause gives one signature whatever configuration exposed
it.
"""
import re
import html
import itertools
import traceback

from mc import core

PID = "C17"
LEVEL = "exploration"

LONG = "abcdefghij" * 7          # 70 chars, period 10 (few distinct n-grams)
ALPHABETS = [
    ["a", "B", "the", u"\xe9", u"\xdf", "x1", "ab-cd", "it's", "http://a.b/c",
     " ", ".", ",", LONG],
    ["i", "Q", "and", u"\xfc", u"İ", "r2", "ab_cd", "O'Neil's",
     "ftp://x.y/z", "\t", "!", ";", "Ab1" * 24],
    ["o", "Z", "is", u"\xe7", u"ǅ", "7z", "ab.cd", "we're",
     "www.a-b.c", "\n", ".", ",", u"\xe4bcdefghi" * 8],
]
SENT = u"┃"                 # fragment separator handed to the formatters
SHARD_TEXTS = {"quick": 300, "thorough": 620}


def alphabet(seed):
    return ALPHABETS[seed % len(ALPHABETS)]


def all_chunk_tuples(nmax, nalpha=13):
    """simplest first: by number of chunks, then lexicographic in alphabet order"""
    for n in range(1, nmax + 1):
        for tup in itertools.product(range(nalpha), repeat=n):
            yield tup


def nmax_of(tier):
    return 4 if tier == "thorough" else 3


def shard_tuples(nmax, shard, nshards):
    return [tup for j, tup in enumerate(all_chunk_tuples(nmax)) if j % nshards == shard]


# --------------------------------------------------------------------------
# configurations

def _configs():
    from whoosh import analysis as A, fields as F
    from whoosh.support.charset import accent_map, default_charset, charset_table_to_dict

    def T(ana, **kw):
        kw.setdefault("chars", True)
        return F.TEXT(analyzer=ana, stored=True, **kw)

    RT, LC = A.RegexTokenizer, A.LowercaseFilter
    WS = r"\S+"
    c = {}

    def add(name, build, **flags):
        c[name] = (build, flags)

    # shipped analyzers on TEXT(chars=True, stored=True)
    add("id", lambda: T(A.IDAnalyzer()))
    add("id_lower", lambda: T(A.IDAnalyzer(lowercase=True)))
    add("keyword", lambda: T(A.KeywordAnalyzer()))
    add("keyword_lower_commas", lambda: T(A.KeywordAnalyzer(lowercase=True, commas=True)))
    add("regex", lambda: T(A.RegexAnalyzer()))
    add("simple", lambda: T(A.SimpleAnalyzer()))
    add("simple_gaps", lambda: T(A.SimpleAnalyzer(r"[\s.,]+", gaps=True)))
    add("simple_gaps_group", lambda: T(A.SimpleAnalyzer(r"(\s|[.,;])+", gaps=True)))
    add("standard", lambda: T(A.StandardAnalyzer()))
    add("standard_nostop", lambda: T(A.StandardAnalyzer(stoplist=None)))
    add("standard_minmax", lambda: T(A.StandardAnalyzer(minsize=1, maxsize=10)))
    add("standard_gaps", lambda: T(A.StandardAnalyzer(expression=r"\s+", gaps=True)))
    add("standard_positions", lambda: T(A.StandardAnalyzer(), chars=False))
    add("standard_freq", lambda: T(A.StandardAnalyzer(), chars=False, phrase=False))
    add("stemming", lambda: T(A.StemmingAnalyzer()))
    add("stemming_nocache", lambda: T(A.StemmingAnalyzer(cachesize=None, minsize=1)))
    add("fancy", lambda: T(A.FancyAnalyzer()))
    add("fancy_merge", lambda: T(A.FancyAnalyzer(mergewords=True, mergenums=True)))
    for lang in ("en", "de", "fr", "es", "ru", "it"):
        add("lang_" + lang, (lambda l: (lambda: T(A.LanguageAnalyzer(l))))(lang))
    add("text_lang_de", lambda: F.TEXT(lang="de", chars=True, stored=True))
    add("ngram", lambda: T(A.NgramAnalyzer(2)), hlq="ends")
    add("ngramword", lambda: T(A.NgramWordAnalyzer(3)), hlq="ends")
    add("ngramword_start", lambda: T(A.NgramWordAnalyzer(2, 3, at="start")))
    add("ngramword_end", lambda: T(A.NgramWordAnalyzer(1, 3, at="end")))
    # filters
    add("charset_accent", lambda: T(RT() | A.CharsetFilter(accent_map)))
    add("charset_lower_accent", lambda: T(RT() | LC() | A.CharsetFilter(accent_map)))
    add("charset_tokenizer", lambda: T(A.CharsetTokenizer(charset_table_to_dict(default_charset))))
    add("charset_tokenizer_total", lambda: T(A.CharsetTokenizer(_total_charmap())))
    add("biword", lambda: T(RT() | LC() | A.BiWordFilter()))
    add("biword_stop", lambda: T(RT() | LC() | A.StopFilter() | A.BiWordFilter("_")))
    add("shingle2", lambda: T(RT() | LC() | A.ShingleFilter(2)))
    add("shingle3", lambda: T(RT() | LC() | A.ShingleFilter(3, " ")))
    add("intraword", lambda: T(RT(WS) | A.IntraWordFilter() | LC()))
    add("intraword_merge", lambda: T(RT(WS) | A.IntraWordFilter(mergewords=True, mergenums=True) | LC()))
    add("intraword_nosplit", lambda: T(RT(WS) | A.IntraWordFilter(splitwords=False, splitnums=False, mergewords=True) | LC()))
    add("intraword_multi", lambda: T(RT(WS) | A.MultiFilter(
        index=A.IntraWordFilter(mergewords=True, mergenums=True),
        query=A.IntraWordFilter(mergewords=False, mergenums=False)) | LC()))
    add("dmetaphone", lambda: T(RT() | A.DoubleMetaphoneFilter()))
    add("dmetaphone_combine", lambda: T(RT() | LC() | A.DoubleMetaphoneFilter(combine=True)))
    add("substitution", lambda: T(RT(WS) | A.SubstitutionFilter("-", "")))
    add("substitution_swap", lambda: T(RT(WS) | A.SubstitutionFilter(r"([^-]*)-(.*)", r"\2-\1")))
    add("reverse", lambda: T(RT() | A.ReverseTextFilter()))
    add("stop_norenumber", lambda: T(RT() | LC() | A.StopFilter(renumber=False)))
    add("stop_min1_max3", lambda: T(RT() | LC() | A.StopFilter(minsize=1, maxsize=3)))
    add("stop_lang", lambda: T(RT() | LC() | A.StopFilter(lang="de", stoplist=None)))
    add("tee_lower_reverse", lambda: T(RT(WS) | A.TeeFilter(LC(), A.ReverseTextFilter())))
    add("tee_pass_biword", lambda: T(RT(WS) | A.TeeFilter(A.PassFilter(), A.BiWordFilter()) | LC()))
    add("multi_stem_index_query", lambda: T(RT() | LC() | A.MultiFilter(
        index=A.StemFilter(), query=A.StemFilter())))
    add("compound", lambda: T(RT() | LC() | A.CompoundWordFilter(
        frozenset(["a", "b", "the", "x1", "ab", "cd", "abcdefghij"]), keep_compound=True)))
    add("path", lambda: T(A.PathTokenizer(), chars=False), chars=False, hl=False)
    # other field types that analyse text
    add("f_keyword", lambda: F.KEYWORD(stored=True))
    add("f_keyword_lower_commas", lambda: F.KEYWORD(stored=True, lowercase=True, commas=True, scorable=True))
    add("f_id", lambda: F.ID(stored=True))
    add("f_idlist", lambda: F.IDLIST(stored=True))
    add("f_ngram", lambda: F.NGRAM(stored=True), hlq="ends")
    add("f_ngram_1_2_or", lambda: F.NGRAM(minsize=1, maxsize=2, queryor=True), hl=False)
    add("f_ngram_3_phrase", lambda: F.NGRAM(minsize=3, maxsize=3, phrase=True), hl=False)
    add("f_ngramwords", lambda: F.NGRAMWORDS(stored=True), hlq="ends")
    add("f_ngramwords_start", lambda: F.NGRAMWORDS(minsize=1, maxsize=3, at="start"), hl=False)
    add("f_ngramwords_end", lambda: F.NGRAMWORDS(minsize=2, maxsize=5, at="end"), hl=False)
    add("f_reversefield", lambda: F.ReverseField(F.TEXT(stored=True, chars=True)), wrapper=True)
    for n in ONE_TO_ONE:
        c[n][1]["strong"] = True
    for n in CONTEXT_DEPENDENT:
        c[n][1]["exact"] = False
    # dynamic (glob) fields: the same relations must hold when the field type is
    # found through a name pattern instead of a declared name
    for n in GLOB_VARIANTS:
        build, flags = c[n]
        c["glob_" + n] = (build, dict(flags, glob=True))
    return c


GLOB_VARIANTS = ["standard", "stemming", "fancy", "f_keyword_lower_commas", "f_ngramwords"]

# chains that emit exactly one token per source span: a marked span must
# re-analyse to query terms only (strong form of R5)
ONE_TO_ONE = ["id", "id_lower", "keyword", "keyword_lower_commas", "regex", "simple", "simple_gaps", "simple_gaps_group", "standard",
              "standard_nostop", "standard_minmax", "standard_gaps", "standard_positions", "standard_freq",
              "stemming", "stemming_nocache", "lang_en", "lang_de", "lang_fr", "lang_es", "lang_ru", "lang_it",
              "text_lang_de", "charset_accent", "charset_lower_accent", "charset_tokenizer",
              "charset_tokenizer_total", "substitution", "substitution_swap", "reverse", "stop_norenumber",
              "stop_min1_max3", "stop_lang", "multi_stem_index_query", "f_keyword", "f_keyword_lower_commas",
              "f_id", "f_idlist"]
# word n-grams: a gram cut out of its word does not tokenize like the word
# (e.g. "a." out of "a.b"), so re-analysis of text[startchar:endchar] is not
# demanded (offset bounds still are)
CONTEXT_DEPENDENT = ["ngramword", "ngramword_start", "ngramword_end", "f_ngramwords", "f_ngramwords_start",
                     "f_ngramwords_end"]


def _total_charmap():
    """The Sphinx default table with an explicit None ("token break", as the
    CharsetTokenizer docs define it) for every character it does not list."""
    from whoosh.support.charset import default_charset, charset_table_to_dict
    m = dict(charset_table_to_dict(default_charset))
    for alpha in ALPHABETS:
        for ch in "".join(alpha):
            m.setdefault(ord(ch), None)
    return m


_CFG = None


def configs():
    global _CFG
    if _CFG is None:
        _CFG = _configs()
    return _CFG


def chain_items(ana):
    from whoosh.analysis import CompositeAnalyzer
    if isinstance(ana, CompositeAnalyzer):
        return list(ana.items)
    return [ana]


def build_field(cfgname, keep=None):
    from whoosh.analysis import CompositeAnalyzer
    build, flags = configs()[cfgname]
    field = build()
    if keep is not None:
        items = chain_items(field.analyzer)
        sel = [items[j] for j in keep]
        field.analyzer = sel[0] if len(sel) == 1 else CompositeAnalyzer(*sel)
    return field, flags


def chain_name(field):
    return "+".join(type(it).__name__ for it in chain_items(field.analyzer))


def in_analysis(e):
    tb = traceback.extract_tb(e.__traceback__)
    fr = [f for f in tb if "/whoosh/" in f.filename]
    return bool(fr) and "/whoosh/analysis/" in fr[-1].filename


def exc_kind(e):
    tb = traceback.extract_tb(e.__traceback__)
    fr = [f for f in tb if "/whoosh/" in f.filename] or list(tb)
    return "exc:%s@%s:%s" % (type(e).__name__, fr[-1].filename.split("/")[-1], fr[-1].name)


# --------------------------------------------------------------------------
# reference models of the shipped tokenizers (R4a), written from their
# documentation: -> [(token text, position or None, startchar, endchar)]

def ref_tokenize(tok, text):
    """What the first item of a chain must yield for text with positions and
    chars in index mode; None when the tokenizer is not modelled."""
    from whoosh import analysis as A
    cls = type(tok)
    if cls is A.IDTokenizer:
        # "the entire input string as a single token"
        return [(text, None, 0, len(text))]
    if cls is A.RegexTokenizer:
        matches = [(m.start(), m.end()) for m in tok.expression.finditer(text)]
        if tok.gaps:
            # "splits on the expression": the non-empty pieces between matches
            spans, at = [], 0
            for a, b in matches:
                spans.append((at, a))
                at = b
            spans.append((at, len(text)))
            spans = [(a, b) for a, b in spans if b > a]
        else:
            # "each match of the expression equals a token"
            spans = matches
        return [(text[a:b], n, a, b) for n, (a, b) in enumerate(spans)]
    if cls is A.CharsetTokenizer:
        # "characters that map to None are token break characters, for all
        # other characters the map is used to translate": tokens = maximal
        # runs of translated characters
        out, run, start = [], [], None
        for j, ch in enumerate(text + u"\0"):
            tr = tok.charmap.get(ord(ch)) if j < len(text) else None
            if tr:
                if start is None:
                    start = j
                run.append(tr)
            elif start is not None:
                out.append(("".join(run), len(out), start, j))
                run, start = [], None
        return out
    if cls is A.NgramTokenizer:
        # every substring of minsize..maxsize characters, by start, then size
        out = []
        for a in range(len(text)):
            for size in range(tok.min, tok.max + 1):
                if a + size <= len(text):
                    out.append((text[a:a + size], None, a, a + size))
        return out
    return None


# --------------------------------------------------------------------------
# one real index over a list of texts

BARE_OK = re.compile(r"^[\w.,\-]+$", re.UNICODE)
OPWORDS = frozenset(["AND", "OR", "NOT", "ANDNOT", "ANDMAYBE", "REQUIRE", "TO"])
HTML_SPAN = re.compile(r'<strong class="match term\d+">(.*?)</strong>', re.DOTALL)


def quotable(text):
    """'text' is read by SingleQuotePlugin as exactly this term text"""
    if not text or "\n" in text or "\r" in text:
        return False        # the parser's quoting does not span lines
    for m in re.finditer("'", text):
        nxt = text[m.end():m.end() + 1]
        if nxt == "" or nxt.isspace() or nxt in "])}":
            return False
    return True


class Env(object):
    def __init__(self, cfgname, keep, texts, nchunks=None):
        from whoosh import fields as F
        from whoosh.filedb.filestore import RamStorage
        from whoosh.qparser import QueryParser
        self.cfgname = cfgname
        self.field, self.flags = build_field(cfgname, keep)
        schema_field = self.field
        if self.flags.get("wrapper"):
            # a FieldWrapper indexes the plain field name through its subfield
            self.field = schema_field.subfield
        self.fname = "f"
        self.texts = texts
        self.nchunks = nchunks
        self.want_chars = self.flags.get("chars", True)
        self.positional = bool(self.field.format and self.field.supports("positions"))
        self.has_chars = bool(self.field.format and self.field.supports("characters"))
        self.hl = self.flags.get("hl", True) and bool(self.field.stored)
        self.exact = self.flags.get("exact", True) and self.want_chars
        self.strong = self.flags.get("strong", False)
        # "g": a second field of the same type holding the same text, so that
        # queries can span two fields that contain the same words (R5x)
        self.gname = "g"
        self.xfield = self.hl
        if self.flags.get("glob"):
            # the same field type registered as a DYNAMIC field: the concrete
            # names exist only in the documents and in the queries
            self.fname, self.gname = "f_dyn", "g_dyn"
            self.schema = F.Schema(k=F.STORED)
            self.schema.add("f_*", schema_field, glob=True)
            if self.xfield:
                gfield, _ = build_field(cfgname, keep)
                self.schema.add("g_*", gfield, glob=True)
        elif self.xfield:
            gfield, _ = build_field(cfgname, keep)
            self.schema = F.Schema(k=F.STORED, f=schema_field, g=gfield)
        else:
            self.schema = F.Schema(k=F.STORED, f=schema_field)
        from whoosh.analysis import Tokenizer
        self.tok0 = chain_items(self.field.analyzer)[0]
        if not isinstance(self.tok0, Tokenizer):
            self.tok0 = None
        self.parser = QueryParser(self.fname, self.schema)
        self.build_problems = {}     # text index -> problem
        self.itoks = {}
        skip = set()
        while True:
            self.ix = RamStorage().create_index(self.schema)
            w = self.ix.writer()
            failed = None
            for i, text in enumerate(texts):
                if i in skip:
                    continue
                if i not in self.itoks:
                    try:
                        self.itoks[i] = self.tokens(text, "index")
                    except Exception as e:
                        self.build_problems[i] = (0, exc_kind(e), "analyze-index",
                                                  "field.tokenize(%r, mode='index') raised %r" % (text, e))
                        skip.add(i)
                        continue
                try:
                    if self.xfield:
                        w.add_document(**{"k": i, self.fname: text, self.gname: text})
                    else:
                        w.add_document(**{"k": i, self.fname: text})
                except Exception as e:
                    self.build_problems[i] = (0, exc_kind(e), "add_document",
                                              "add_document(f=%r) raised %r" % (text, e))
                    skip.add(i)
                    failed = i
                    break
            if failed is None:
                w.commit()
                break
            w.cancel()
        self.searcher = self.ix.searcher()
        self.docnum = {}
        for dn in self.searcher.reader().all_doc_ids():
            self.docnum[self.searcher.stored_fields(dn)["k"]] = dn
        self.qcache = {}
        self.rcache = {}
        self.nsearch = 0
        self.pcache = {}

    def close(self):
        try:
            self.searcher.close()
            self.ix.close()
        except Exception:
            pass

    # -- analysis -----------------------------------------------------------
    def tokens(self, text, mode):
        kw = {"mode": mode, "positions": True}
        if self.want_chars:
            kw["chars"] = True
        out = []
        for t in self.field.tokenize(text, **kw):
            out.append((t.text, getattr(t, "pos", None), getattr(t, "startchar", None),
                        getattr(t, "endchar", None)))
        return out

    def token_texts(self, text, mode="index"):
        key = (text, mode)
        v = self.pcache.get(key)
        if v is None:
            v = self.pcache[key] = frozenset(t[0] for t in self.tokens(text, mode))
        return v

    # -- queries ------------------------------------------------------------
    def mkq(self, key):
        from whoosh import query as Q
        kind = key[0]
        if kind == "term":
            return Q.Term(self.fname, key[1])
        if kind == "and":
            return Q.And([Q.Term(self.fname, t) for t in key[1]])
        if kind == "phrase":
            return Q.Phrase(self.fname, list(key[1]))
        if kind == "xand":
            # one term in each of the two fields
            return Q.And([Q.Term(self.fname, key[1]), Q.Term(self.gname, key[2])])
        if kind == "termq":
            return self.parser.term_query(self.fname, key[1], Q.Term)
        if kind == "parse":
            return self.parser.parse(key[1])
        raise ValueError(kind)

    def results(self, key, terms=False):
        """(results, rank by docnum) or an exception instance, cached"""
        ck = (key, terms)
        v = self.rcache.get(ck)
        if v is None:
            try:
                q = self.mkq(key)
                if q is None:
                    v = (None, None, "None")
                else:
                    # equal query objects (e.g. parse("'x y'") == term_query("x y"))
                    # are searched once: same searcher, same query, same result
                    try:
                        v = self.qcache.get((q, terms))
                    except TypeError:
                        v = None
                    if v is None:
                        r = self.searcher.search(q, limit=None, terms=terms)
                        rank = dict((d, i) for i, (_, d) in enumerate(r.top_n))
                        v = (r, rank, repr(q)[:300])
                        self.nsearch += 1
                        try:
                            self.qcache[(q, terms)] = v
                        except TypeError:
                            pass
            except Exception as e:
                v = e
            self.rcache[ck] = v
        return v


def evict(env, key, terms):
    """Forget a cached Results object after a highlight call on it raised:
    whoosh caches per-field highlight state on the Results, so the exception
    would otherwise echo in every later document sharing the query."""
    v = env.rcache.pop((key, terms), None)
    if v is not None and not isinstance(v, Exception):
        for k2 in [k2 for k2, v2 in env.qcache.items() if v2 is v]:
            del env.qcache[k2]


FRAGMENTERS = ("WholeFragmenter", "SentenceFragmenter", "ContextFragmenter", "PinpointFragmenter")
# search(terms=True) changes (a) where the highlighter takes the words from
# (matched_terms instead of query_terms; independent of the fragmenter, so one
# retokenizing fragmenter suffices) and (b) the PinpointFragmenter path
# (character ranges loaded from the postings instead of re-tokenizing)
TERMS_TRUE_FRAGMENTERS = ("WholeFragmenter", "PinpointFragmenter")
RETOKENIZING = frozenset(["WholeFragmenter/retok", "SentenceFragmenter/retok", "ContextFragmenter/retok"])


_H = None


def _hl():
    global _H
    if _H is None:
        from whoosh import highlight
        _H = highlight
    return _H


def _formatters():
    H = _hl()
    nf = H.NullFormatter()
    nf.between = SENT
    return H.UppercaseFormatter(between=SENT), H.HtmlFormatter(between=SENT), nf


def parse_html(out):
    """[(marked, text)] from HtmlFormatter output"""
    segs = []
    pos = 0
    for m in HTML_SPAN.finditer(out):
        if m.start() > pos:
            segs.append((False, html.unescape(out[pos:m.start()])))
        segs.append((True, html.unescape(m.group(1))))
        pos = m.end()
    if pos < len(out):
        segs.append((False, html.unescape(out[pos:])))
    return segs


def check_doc(env, i, acc=None):
    """All relations for text number i of env.  Returns a list of problems
    (rel, kind, sub, detail)."""
    def cnt(k, n=1):
        if acc is not None:
            acc.count(k, n)

    P = []
    text = env.texts[i]
    if i in env.build_problems:
        return [env.build_problems[i]]
    dn = env.docnum.get(i)
    if dn is None:
        raise core.HarnessError("document %d (%r) not in the index" % (i, text))
    itoks = env.itoks[i]
    fname = env.fname

    def demand(rel, sub, key, terms=False):
        v = env.results(key, terms)
        cnt("searches_checked")
        if rel == 2:
            r2_subs[0] += 1
        if isinstance(v, Exception):
            if in_analysis(v):
                # the analyzer itself crashed (reached through the parser): R0 class
                P.append((0, exc_kind(v), "analyze-query", "%s for text %r raised %r" % (key, text, v)))
            else:
                P.append((rel, exc_kind(v), sub, "%s for text %r raised %r" % (key, text, v)))
            return None
        r, rank, qrepr = v
        if r is None:
            return None
        if dn not in rank:
            P.append((rel, "missing", sub, "text %r: document not in search(%s)" % (text, qrepr)))
            return None
        return v

    # R1 ---------------------------------------------------------------
    distinct = []
    seen = set()
    for t in itoks:
        if t[0] not in seen:
            seen.add(t[0])
            distinct.append(t[0])
    for tt in distinct:
        cnt("r1_term_checks")
        demand(1, "term", ("term", tt))

    # R2 ---------------------------------------------------------------
    qtoks = None
    r2_subs = [0]
    try:
        qtoks = list(env.field.process_text(text, mode="query"))
    except Exception as e:
        P.append((0, exc_kind(e), "analyze-query", "process_text(%r, mode='query') raised %r" % (text, e)))
    qdistinct = []
    for tt in (qtoks or ()):
        if tt not in qdistinct:
            qdistinct.append(tt)
    if qtoks:
        cnt("r2_cases")
        demand(2, "and", ("and", tuple(qdistinct)))
        demand(2, "term_query", ("termq", text))
        if quotable(text):
            cnt("r2_parse_quoted")
            demand(2, "parse-quoted", ("parse", "'" + text + "'"))
        if BARE_OK.fullmatch(text) and text.upper() not in OPWORDS:
            cnt("r2_parse_bare")
            demand(2, "parse-bare", ("parse", text))
        if (env.positional and env.want_chars and '"' not in text and quotable(text)
                and [t[0] for t in itoks] == qtoks
                and [t[1] for t in itoks] == list(range(itoks[0][1], itoks[0][1] + len(itoks)))):
            cnt("r2_parse_phrase")
            demand(2, "parse-phrase", ("parse", '"' + text + '"'))
    elif qtoks is not None:
        cnt("r2_no_query_tokens")
        if itoks:
            # the text put terms into the index but yields nothing to search
            # for under query-time analysis: the document cannot be found by
            # its own words at all
            cnt("r2_index_tokens_but_no_query_tokens")
            P.append((2, "no-query-tokens", "and",
                      "text %r: %d index-time tokens but no query-time tokens" % (text, len(itoks))))

    # R2f: which token attributes the caller asks for (positions / chars; the
    # index asks for them, a query does not) must not change the tokens' texts
    ana = getattr(env.field, "analyzer", None)
    if ana is not None:
        for mode in ("index", "query"):
            try:
                plain = [tk.text for tk in ana(text, mode=mode)]
                full = [tk.text for tk in ana(text, positions=True, chars=True, mode=mode)]
                cnt("r2_flag_independence_checks")
                if plain != full:
                    P.append((2, "tokens-depend-on-requested-attributes", "analyze/" + mode,
                              "text %r mode=%s: tokens %r without positions/chars, %r with them" % (text, mode, plain, full)))
            except Exception as e:
                P.append((0, exc_kind(e), "analyze-flags", "analyzer(%r, mode=%r) with/without positions raised %r" % (text, mode, e)))

    r2 = [p for p in P if p[0] == 2]
    if len(r2) > 1:
        bykind = {}
        for p in r2:
            bykind.setdefault(p[1], []).append(p)
        for kind, ps in bykind.items():
            if len(ps) == r2_subs[0] and len(ps) > 1:
                for p in ps:
                    P.remove(p)
                P.append((2, kind, "all-paths", ps[0][3]))

    # R3 ---------------------------------------------------------------
    if env.positional and itoks:
        bypos = {}
        for tt, pos, _, _ in itoks:
            if pos is not None:
                lst = bypos.setdefault(pos, [])
                if tt not in lst:
                    lst.append(tt)
        runs = set()
        for p in bypos:
            if p + 1 in bypos:
                for a in bypos[p]:
                    for b in bypos[p + 1]:
                        runs.add((a, b))
                        if p + 2 in bypos:
                            for c3 in bypos[p + 2]:
                                runs.add((a, b, c3))
        for run in sorted(runs):
            cnt("r3_phrase_checks")
            demand(3, "phrase%d" % len(run), ("phrase", run))

    # R6: the highlighter re-tokenises the stored text with the field's analyzer
    # in index mode but keeps the stop words (removestops=False) and ignores the
    # tokens marked ``stopped``: what is left must be the index-time token list
    try:
        kw = {"mode": "index", "positions": True, "removestops": False}
        if env.want_chars:
            kw["chars"] = True
        kept = [(t.text, getattr(t, "startchar", None), getattr(t, "endchar", None))
                for t in env.field.tokenize(text, **kw) if not t.stopped]
        cnt("r6_retokenisations")
        want = [(tt, sc, ec) for tt, pos, sc, ec in itoks]
        if kept != want:
            if [k[0] for k in kept] != [w[0] for w in want]:
                P.append((6, "retok-tokens", "", "text %r: the highlighter's analysis (index mode, stop words kept but marked) "
                          "leaves the unstopped tokens %r, index-time analysis gave %r"
                          % (text, [k[0] for k in kept], [w[0] for w in want])))
            else:
                P.append((6, "retok-offsets", "", "text %r: the highlighter's analysis gives (text, startchar, endchar) %r, "
                          "index-time analysis %r" % (text, kept, want)))
    except Exception as e:
        P.append((6, exc_kind(e), "analyze-retok", "field.tokenize(%r, mode='index', removestops=False) raised %r" % (text, e)))

    # R4 ---------------------------------------------------------------
    last = None
    for tt, pos, sc, ec in itoks:
        if pos is not None:
            if last is not None and pos < last:
                P.append((4, "pos-decreasing", "", "text %r: positions %r" % (text, [t[1] for t in itoks])))
                break
            last = pos
    r4_failed = False
    if env.want_chars:
        for tt, pos, sc, ec in itoks:
            cnt("r4_offset_checks")
            if sc is None or ec is None:
                P.append((4, "offset-missing", "", "text %r: token %r has no startchar/endchar although chars=True" % (text, tt)))
                break
            if not (0 <= sc <= ec <= len(text)):
                P.append((4, "offset-range", "", "text %r (len %d): token %r has chars (%r, %r)" % (text, len(text), tt, sc, ec)))
                break
            src = text[sc:ec]
            if src.lower() != tt:
                cnt("r4_token_differs_from_source")
            if not env.exact:
                continue
            cnt("r4_reanalysis_checks")
            try:
                back = env.token_texts(src)
            except Exception as e:
                # the analyzer crashes on a text: same class as R0
                P.append((0, exc_kind(e), "analyze-index", "field.tokenize(%r, mode='index') raised %r" % (src, e)))
                break
            if tt not in back:
                P.append((4, "offset-reanalysis", "", "text %r: token %r claims chars (%d, %d) = %r which analyses to %r"
                          % (text, tt, sc, ec, src, sorted(back))))
                break
        # R4a/R4b: the tokenizer stage against its reference model; filters
        # of one-to-one chains hand the tokenizer's spans through
        if env.tok0 is not None:
            ref = ref_tokenize(env.tok0, text)
            if ref is None:
                cnt("r4_tokenizer_not_modelled")
            else:
                cnt("r4_tokenizer_model_checks")
                try:
                    stage = [(t.text, t.pos, t.startchar, t.endchar)
                             for t in env.tok0(text, positions=True, chars=True, mode="index")]
                except Exception as e:
                    stage = None
                    if not any(p[0] == 0 for p in P):
                        P.append((0, exc_kind(e), "analyze-index", "%s(%r, positions=True, chars=True) raised %r"
                                  % (type(env.tok0).__name__, text, e)))
                if stage is not None:
                    # positions are compared where the documentation pins them (ref pos not None)
                    same_model = len(stage) == len(ref) and all(
                        g[0] == r[0] and g[2:] == r[2:] and (r[1] is None or g[1] == r[1])
                        for g, r in zip(stage, ref))
                    if not same_model:
                        kind = "tokenizer-model"
                        if [x[0] for x in stage] == [x[0] for x in ref]:
                            kind = "tokenizer-model-offsets"
                            if [(x[2], x[3]) for x in stage] == [(x[2], x[3]) for x in ref]:
                                kind = "tokenizer-model-positions"
                        P.append((4, kind, "", "text %r: %s yields (text, pos, startchar, endchar) %r, its documentation gives %r"
                                  % (text, type(env.tok0).__name__, stage[:6], ref[:6])))
                    else:
                        if stage and (stage[0][2] > 0 or any(x[2] - y[3] >= 2 for x, y in zip(stage[1:], stage))):
                            # leading separator / run of >= 2 separator characters
                            cnt("r4_tokenizer_model_separator_runs")
                        if env.strong and not any(p[0] == 4 for p in P):
                            cnt("r4_filter_span_checks")
                            spans = set((x[2], x[3]) for x in stage)
                            for tt, pos, sc, ec in itoks:
                                if (sc, ec) not in spans:
                                    P.append((4, "offset-moved-by-filter", "",
                                              "text %r: token %r has chars (%r, %r), the tokenizer's spans are %r"
                                              % (text, tt, sc, ec, sorted(spans)[:8])))
                                    break
        r4_failed = any(p[0] == 4 for p in P)

    # R5 ---------------------------------------------------------------
    if env.hl and distinct:
        H = _hl()
        # thorough tier, 4-chunk texts: lighter highlight programme (see run())
        light = bool(env.nchunks and env.nchunks[i] >= 4)
        if env.flags.get("hlq") == "ends" or light:
            hterms = [distinct[0]] if len(distinct) == 1 else [distinct[0], distinct[-1]]
        else:
            hterms = distinct
        hq = [(("term", tt), frozenset([tt])) for tt in hterms]
        if len(qdistinct) > 1:
            hq.append((("and", tuple(qdistinct)), frozenset(qdistinct)))
        flagged = set()
        P5 = []
        subs_run = set()
        single = {}      # (term, fragmenter, terms) -> HtmlFormatter excerpt of field f for Term(f, term)
        for key, qterms in hq:
            for terms in (False, True):
                v = env.results(key, terms)
                if isinstance(v, Exception) or v[0] is None or dn not in v[1]:
                    continue        # already reported by R1/R2
                r, rank, qrepr = v
                hit = r[rank[dn]]
                if hit.docnum != dn:
                    raise core.HarnessError("hit lookup mismatch")
                for frname in FRAGMENTERS:
                    if terms and frname not in TERMS_TRUE_FRAGMENTERS:
                        continue
                    path = "chars" if (terms and frname == "PinpointFragmenter" and env.has_chars) else "retok"
                    sub = "%s/%s" % (frname, path)
                    subs_run.add(sub)
                    outs = []
                    allfm = (not light) or (frname == "WholeFragmenter" and not terms)
                    try:
                        for fi, fm in enumerate(_formatters()):
                            if fi != 1 and not allfm:
                                outs.append(None)
                                continue
                            r.fragmenter = getattr(H, frname)()
                            r.formatter = fm
                            cnt("r5_highlight_calls")
                            outs.append(hit.highlights(fname))
                    except Exception as e:
                        if (sub, "exc") not in flagged:
                            flagged.add((sub, "exc"))
                            P5.append((5, exc_kind(e), sub, "text %r query %s terms=%s: highlights raised %r"
                                       % (text, qrepr, terms, e)))
                        evict(env, key, terms)
                        continue
                    up, ht, nu = outs
                    if key[0] == "term":
                        single[(key[1], frname, terms)] = ht
                    if path == "chars":
                        cnt("r5_pinpoint_stored_chars_path")
                    if not ht:
                        cnt("r5_empty_highlight")
                        if allfm and (up or nu):
                            P5.append((5, "formatter-disagree", sub, "text %r query %s: html '' but upper %r null %r" % (text, qrepr, up, nu)))
                        continue
                    cnt("r5_nonempty_highlights")
                    segs = parse_html(ht)
                    plain = "".join(s for _, s in segs)
                    upper = "".join(s.upper() if m else s for m, s in segs)

                    def flag(kind, detail):
                        if (sub, kind) not in flagged:
                            flagged.add((sub, kind))
                            P5.append((5, kind, sub, "text %r query %s terms=%s: %s" % (text, qrepr, terms, detail)))
                    if allfm and plain != nu:
                        flag("formatter-disagree", "html stripped %r != null formatter %r" % (plain, nu))
                    if allfm and upper != up:
                        flag("formatter-disagree", "html with marked spans uppercased %r != uppercase formatter %r" % (upper, up))
                    for frag in plain.split(SENT):
                        if frag not in text:
                            flag("not-substring", "fragment %r (of %r) is not a substring of the stored text" % (frag, ht))
                    nmarked = 0
                    for m, s in segs:
                        if not m:
                            continue
                        nmarked += 1
                        cnt("r5_marked_spans")
                        if not env.exact or r4_failed:
                            # the span relation presupposes R4 for this text
                            cnt("r5_span_checks_skipped")
                            continue
                        try:
                            back = env.token_texts(s)
                        except Exception as e:
                            if not any(p[0] == 0 for p in P):
                                P.append((0, exc_kind(e), "analyze-index",
                                          "field.tokenize(%r, mode='index') raised %r" % (s, e)))
                            continue
                        if not (back & qterms):
                            flag("span-not-term", "marked span %r (in %r) analyses to %r, none of the query terms %r"
                                 % (s, ht, sorted(back), sorted(qterms)))
                        elif env.strong and not (back <= qterms):
                            flag("span-extra-token", "marked span %r (in %r) analyses to %r, query terms are only %r"
                                 % (s, ht, sorted(back), sorted(qterms)))
                    if nmarked == 0:
                        cnt("r5_highlights_without_mark")
        # R5x: a query with one term in each of two fields that hold the same
        # text.  In field g only g's query term may be marked, and the excerpt
        # is the one the single-field query Term(f, same term) gave for f
        if env.xfield and len(distinct) >= 2:
            Px = []
            xsubs_run = set()
            for tt in (hterms[:1] if light else hterms):
                other = distinct[(distinct.index(tt) + 1) % len(distinct)]
                key = ("xand", other, tt)
                qterms = frozenset([tt])
                for terms in (False, True):
                    cnt("r5x_searches_checked")
                    v = env.results(key, terms)
                    if isinstance(v, Exception):
                        if ("xfield/search", "exc") not in flagged:
                            flagged.add(("xfield/search", "exc"))
                            Px.append((5, exc_kind(v), "xfield/search", "text %r: %s terms=%s raised %r" % (text, key, terms, v)))
                        continue
                    r, rank, qrepr = v
                    if dn not in rank:
                        if not any(p[0] == 1 for p in P) and ("xfield/search", "missing") not in flagged:
                            flagged.add(("xfield/search", "missing"))
                            Px.append((5, "missing", "xfield/search", "text %r (in both fields): document not in search(%s)" % (text, qrepr)))
                        continue
                    hit = r[rank[dn]]
                    if hit.docnum != dn:
                        raise core.HarnessError("hit lookup mismatch")
                    for frname in (TERMS_TRUE_FRAGMENTERS if terms else ("WholeFragmenter",)):
                        path = "chars" if (terms and frname == "PinpointFragmenter" and env.has_chars) else "retok"
                        sub = "xfield/terms=%s/%s/%s" % (terms, frname, path)
                        xsubs_run.add(sub)

                        def flag(kind, detail):
                            if (sub, kind) not in flagged:
                                flagged.add((sub, kind))
                                Px.append((5, kind, sub, "text %r in fields f and g, query %s terms=%s, highlights('g'): %s"
                                           % (text, qrepr, terms, detail)))
                        try:
                            r.fragmenter = getattr(H, frname)()
                            r.formatter = H.HtmlFormatter(between=SENT)
                            cnt("r5x_highlight_calls")
                            ht = hit.highlights(env.gname)
                        except Exception as e:
                            flag(exc_kind(e), "raised %r" % (e,))
                            evict(env, key, terms)
                            continue
                        if path == "chars":
                            cnt("r5x_pinpoint_stored_chars_path")
                        want = single.get((tt, frname, terms))
                        nbefore = len(Px)
                        segs = parse_html(ht) if ht else []
                        for frag in "".join(x for _, x in segs).split(SENT):
                            if frag not in text:
                                flag("not-substring", "fragment %r (of %r) is not a substring of the stored text" % (frag, ht))
                        for m, x in segs:
                            if not m:
                                continue
                            cnt("r5x_marked_spans")
                            if not env.exact or r4_failed:
                                continue
                            try:
                                back = env.token_texts(x)
                            except Exception:
                                continue        # reported by R0/R5
                            if not (back & qterms):
                                flag("span-not-term", "marked span %r (in %r) analyses to %r; the only query term of "
                                     "field g is %r" % (x, ht, sorted(back), tt))
                            elif env.strong and not (back <= qterms):
                                flag("span-extra-token", "marked span %r (in %r) analyses to %r; the only query term "
                                     "of field g is %r" % (x, ht, sorted(back), tt))
                        if want is not None:
                            cnt("r5x_compared_with_single_field_query")
                            if ht != want and len(Px) == nbefore and not any(f_[0] == sub for f_ in flagged):
                                # (a more specific discrepancy of the same excerpt is reported instead)
                                flag("differs-from-single-field-query",
                                     "%r, but highlights('f') of Term('f', %r) on the same text gave %r" % (ht, tt, want))
            bykind = {}
            for p in Px:
                bykind.setdefault(p[1], []).append(p)
            for kind, ps in bykind.items():
                subs = set(p[2] for p in ps)
                tt_run = set(x for x in xsubs_run if x.startswith("xfield/terms=True/"))
                if len(xsubs_run) > 1 and subs == xsubs_run:
                    P.append((5, kind, "xfield/all", ps[0][3]))
                elif len(tt_run) > 1 and subs == tt_run:
                    P.append((5, kind, "xfield/terms=True", ps[0][3]))
                else:
                    P.extend(ps)
        # one discrepancy kind on every fragmenter path is one problem
        bykind = {}
        for p in P5:
            bykind.setdefault(p[1], []).append(p)
        for kind, ps in bykind.items():
            subs = set(p[2] for p in ps)
            if len(subs_run) > 1 and subs == subs_run:
                P.append((5, kind, "all-fragmenters", ps[0][3]))
            elif RETOKENIZING <= subs:
                P.append((5, kind, "retokenizing-fragmenters", ps[0][3]))
                P.extend(p for p in ps if p[2] not in RETOKENIZING)
            else:
                P.extend(ps)
    return P


# --------------------------------------------------------------------------
# shrinking on a one-document index

def probe(cfgname, keep, chunks):
    """problems of the single text made of chunks, alone in its own index"""
    text = "".join(chunks)
    try:
        env = Env(cfgname, keep, [text])
    except Exception as e:
        return [(0, exc_kind(e), "construct", "building the field/index raised %r" % (e,))], None
    try:
        return check_doc(env, 0), chain_name(env.field)
    finally:
        env.close()


def same(p, target):
    return p[0] == target[0] and p[1] == target[1] and p[2] == target[2]


def shrink(cfgname, chunks, target):
    """-> (keep, chunks, chain name, detail) reproducing target=(rel, kind,
    sub) on a one-document index, or None."""
    _, flags = configs()[cfgname]

    def fails(keep, ch):
        if not ch:
            return None
        P, cn = probe(cfgname, keep, ch)
        for p in P:
            if same(p, target):
                return (cn, p[3])
        return None

    got = fails(None, chunks)
    if got is None:
        return None
    chunks = list(chunks)
    changed = True
    while changed:
        changed = False
        for j in range(len(chunks)):
            cand = chunks[:j] + chunks[j + 1:]
            g = fails(None, cand)
            if g is not None:
                chunks, got, changed = cand, g, True
                break
    keep = None
    if not flags.get("wrapper"):
        field, _ = build_field(cfgname)
        n = len(chain_items(field.analyzer))
        keep = list(range(n))
        changed = n > 1
        while changed:
            changed = False
            for j in range(len(keep) - 1, 0, -1):
                cand = keep[:j] + keep[j + 1:]
                g = fails(cand, chunks)
                if g is not None:
                    keep, got, changed = cand, g, True
                    break
        if len(keep) == n:
            keep = None
    return keep, chunks, got[0], got[1]


def make_sig(rel, kind, sub, fieldkind, chain):
    s = "R%d|%s" % (rel, kind)
    if sub:
        s += "|" + sub
    return s + "|%s:%s" % (fieldkind, chain)


def _subseq(a, b):
    it = iter(b)
    return all(x in it for x in a)


def merge_sigs(sigs):
    """A violation whose minimal chain extends (as a super-sequence) a chain
    that fails in the same way by itself is attributed to the shorter chain:
    {sig: sig of the shortest sub-chain with the same relation/kind/field}."""
    groups = {}
    for sig in sigs:
        head, _, tail = sig.rpartition("|")
        if ":" not in tail:
            continue
        fieldkind, _, chain = tail.partition(":")
        groups.setdefault((head, fieldkind), []).append((chain.split("+"), sig))
    remap = {}
    for members in groups.values():
        members.sort(key=lambda m: (len(m[0]), m[1]))
        for chain, sig in members:
            for c2, s2 in members:
                if s2 != sig and len(c2) < len(chain) and _subseq(c2, chain):
                    remap[sig] = remap.get(s2, s2)
                    break
    # the same chain failing in the same way on several field types is one class
    # (TEXT is the canonical representative when present)
    bychain = {}
    for sig in sigs:
        final = remap.get(sig, sig)
        head, _, tail = final.rpartition("|")
        if ":" in tail:
            fieldkind, _, chain = tail.partition(":")
            bychain.setdefault((head, chain), set()).add((fieldkind != "TEXT", fieldkind, final))
    canon = {}
    for members in bychain.values():
        first = sorted(members)[0][2]
        for _, _, final in members:
            if final != first:
                canon[final] = first
    for sig in sigs:
        final = remap.get(sig, sig)
        if final in canon:
            remap[sig] = canon[final]
    # a search/highlight discrepancy (R1-R3, R5) that shrinks to the bare
    # tokenizer for three or more different tokenizers does not depend on the
    # analysis at all: one class
    bare = {}
    for sig in sigs:
        head, _, tail = remap.get(sig, sig).rpartition("|")
        chain = tail.partition(":")[2]
        if head[:3] in ("R1|", "R2|", "R3|", "R5|") and chain.endswith("Tokenizer") and "+" not in chain:
            bare.setdefault(head, set()).add(chain)
    for sig in sigs:
        head, _, tail = remap.get(sig, sig).rpartition("|")
        chain = tail.partition(":")[2]
        if len(bare.get(head, ())) >= 3 and chain.endswith("Tokenizer") and "+" not in chain:
            remap[sig] = head + "|*:any-tokenizer"
    return remap


# --------------------------------------------------------------------------

def task(t):
    cfgname, seed, nmax, shard, nshards = t
    acc = core.Acc()
    alpha = alphabet(seed)
    tuples = shard_tuples(nmax, shard, nshards)
    texts = ["".join(alpha[j] for j in tup) for tup in tuples]
    try:
        env = Env(cfgname, None, texts, [len(tup) for tup in tuples])
    except Exception as e:
        acc.count("evaluations")
        kind = exc_kind(e)
        acc.violation("R0|%s|construct|%s" % (kind, cfgname),
                      {"cfg": cfgname, "seed": seed, "chunks": [], "keep": None,
                       "target": [0, kind, "construct"], "ctx": None},
                      "configuration %s: building the field raised %r" % (cfgname, e))
        return acc.result()
    fieldkind = ("glob:" if env.flags.get("glob") else "") + type(env.field).__name__
    fullchain = chain_name(env.field)
    sigmap = {}
    try:
        for i, tup in enumerate(tuples):
            acc.count("evaluations")
            P = check_doc(env, i, acc)
            if env.itoks.get(i):
                acc.count("distinct_nontrivial")
                acc.count("index_tokens", len(env.itoks[i]))
            if i % 97 == 5:
                acc.sample({"cfg": cfgname, "text": texts[i], "index_tokens": [list(x) for x in env.itoks.get(i, [])][:8]})
            for p in P:
                target = (p[0], p[1], p[2])
                ent = sigmap.get(target)
                chunks = [alpha[j] for j in tup]
                if ent is None:
                    sh = shrink(cfgname, chunks, target)
                    if sh is None:
                        # needs the other documents of the shard: keep the shard as context
                        sig = make_sig(p[0], p[1], p[2], fieldkind, fullchain) + "|in-shard"
                        case = {"cfg": cfgname, "seed": seed, "chunks": chunks, "keep": None,
                                "target": list(target),
                                "ctx": {"nmax": nmax, "shard": shard, "nshards": nshards, "index": i}}
                        what = "[%s] %s" % (cfgname, p[3])
                    else:
                        keep, sch, cn, detail = sh
                        sig = make_sig(p[0], p[1], p[2], fieldkind, cn)
                        case = {"cfg": cfgname, "seed": seed, "chunks": sch, "keep": keep,
                                "target": list(target), "ctx": None, "found_in": "".join(chunks)}
                        what = "[%s, chain %s] %s" % (cfgname, cn, detail)
                    ent = sigmap[target] = (sig, case, what)
                acc.violation(ent[0], ent[1], ent[2])
    finally:
        env.close()
    return acc.result()


def run(ctx):
    seed = ctx.seed
    nmax = nmax_of(ctx.tier)
    ntexts = sum(13 ** n for n in range(1, nmax + 1))
    nshards = max(1, -(-ntexts // SHARD_TEXTS[ctx.tier]))
    names = list(configs())
    tasks = []
    for shard in range(nshards):
        for name in names:
            tasks.append((name, seed, nmax, shard, nshards))
    # the n-gram configurations are the slowest: schedule them first
    tasks.sort(key=lambda t: (0 if "ngram" in t[0] else 1, t[3]))
    ctx.extra["configurations"] = names
    ctx.extra["texts_per_configuration"] = ntexts
    ctx.extra["alphabet"] = alphabet(seed)
    ctx.extra["shards_per_configuration"] = nshards
    ctx.rule = ("case = (analyzer/field configuration, text); texts = every concatenation of 1..%d chunks of the "
                "13-chunk alphabet (seed rotates among 3 alphabets of the same shape), enumerated without "
                "repetition, simplest first; each case evaluates relations R0-R5 of the module docstring on a real "
                "index holding one document per text (the text in field f and, for the two-field highlight family "
                "R5x, again in a second field g of the same type); R4a compares the tokenizer stage of every chain "
                "with a reference model of the shipped tokenizer (ID, Regex incl. gaps/space/comma separated, "
                "Charset, Ngram), R4b demands that filters of one-to-one chains keep the tokenizer's offsets; "
                "R5x = And(Term(f, o), Term(g, t)) for every highlight term t and its cyclic successor o among the "
                "document's tokens, terms=False|True, highlights(g) must mark t only and equal the single-field "
                "excerpt; a case is non-trivial when the text yields at least one "
                "index-mode token (the document is findable at all)" % nmax)
    ctx.assumptions = [
        "one single-segment RAM index per (configuration, shard of ~%d texts); segment layout is C06's concern" % SHARD_TEXTS[ctx.tier],
        "R2 through the parser uses only constructions the query-language docs define: parser.term_query, the "
        "text in single quotes (texts whose quote characters cannot end the quoted term), the bare text when it is "
        "one whitespace-free word of word characters/.,- and not an operator word, the text in double quotes on "
        "positional fields when index and query tokens coincide at consecutive positions",
        "R2 is skipped (counted) when query-time analysis yields no token",
        "R4 re-analysis demands only that the token's text is among the tokens of text[startchar:endchar]",
        "R5: highlight queries are Term(t) for every distinct index token (n-gram configurations: first and last "
        "token) and And(query tokens); search(terms=True) is combined with the Whole and Pinpoint fragmenters only "
        "(it changes nothing else for the others); GenshiFormatter is not installed and skipped",
        "R5 on the 4-chunk texts of the thorough tier (texts of <=3 chunks get the full programme in both tiers): "
        "Term(first token), Term(last token), And(query tokens); every fragmenter with the HtmlFormatter, the three "
        "formatters compared on the WholeFragmenter only",
        "R4a: a tokenizer's documentation is read literally (RegexTokenizer: 'each match of the expression equals a "
        "token' / gaps=True 'splits on the expression' with empty pieces dropped; CharsetTokenizer: 'characters that "
        "map to None are token break characters', every other character is translated; NgramTokenizer: all grams of "
        "minsize..maxsize); positions are compared for Regex/Charset (documented to count 0,1,2,...), not for "
        "ID/Ngram tokenizers",
        "R5x: the two fields hold the same text and have the same type, so highlights(g) for And(Term(f, o), "
        "Term(g, t)) and highlights(f) for Term(f, t) are the same function of (text, analyzer, {t}); HtmlFormatter "
        "only; the search itself is C05's concern and only reported when the document is missing although R1 holds; "
        "4-chunk texts of the thorough tier: first highlight term only",
        "the 70-character word is periodic (period 10) so that n-gram configurations have few distinct grams",
    ]
    results = ctx.pmap(task, tasks, absorb=False)
    viol = []
    for res in results:
        ctx.merge_counts(res.get("counts", {}))
        for smp in res.get("samples", ()):
            ctx.sample(smp)
        viol.extend(res.get("viol", ()))
    remap = merge_sigs(set(v[0] for v in viol))
    # representative cases: first those whose own minimal chain is the signature's, simplest text first
    for sig, case, what, n in sorted(viol, key=lambda v: (v[0] in remap, len(v[1].get("chunks") or ()),
                                                          len("".join(v[1].get("chunks") or ())), repr(v[1]))):
        ctx.violation(remap.get(sig, sig), case, what, n)
    c = ctx.counters
    for k, least in (("r1_term_checks", 1000), ("r3_phrase_checks", 1000), ("r5_marked_spans", 1000),
                     ("r5_pinpoint_stored_chars_path", 100), ("r4_token_differs_from_source", 100),
                     ("r2_parse_quoted", 1000), ("r2_parse_bare", 100), ("r2_parse_phrase", 100),
                     ("r4_tokenizer_model_checks", 1000), ("r4_tokenizer_model_separator_runs", 1000),
                     ("r4_filter_span_checks", 1000), ("r5x_marked_spans", 1000),
                     ("r5x_compared_with_single_field_query", 1000), ("r5x_pinpoint_stored_chars_path", 100)):
        if c.get(k, 0) < least:
            raise core.HarnessError("vacuous: %s = %d" % (k, c.get(k, 0)))


def replay(case):
    core.setup_process(case.get("seed", 0))
    target = tuple(case["target"])
    cfgname = case["cfg"]
    if case.get("ctx"):
        cx = case["ctx"]
        alpha = alphabet(case.get("seed", 0))
        tuples = shard_tuples(cx["nmax"], cx["shard"], cx["nshards"])
        texts = ["".join(alpha[j] for j in tup) for tup in tuples]
        env = Env(cfgname, case.get("keep"), texts, [len(tup) for tup in tuples])
        try:
            P = check_doc(env, cx["index"])
            cn = chain_name(env.field)
        finally:
            env.close()
    else:
        P, cn = probe(cfgname, case.get("keep"), case["chunks"])
    hits = [p for p in P if same(p, target)]
    return {"ok": not hits, "cfg": cfgname, "chain": cn, "text": "".join(case["chunks"]),
            "what": hits[0][3] if hits else "relation holds",
            "all_problems": [[p[0], p[1], p[2], p[3]] for p in P]}
