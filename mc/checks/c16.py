"""C16 - the query parser accepts any input and honours the documented
language.

Part A (totality).  Every string that is a concatenation of <= L tokens of a
grammar-aware alphabet (words, a stop word, a non-ASCII word, the six
operators with their spaces, brackets, quotes, colon, caret, tildes, range
brackets and TO, wildcards, + - < >=, a field prefix for every field type of
a small typed schema and for an unknown field, a date, a number, a space, the
regex opener), plus every instance of a range template on every field type,
is given to every shipped parser configuration.  parse() must return a Query
or raise QueryParserError; Searcher.search() of the result on a small typed
index, on an empty index with the same schema and on an index whose schema
lacks most of the fields must return or raise QueryError.  Anything else is a
violation whose signature is (phase, exception class, innermost whoosh
function, configuration) - not the input; the input is shrunk token by token
while the signature stays the same.

Part B (meaning).  Every expression tree over the documented constructs up to
the stated size is rendered to query text (minimal parentheses, all composite
operands parenthesised, everything parenthesised; ANDNOT / ANDMAYBE / REQUIRE
are never mixed with one another without parentheses), parsed, and the set of
documents of the parsed query on the "all document contents" corpus V is
compared with the reference evaluation (mc.qast.ref_eval) of the tree read
with the stated precedence NOT > AND > OR > {ANDNOT, ANDMAYBE, REQUIRE} >
implicit grouping.  V has one document for every combination of per-field
contents, so agreement on V is agreement on every index over that vocabulary.
SimpleParser / DisMaxParser are checked on their own small language (+ - and
phrases).  The leaf constructs include those of the optional plugins, each
evaluated in the configuration that ships the plugin: all six comparison
spellings of the GtLtPlugin (< <= =< > >= =>) on a numeric, a text and a date
field, FuzzyTermPlugin (word~ word~2 word~2/1), RegexPlugin (r"..."),
FieldAliasPlugin.

Part B, calendar periods.  A date typed to a period (year, month, day, hour,
minute, second) reads as the whole period, also as a range bound.  Every kind
of period end is typed - all twelve months of a leap year, February of a
common year, of a century year that is not and of one that is a leap year,
the last day of a month / year, the last hour, minute and second - as a term,
as the bound of open and closed [ ] and { } ranges (periods of equal and of
different precision), with the six GtLt comparisons, and with month names
through the DateParserPlugin; alone, negated and combined with a word.  The
corpus holds for every typed period its first and last instant and the
instants one microsecond before and after it (plus mid-month instants).  For
an exclusive bound on a period both readings (the whole typed period is left
out / only its extreme instant is) are accepted, consistently over the corpus.

Bounds.  quick: <=3 tokens over the full 42-token alphabet, 4 tokens over a
seed-rotated 17-token alphabet, 13k range templates; trees with 1 leaf over
all ~80 leaf constructs, 2 leaves over 16, 3 leaves over 3, 4 leaves over 4
independent terms; ~360 period constructs x 4 contexts.  thorough: 4 tokens over 28 tokens, 5 tokens over 11; 2
leaves over 20, 3 leaves over 6, 4 leaves with every NOT pattern and three
leaf orders.
"""
import datetime
import itertools
import os
import signal

from mc import core, qast

PID = "C16"
LEVEL = "exploration"

_W = {}  # per-process cache: parsers, indexes, searchers (built once per worker)


# ---------------------------------------------------------------------------
# shared helpers
# ---------------------------------------------------------------------------

class CaseTimeout(BaseException):
    pass


def _on_alarm(signum, frame):
    raise CaseTimeout()


def arm(seconds):
    """Watchdog on the CPU time of this process (a hang in pure Python burns
    CPU; wall-clock time would depend on the load of the machine)."""
    try:
        signal.signal(signal.SIGVTALRM, _on_alarm)
        signal.setitimer(signal.ITIMER_VIRTUAL, seconds)
    except ValueError:      # not in the main thread: no watchdog
        pass


def disarm():
    try:
        signal.setitimer(signal.ITIMER_VIRTUAL, 0)
    except ValueError:
        pass


def classify(e):
    """(exception class name, innermost whoosh function as file:qualname)."""
    tb = e.__traceback__
    frames = []
    while tb is not None:
        code = tb.tb_frame.f_code
        fn = code.co_filename
        if "/whoosh/" in fn:
            frames.append((code.co_name, "%s:%s" % (os.path.basename(fn),
                                                    getattr(code, "co_qualname", code.co_name))))
        tb = tb.tb_next
    if not frames:
        return type(e).__name__, "?"
    where = frames[-1][1]
    # a bare accessor says nothing about the cause: name its caller as well
    if len(frames) > 1 and (frames[-1][0].startswith("__") or frames[-1][0].startswith("_test")):
        where = "%s>%s" % (frames[-2][1], where)
    return type(e).__name__, where


# ---------------------------------------------------------------------------
# Part A: totality
# ---------------------------------------------------------------------------

WORDS = ["ab", "the", u"éa"]
OPS = [" AND ", " OR ", " NOT ", " ANDNOT ", " ANDMAYBE ", " REQUIRE "]
PUNCT = ["(", ")", '"', "'", ":", "^2", "~", "~2", "[", "]", "{", "}", " TO ",
         "*", "?", "+", "-", "<", ">="]
PREFIXES = ["t:", "k:", "i:", "n:", "f:", "d:", "b:", "g:", "w:", "m:", "s:", "c:", "zz:"]
VALUES = ["200101", "7"]
MISC = [" ", 'r"']
FULL = WORDS + OPS + PUNCT + PREFIXES + VALUES + MISC

CFGS_A = ["default", "or", "multi", "simple", "dismax", "plugins", "sequence", "dates"]


def reduced(seed, n):
    """The n most structural tokens; the seed rotates which representative of
    each token class is used (every variant is a complete product space)."""
    def pick(lst, k=0):
        return lst[(seed + k) % len(lst)]
    typed = ["d:", "n:", "b:", "g:", "m:", "t:", "f:", "k:", "w:", "i:", "zz:", "s:", "c:"]
    order = ["ab", " ", "(", ")", '"', " NOT ", pick(typed), "[", "]", " TO ", "*", "^2",
             pick([" ANDNOT ", " ANDMAYBE ", " REQUIRE "]),
             pick([" AND ", " OR "]), pick(["~2", "~"]), pick(["<", ">="]),
             pick(["+", "-"]), pick(typed, 1), pick(["the", u"éa"]),
             ":", pick(["7", "200101"]), pick(["'", "?", "{", "}", 'r"']),
             pick(typed, 2), pick([" ANDNOT ", " ANDMAYBE ", " REQUIRE "], 1),
             pick([" AND ", " OR "], 1), pick(["'", "?", "{", "}", 'r"'], 1),
             pick(typed, 3), pick(["+", "-"], 1), pick(["<", ">="], 1),
             pick(["~2", "~"], 1), pick(["'", "?", "{", "}", 'r"'], 2),
             pick(typed, 4), pick(["7", "200101"], 1), pick(["the", u"éa"], 1)]
    out = []
    for t in order:
        if t not in out:
            out.append(t)
    return out[:n]


def range_templates():
    """[prefix] open start TO end close, every combination (token lists)."""
    vals = ["", "ab", "7", "200101", "the", u"éa", '"', "*", "'ab cd'"]
    for pre in [""] + PREFIXES:
        for op in ("[", "{"):
            for a in vals:
                for sep in (" TO ", " to ", "TO"):
                    for b in vals:
                        for cl in ("]", "}", ""):
                            yield [x for x in (pre, op, a, sep, b, cl) if x]


# words a user may type where a date is expected (DateParserPlugin): calendar
# values in and out of range, month/day names, relative offsets, times, keywords
DATE_TOKS = ["0000", "0", "30", "31", "32", "2001", "99999", "20010230", "200113", "2001-02-30",
             "feb", "february", "sept", "friday", "mon", "30th", "0th",
             "+9000y", "-9000y", "+1mo", "-2d", "+13h", "-0s", "next", "last", "ago",
             "now", "today", "tomorrow", "midnight", "noon",
             "13:99", "25:00", "12am", "0am", "13pm", "5:30pm", "3", "to"]


def date_strings(tier):
    """Token lists around every sequence of <= 2 (thorough 3) date words."""
    maxlen = 2 if tier == "quick" else 3
    for L in range(1, maxlen + 1):
        alpha = DATE_TOKS if L < 3 else DATE_TOKS[::3]
        for seq in itertools.product(alpha, repeat=L):
            text = " ".join(seq)
            yield ["d:", text]
            yield ["d:'", text, "'"]
            yield [text]
            if L <= 2:
                yield ["d:[", text, " to ", "]"]
                yield ["d:[", " to ", text, "]"]
                yield ["d:[", text, " to ", "feb 30", "]"]
                yield ["d:{", "now", " to ", text, "}"]


def typed_schema():
    from whoosh import fields, columns
    return fields.Schema(
        key=fields.ID(stored=True, unique=True),
        t=fields.TEXT(), k=fields.KEYWORD(scorable=True), i=fields.ID(),
        n=fields.NUMERIC(int), f=fields.NUMERIC(float), d=fields.DATETIME(),
        b=fields.BOOLEAN(), g=fields.NGRAM(minsize=2, maxsize=3),
        w=fields.NGRAMWORDS(minsize=2, maxsize=3),
        # fixed-point numbers: text is parsed through decimal.Decimal
        m=fields.NUMERIC(int, decimal_places=2),
        # fields that exist in the schema but cannot be searched
        s=fields.STORED(), c=fields.COLUMN(columns.VarBytesColumn()))


def foreign_schema():
    from whoosh import fields
    return fields.Schema(key=fields.ID(stored=True, unique=True), t=fields.TEXT())


def make_parser(cfg, sc):
    from whoosh import qparser
    from whoosh.qparser import plugins as P
    if cfg == "default":
        return qparser.QueryParser("t", sc)
    if cfg == "or":
        return qparser.QueryParser("t", sc, group=qparser.OrGroup)
    if cfg == "multi":
        return qparser.MultifieldParser(["t", "n", "m"], sc)
    if cfg == "simple":
        return qparser.SimpleParser("t", sc)
    if cfg == "dismax":
        return qparser.DisMaxParser({"t": 1.0, "d": 0.5}, sc)
    if cfg == "plugins":
        p = qparser.QueryParser("t", sc)
        p.add_plugin(P.FuzzyTermPlugin())
        p.add_plugin(P.RegexPlugin())
        p.add_plugin(P.GtLtPlugin())
        p.add_plugin(P.PlusMinusPlugin())
        p.add_plugin(P.FieldAliasPlugin({"t": ["zz"], "n": ["num"]}))
        p.add_plugin(P.CopyFieldPlugin({"t": "k", "n": "f"}))
        return p
    if cfg == "sequence":
        p = qparser.QueryParser("t", sc)
        p.remove_plugin_class(P.WildcardPlugin)
        p.add_plugin(P.PrefixPlugin())
        p.remove_plugin_class(P.PhrasePlugin)
        p.add_plugin(P.SequencePlugin())
        p.add_plugin(P.FuzzyTermPlugin())
        p.add_plugin(P.GtLtPlugin())
        return p
    if cfg == "dates":
        from whoosh.qparser.dateparse import DateParserPlugin
        p = qparser.QueryParser("t", sc)
        p.add_plugin(DateParserPlugin(basedate=datetime.datetime(2010, 6, 15, 12, 0, 0),
                                      free=True))
        return p
    raise ValueError(cfg)


def typed_docs():
    dt = datetime.datetime
    return [dict(key=u"0", t=u"ab cd the ab", k=u"ab cd", i=u"ab", n=7, f=7.5,
                 d=dt(2001, 1, 1), b=True, g=u"abcd", w=u"abcd ab", m=u"7.25", s=[1, u"ab"], c=b"ab"),
            dict(key=u"1", t=u"cd éa", k=u"éa", i=u"cd", n=-3, f=-0.5,
                 d=dt(2001, 1, 15, 12), b=False, g=u"cdab", w=u"cd"),
            dict(key=u"2", t=u"ab"),
            dict(key=u"3", k=u"ab", n=2001, d=dt(1999, 12, 31), b=True)]


def ctx_a():
    A = _W.get("A")
    if A is not None:
        return A
    from whoosh.filedb.filestore import RamStorage
    sc = typed_schema()
    docs = typed_docs()
    ix = RamStorage().create_index(sc)
    w = ix.writer()
    for d in docs[:2]:
        w.add_document(**d)
    w.commit(merge=False)
    w = ix.writer()
    for d in docs[2:]:
        w.add_document(**d)
    w.delete_by_term("key", u"2")
    w.commit(merge=False)
    eix = RamStorage().create_index(sc)
    fix = RamStorage().create_index(foreign_schema())
    w = fix.writer()
    w.add_document(key=u"0", t=u"ab cd")
    w.commit()
    A = {"parsers": dict((c, make_parser(c, sc)) for c in CFGS_A),
         "searchers": [("main", ix.searcher()), ("empty", eix.searcher()),
                       ("foreign", fix.searcher())],
         "cache": {}}
    _W["A"] = A
    return A


def has_error(q):
    if getattr(q, "error", None) is not None:
        return True
    try:
        return any(has_error(c) for c in q.children())
    except Exception:
        return False


def run_string(A, cfg, text, timeout=20.0):
    """Outcome of one (configuration, string): dict with
      viol: None or (phase, exception class, where)     detail: str
      qpe / qe / null / err / qclass: observed behaviour (vacuity counters)."""
    from whoosh.qparser.common import QueryParserError
    from whoosh.query import QueryError, Query
    from whoosh.query.qcore import _NullQuery
    out = {"viol": None, "detail": None}
    p = A["parsers"][cfg]
    arm(timeout)
    try:
        try:
            q = p.parse(text)
        except QueryParserError:
            out["qpe"] = True
            return out
        except Exception as e:
            cls, where = classify(e)
            out["viol"] = ("parse", cls, where)
            out["detail"] = "parse(%r) raised %r" % (text, e)
            return out
        if not isinstance(q, Query):
            out["viol"] = ("parse", "returned-non-Query", type(q).__name__)
            out["detail"] = "parse(%r) returned %r" % (text, q)
            return out
        if isinstance(q, _NullQuery):
            out["null"] = True
        if has_error(q):
            out["err"] = True
        out["qclass"] = type(q).__name__
        cache = A["cache"]
        try:
            hit = cache.get(q)
        except Exception:
            hit = None
        if hit is not None:
            out["cached"] = True
            out["viol"], out["detail"], out["qe"] = hit
            if out["detail"]:
                out["detail"] = "search(parse(%r)): %s" % (text, out["detail"])
            return out
        qe = False
        viol = detail = None
        for kind, s in A["searchers"]:
            try:
                r = s.search(q)
                len(r)
                for h in r:
                    h.docnum
            except QueryError:
                qe = True
            except Exception as e:
                cls, where = classify(e)
                viol = ("search" if kind == "main" else "search@%s-index" % kind, cls, where)
                detail = "%r on the %s index raised %r" % (q, kind, e)
                break
        try:
            if len(cache) > 200000:
                cache.clear()
            cache[q] = (viol, detail, qe)
        except Exception:
            pass
        out["viol"], out["qe"] = viol, qe
        if detail:
            out["detail"] = "search(parse(%r)): %s" % (text, detail)
        return out
    except CaseTimeout:
        out["viol"] = ("hang", "no result within %ds CPU" % timeout, "?")
        out["detail"] = "parse/search of %r did not finish" % (text,)
        return out
    finally:
        disarm()


def shrink_tokens(A, cfg, toks, viol):
    toks = list(toks)
    changed = True
    while changed and len(toks) > 1:
        changed = False
        for i in range(len(toks)):
            cand = toks[:i] + toks[i + 1:]
            if run_string(A, cfg, "".join(cand))["viol"] == viol:
                toks = cand
                changed = True
                break
    # simplify the surviving tokens where that keeps the failure
    for i, t in enumerate(toks):
        for simpler in ("ab", " "):
            if t != simpler and len(t) > len(simpler):
                cand = toks[:i] + [simpler] + toks[i + 1:]
                if run_string(A, cfg, "".join(cand))["viol"] == viol:
                    toks = cand
                    break
    return toks


def sig_a(cfg, viol):
    return "totality|%s|%s@%s|cfg=%s" % (viol[0], viol[1], viol[2], cfg)


def decode_len(text, alpha):
    """Number of tokens of ``alpha`` whose concatenation is ``text`` (the
    alphabet is uniquely decodable), or None."""
    best = {0: 0}
    for i in range(len(text)):
        if i not in best:
            continue
        for tok in alpha:
            if text.startswith(tok, i):
                best.setdefault(i + len(tok), best[i] + 1)
    return best.get(len(text))


def token_lists(t):
    kind = t[1]
    if kind == "prod":
        _, _, alpha, L, prefix = t
        prefix = list(prefix)
        for rest in itertools.product(alpha, repeat=L - len(prefix)):
            yield prefix + list(rest)
    elif kind == "ranges":
        # templates that are already members of a product family are skipped,
        # so no string is counted twice
        _, _, nsl, sl, products = t
        for i, toks in enumerate(range_templates()):
            if i % nsl != sl:
                continue
            text = "".join(toks)
            dup = False
            for alpha, lo, hi in products:
                n = decode_len(text, alpha)
                if n is not None and lo <= n <= hi:
                    dup = True
                    break
            if not dup:
                yield toks
    elif kind == "dates":
        _, _, tier, nsl, sl = t
        for i, toks in enumerate(date_strings(tier)):
            if i % nsl == sl:
                yield toks
    else:
        raise ValueError(kind)


def task_a(t, acc, seed):
    A = ctx_a()
    n = 0
    for toks in token_lists(t):
        text = "".join(toks)
        nontrivial = False
        n += 1
        for cfg in CFGS_A:
            acc.count("evaluations")
            acc.count("totality_evaluations")
            o = run_string(A, cfg, text)
            if o.get("qpe"):
                acc.count("parse_raised_QueryParserError")
            if o.get("qe"):
                acc.count("search_raised_QueryError")
            if o.get("err"):
                acc.count("parse_returned_error_query")
            if o.get("null"):
                acc.count("parse_returned_NullQuery")
            if o["viol"] or o.get("qpe"):
                nontrivial = True
            elif cfg == "default" and (o.get("err") or o.get("qclass") not in ("Term", "_NullQuery")):
                nontrivial = True
            v = o["viol"]
            if v is None:
                continue
            sig = sig_a(cfg, v)
            if sig in acc.viol:
                acc.violation(sig, None, None)
                continue
            small = shrink_tokens(A, cfg, toks, v)
            o2 = run_string(A, cfg, "".join(small))
            acc.violation(sig, {"part": "totality", "cfg": cfg, "text": "".join(small),
                                "tokens": small, "found_in": text, "seed": seed},
                          "[%s] %s" % (cfg, o2["detail"]))
        acc.count("totality_strings")
        if nontrivial:
            acc.count("distinct_nontrivial")
            acc.count("totality_nontrivial_strings")
        if n % 997 == 3:
            acc.sample({"part": "totality", "text": text, "configs": CFGS_A}, maxn=1)


# ---------------------------------------------------------------------------
# Part B: meaning
# ---------------------------------------------------------------------------

CFGS_B = ["default", "or", "multi", "plugins"]
CFGS_PM = ["simple", "dismax"]
SPECIAL = ("andnot", "andmaybe", "require")
BIN = ("and", "or", "andnot", "andmaybe", "require", "imp")
PREC = {"imp": 0, "require": 1, "andmaybe": 1, "andnot": 1, "or": 2, "and": 3, "not": 4}
OPTXT = {"and": " AND ", "or": " OR ", "andnot": " ANDNOT ", "andmaybe": " ANDMAYBE ",
         "require": " REQUIRE ", "imp": " "}
MODES = ("min", "full", "fullplus")

D_LO = datetime.datetime(2001, 2, 1)
D_MID = datetime.datetime(2001, 6, 15, 12)
D_HI = datetime.datetime(2001, 11, 30, 23, 59, 59, 999999)


def vocab(seed):
    c = "mkps"[seed % 4]
    return c + "a", c + "b", "zz", c


def domains(seed):
    u, v, z, _ = vocab(seed)
    return {"a": [[], [z], [u], [v], [u, v], [v, u], [u, z, v], [v, z, u]],
            "b": [[], [u], [v], [u, v]],
            "n": [None, 1, 2, 3],
            "d": [None, D_LO, D_MID, D_HI]}


def iso(y, mo, d, h=0, mi=0, s=0, us=0):
    return qast.fmt_dt(datetime.datetime(y, mo, d, h, mi, s, us))


def leaves(seed):
    """The documented leaf constructs.  ast has None in the field slot when the
    text carries no field prefix."""
    u, v, z, c = vocab(seed)
    L = []

    def add(kind, text, ast, cfgs=None, alt=None):
        # cfgs: the configurations whose language has the construct (None =
        # all); alt: a second admissible reading of the construct
        L.append({"kind": kind, "text": text, "ast": ast, "free": ast[1] is None,
                  "cfgs": cfgs, "alt": alt})
    add("word", u, ["term", None, u])
    add("word", v, ["term", None, v])
    add("fword", "b:" + u, ["term", "b", u])
    add("fword", "b:" + v, ["term", "b", v])
    add("fword", "a:" + u, ["term", "a", u])
    add("squote", "'%s'" % u, ["term", None, u])
    add("squote", "b:'%s'" % v, ["term", "b", v])
    add("phrase", '"%s %s"' % (u, v), ["phrase", None, [u, v], 1])
    add("phrase", '"%s %s"' % (v, u), ["phrase", None, [v, u], 1])
    add("phrase", '"%s"' % u, ["phrase", None, [u], 1])
    add("phrase_slop", '"%s %s"~2' % (u, v), ["phrase", None, [u, v], 2])
    add("phrase_slop", '"%s %s"~3' % (u, v), ["phrase", None, [u, v], 3])
    add("phrase_slop", '"%s %s"~2' % (v, u), ["phrase", None, [v, u], 2])
    add("phrase_slop", 'a:"%s %s"~2' % (v, u), ["phrase", "a", [v, u], 2])
    add("fphrase", 'b:"%s %s"' % (u, v), ["phrase", "b", [u, v], 1])
    add("trange_incl", "[%s TO %s]" % (u, v), ["trange", None, u, v, False, False])
    add("trange_incl", "[%s to %s]" % (u, v), ["trange", None, u, v, False, False])
    add("trange_excl", "{%s TO %s}" % (u, v), ["trange", None, u, v, True, True])
    add("trange_excl", "[%s TO %s}" % (u, v), ["trange", None, u, v, False, True])
    add("trange_excl", "{%s TO %s]" % (u, v), ["trange", None, u, v, True, False])
    add("trange_open", "[%s TO]" % v, ["trange", None, v, None, False, False])
    add("trange_open", "{%s TO]" % v, ["trange", None, v, None, True, False])
    add("trange_open", "[TO %s]" % u, ["trange", None, None, u, False, False])
    add("trange_open", "{TO %s}" % v, ["trange", None, None, v, False, True])
    add("ftrange", "b:[%s TO %s}" % (u, v), ["trange", "b", u, v, False, True])
    add("prefix", c + "*", ["prefix", None, c])
    add("wild", "?a", ["wild", None, "?a"])
    add("wild", "*b", ["wild", None, "*b"])
    add("wild", c + "?", ["wild", None, c + "?"])
    add("wild", "*a*", ["wild", None, "*a*"])
    add("fwild", "b:%s*" % c, ["prefix", "b", c])
    add("boost", u + "^2", ["term", None, u])
    add("boost", '"%s %s"^2' % (u, v), ["phrase", None, [u, v], 1])
    add("boost", "b:%s^0.5" % v, ["term", "b", v])
    add("nterm", "n:2", ["nrange", "n", 2, 2, False, False])
    add("nrange_incl", "n:[1 TO 2]", ["nrange", "n", 1, 2, False, False])
    add("nrange_excl", "n:{1 TO 3}", ["nrange", "n", 1, 3, True, True])
    add("nrange_excl", "n:[1 TO 3}", ["nrange", "n", 1, 3, False, True])
    add("nrange_excl", "n:{1 TO 2]", ["nrange", "n", 1, 2, True, False])
    add("nrange_open", "n:[2 TO]", ["nrange", "n", 2, None, False, False])
    add("nrange_open", "n:{TO 2}", ["nrange", "n", None, 2, False, True])
    # dates: start = first instant, end = last instant of the typed period
    # (docs/dates.rst).  V only holds instants on which "exclusive" can be read
    # in one way only: the first instant of the start period, the last instant
    # of the end period, and an instant well inside.
    add("dterm", "d:2001", ["drange", "d", iso(2001, 1, 1), iso(2001, 12, 31, 23, 59, 59, 999999), False, False])
    add("dterm", "d:200102", ["drange", "d", iso(2001, 2, 1), iso(2001, 2, 28, 23, 59, 59, 999999), False, False])
    add("dterm", "d:20010615120000", ["drange", "d", iso(2001, 6, 15, 12), iso(2001, 6, 15, 12, 0, 0, 999999), False, False])
    lo, hi = qast.fmt_dt(D_LO), qast.fmt_dt(D_HI)
    add("drange_incl", "d:[200102 TO 200111]", ["drange", "d", lo, hi, False, False])
    add("drange_excl", "d:{200102 TO 200111}", ["drange", "d", lo, hi, True, True])
    add("drange_excl", "d:[200102 TO 200111}", ["drange", "d", lo, hi, False, True])
    add("drange_excl", "d:{200102 TO 200111]", ["drange", "d", lo, hi, True, False])
    add("drange_open", "d:[200103 TO]", ["drange", "d", iso(2001, 3, 1), None, False, False])
    add("drange_open", "d:{TO 200110}", ["drange", "d", None, iso(2001, 10, 31, 23, 59, 59, 999999), False, True])
    # constructs of the optional plugins, in the configuration that ships them
    # ("plugins": FuzzyTermPlugin, RegexPlugin, GtLtPlugin, FieldAliasPlugin)
    PL = ("plugins",)
    for rel in GTLT_RELS:
        # GtLtPlugin: "a:>100 b:<=z" reads as "a:{100 to] b:[to z]"; it
        # "recognizes >, <, >=, <=, => and =<"
        add("gtlt_num" + rel, "n:%s2" % rel, gtlt_range("nrange", "n", 2, 2, rel), PL)
        add("gtlt_text" + rel, "b:%s%s" % (rel, v if "<" in rel else u),
            gtlt_range("trange", "b", v if "<" in rel else u, v if "<" in rel else u, rel), PL)
        # d holds the first instant of 2001-02 and the last instant of 2001-11
        # (see above): both readings of an exclusive bound agree there
        if "<" in rel:
            add("gtlt_date" + rel, "d:%s200111" % rel, gtlt_range("drange", "d", iso(2001, 11, 1), hi, rel), PL)
        else:
            add("gtlt_date" + rel, "d:%s200102" % rel,
                gtlt_range("drange", "d", lo, iso(2001, 2, 28, 23, 59, 59, 999999), rel), PL)
    add("fuzzy", u + "~", ["fuzzy", None, u, 1, 0], PL)
    add("fuzzy", u + "~2", ["fuzzy", None, u, 2, 0], PL)
    add("fuzzy", u + "~2/1", ["fuzzy", None, u, 2, 1], PL)
    add("fuzzy", "b:%s~1/1" % v, ["fuzzy", "b", v, 1, 1], PL)
    add("regex", 'r"%s."' % c, ["regex", None, c + "."], PL)
    add("regex", 'b:r"%s"' % u, ["regex", "b", u], PL)
    add("alias", "alias:" + u, ["term", "a", u], PL)
    add("alias", 'alias:"%s %s"' % (u, v), ["phrase", "a", [u, v], 1], PL)
    return L


GTLT_RELS = ("<", "<=", "=<", ">", ">=", "=>")


def gtlt_range(kind, field, first, last, rel):
    """The documented reading of field:<rel>value as a one-sided range.  first
    / last: first and last point of the typed value (the same unless the value
    is a date typed to a period); an exclusive bound is written for the reading
    'leaves the whole typed period out'."""
    if rel == "<":
        return [kind, field, None, first, False, True]
    if rel in ("<=", "=<"):
        return [kind, field, None, last, False, False]
    if rel == ">":
        return [kind, field, last, None, True, False]
    return [kind, field, first, None, False, False]


def leaf_index(L, text):
    for i, l in enumerate(L):
        if l["text"] == text:
            return i
    raise core.HarnessError("no leaf %r" % text)


def leaf_sets(seed, tier):
    L = leaves(seed)
    u, v, z, c = vocab(seed)
    med = [u, v, "b:" + u, "'%s'" % u, '"%s %s"' % (u, v), '"%s %s"~2' % (u, v),
           'b:"%s %s"' % (u, v), "[%s TO %s}" % (u, v), "{%s TO]" % v, c + "*", "?a",
           u + "^2", "n:[1 TO 3}", "d:{200102 TO 200111]"]
    # two of the six comparison spellings (rotated by the seed; all six are
    # single leaves of e1) take part in the two-leaf trees
    r1, r2 = GTLT_RELS[(2 + seed) % 6], GTLT_RELS[(5 + seed) % 6]
    med = med + ["n:%s2" % r1, "b:%s%s" % (r2, v if "<" in r2 else u)]
    small = [u, v, "b:" + u, '"%s %s"~2' % (v, u), "[%s TO]" % v]
    if tier == "quick":
        small = small[:3]
    else:
        med = med + ["b:" + v, "[TO %s]" % u, "*b", "n:2", "d:200102", '"%s %s"^2' % (u, v)]
        small = small + ["n:{1 TO 3}"]
    vars4 = [u, v, "b:" + u, "b:" + v]
    ix = lambda names: [leaf_index(L, t) for t in names]
    return L, ix(med), ix(small), ix(vars4)


def is_atom(a):
    return a[0] in ("leaf", "fgrp", "bgrp")


def kids(a):
    k = a[0]
    if k == "leaf":
        return []
    if k == "fgrp":
        return [a[2]]
    if k in ("bgrp", "not"):
        return [a[1]]
    return [a[1], a[2]]


def need_parens(parent, child, side):
    if is_atom(child):
        return False
    c = child[0]
    if parent == "not":
        return True
    if parent in ("and", "or"):
        return PREC[c] < PREC[parent]
    if parent in SPECIAL:
        if c == "imp":
            return True
        if c in SPECIAL:
            return not (side == 0 and c == parent)
        return False
    return False    # implicit grouping: everything else binds tighter


def _render(a, mode, L):
    k = a[0]
    if k == "leaf":
        t = L[a[1]]["text"]
        return "(%s)" % t if mode == 2 else t
    if k == "fgrp":
        return "%s:(%s)" % (a[1], _render(a[2], mode, L))
    if k == "bgrp":
        return "(%s)^2" % _render(a[1], mode, L)
    if k == "not":
        s = _render(a[1], mode, L)
        if need_parens("not", a[1], 0) or (mode >= 1 and not is_atom(a[1])):
            s = "(%s)" % s
        return "NOT " + s
    parts = []
    for side, c in enumerate(a[1:]):
        s = _render(c, mode, L)
        if need_parens(k, c, side) or (mode >= 1 and not is_atom(c)):
            s = "(%s)" % s
        parts.append(s)
    return OPTXT[k].join(parts)


def render(a, mode, L):
    m = MODES.index(mode)
    s = _render(a, m, L)
    if m == 2 and a[0] != "leaf":
        s = "(%s)" % s
    return s


def tree_leaves(a):
    if a[0] == "leaf":
        return [a[1]]
    out = []
    for c in kids(a):
        out.extend(tree_leaves(c))
    return out


def cfg_allowed(a, cfg, L):
    """Is every construct of the tree part of the language of cfg?"""
    for i in tree_leaves(a):
        cs = L[i].get("cfgs")
        if cs is not None and cfg not in cs:
            return False
    return True


def has_alt(a, L):
    return any(L[i].get("alt") is not None for i in tree_leaves(a))


def resolve(a, cfg, L, fctx=None, alt=False):
    """The documented reading of the tree, as a mc.qast tree (alt: with the
    second admissible reading of the leaves that have one)."""
    k = a[0]
    if k == "leaf":
        base = L[a[1]]["ast"]
        if alt and L[a[1]].get("alt") is not None:
            base = L[a[1]]["alt"]
        if base[1] is not None:
            return base
        if fctx is not None:
            return [base[0], fctx] + base[2:]
        if cfg in ("multi", "dismax"):
            return ["or", [[base[0], f] + base[2:] for f in ("a", "b")]]
        return [base[0], "a"] + base[2:]
    if k == "fgrp":
        return resolve(a[2], cfg, L, a[1], alt)
    if k == "bgrp":
        return resolve(a[1], cfg, L, fctx, alt)
    if k == "not":
        return ["not", resolve(a[1], cfg, L, fctx, alt)]
    x, y = resolve(a[1], cfg, L, fctx, alt), resolve(a[2], cfg, L, fctx, alt)
    if k == "imp":
        return ["or" if cfg == "or" else "and", [x, y]]
    if k in ("and", "or"):
        return [k, [x, y]]
    return [k, x, y]


def ast_fields(q, out=None):
    out = set(["a", "b"]) if out is None else out
    for l in qast.leaves(q):
        if len(l) > 1 and isinstance(l[1], str):
            out.add(l[1])
    return out


def b_schema():
    from whoosh import fields, analysis
    an = analysis.SpaceSeparatedTokenizer()
    return fields.Schema(key=fields.ID(stored=True, unique=True),
                         a=fields.TEXT(analyzer=an, phrase=True),
                         b=fields.TEXT(analyzer=an, phrase=True),
                         n=fields.NUMERIC(int), d=fields.DATETIME())


def make_parser_b(cfg, sc):
    from whoosh import qparser
    from whoosh.qparser import plugins as P
    if cfg == "default":
        return qparser.QueryParser("a", sc)
    if cfg == "or":
        return qparser.QueryParser("a", sc, group=qparser.OrGroup)
    if cfg == "multi":
        return qparser.MultifieldParser(["a", "b"], sc)
    if cfg == "plugins":
        p = qparser.QueryParser("a", sc)
        p.add_plugin(P.FuzzyTermPlugin())
        p.add_plugin(P.RegexPlugin())
        p.add_plugin(P.GtLtPlugin())
        p.add_plugin(P.PlusMinusPlugin())
        p.add_plugin(P.FieldAliasPlugin({"a": ["alias"]}))
        return p
    if cfg == "simple":
        return qparser.SimpleParser("a", sc)
    if cfg == "dismax":
        return qparser.DisMaxParser({"a": 1.0, "b": 0.5}, sc)
    if cfg == "dates":
        from whoosh.qparser.dateparse import DateParserPlugin
        p = qparser.QueryParser("a", sc)
        p.add_plugin(DateParserPlugin(basedate=datetime.datetime(2010, 6, 15, 12, 0, 0)))
        return p
    raise ValueError(cfg)


def ctx_b(seed):
    B = _W.get(("B", seed))
    if B is None:
        sc = b_schema()
        L, med, small, vars4 = leaf_sets(seed, "thorough")
        B = {"schema": sc, "L": L, "seed": seed, "V": {}, "memo": {},
             "parsers": dict((c, make_parser_b(c, sc)) for c in CFGS_B + CFGS_PM)}
        _W[("B", seed)] = B
    return B


def corpus_v(B, fields_):
    """V restricted to the given fields (the others are absent): one document
    for every combination of contents.  Returns (searcher, keys, model)."""
    key = tuple(sorted(fields_))
    got = B["V"].get(key)
    if got is not None:
        return got
    from whoosh.filedb.filestore import RamStorage
    dom = B.get("domains") or domains(B["seed"])
    names = [f for f in ("a", "b", "n", "d") if f in key]
    docs = []
    for combo in itertools.product(*[range(len(dom[f])) for f in names]):
        d = {"key": "".join("%s%d" % (f, i) for f, i in zip(names, combo)), "live": True}
        for f, i in zip(names, combo):
            d[f] = dom[f][i]
        docs.append(d)
    from whoosh import scoring
    ix = RamStorage().create_index(B["schema"])
    w = ix.writer()
    for d in docs:
        wd = {"key": d["key"]}
        for f in names:
            val = d[f]
            if f in ("a", "b"):
                if val:
                    wd[f] = u" ".join(val)
            elif val is not None:
                wd[f] = val
        w.add_document(**wd)
    w.commit()
    # segment layouts and scoring are C01/C09's business: one segment, the
    # cheapest weighting
    s = ix.searcher(weighting=scoring.Frequency())
    keys = [s.stored_fields(i)["key"] for i in range(s.doc_count_all())]
    model = qast.Model(docs, numeric=("n",), dates=("d",))
    got = (s, keys, model)
    B["V"][key] = got
    return got


def eval_text(B, cfg, text, ref_ast, alt_ast=None):
    """(kind, detail, nref, ndocs): kind None when the parsed text selects the
    reference set on V (or, when the construct has a second admissible
    reading, the set of that reading)."""
    s, keys, model = corpus_v(B, ast_fields(ref_ast))
    ref = qast.ref_eval(ref_ast, model)
    arm(20.0)
    try:
        try:
            q = B["parsers"][cfg].parse(text)
            nums = list(s.docs_for_query(q))
        except Exception as e:
            cls, where = classify(e)
            return ("exc:%s@%s" % (cls, where), "%r raised %r" % (text, e), len(ref), len(keys))
    except CaseTimeout:
        return ("hang", "%r did not finish" % (text,), len(ref), len(keys))
    finally:
        disarm()
    got = set(keys[i] for i in nums)
    if len(nums) != len(got):
        return ("duplicate-docs", "%r -> %r returned a document twice" % (text, q), len(ref), len(keys))
    if got == ref:
        return (None, None, len(ref), len(keys))
    if alt_ast is not None and got == qast.ref_eval(alt_ast, model):
        return (None, None, len(ref), len(keys))
    kind = "extra" if got - ref else "missing"
    if got - ref and ref - got:
        kind = "both"
    detail = ("%r parsed as %r selects %d docs of V, the documented reading %s selects %d; "
              "extra %s missing %s" % (text, q, len(got), qast.shape(ref_ast), len(ref),
                                       sorted(got - ref)[:4], sorted(ref - got)[:4]))
    return (kind, detail, len(ref), len(keys))


def eval_ast(B, cfg, a, mode):
    """Memoised per task on (cfg, text): the text determines the parse, and
    trees rendering to the same text have the same reading."""
    L = B["L"]
    text = render(a, mode, L)
    memo = B["memo"]
    r = memo.get((cfg, text))
    if r is None:
        alt = resolve(a, cfg, L, alt=True) if has_alt(a, L) else None
        r = memo[(cfg, text)] = eval_text(B, cfg, text, resolve(a, cfg, L), alt)
    return r


def failing_mode(B, cfg, a):
    for m in MODES:
        if eval_ast(B, cfg, a, m)[0] is not None:
            return m
    return None


def simple_leaves(B):
    u, v, z, c = vocab(B["seed"])
    return [leaf_index(B["L"], t) for t in (u, v, "b:" + u, "b:" + v)]


def with_kid(a, i, r):
    b = list(a)
    b[(2 if a[0] == "fgrp" else 1) + i] = r
    return b


def reductions(a, simple, L, infield=False):
    """Trees one step smaller or simpler than a: a node replaced by one of its
    operands, or a leaf replaced by a simpler leaf (plain words first)."""
    if a[0] == "leaf":
        rank = simple.index(a[1]) if a[1] in simple else len(simple)
        for s in simple[:rank]:
            if infield and not L[s]["free"]:
                continue
            yield ["leaf", s]
        return
    cs = kids(a)
    for c in cs:
        yield c
    for i, c in enumerate(cs):
        for r in reductions(c, simple, L, infield or a[0] == "fgrp"):
            yield with_kid(a, i, r)


def relabel(a, simple, L, counter, infield=False):
    """Leaves renamed to distinct plain terms in order of occurrence."""
    if a[0] == "leaf":
        pool = [s for s in simple if L[s]["free"]] if infield else simple
        i = counter[0]
        counter[0] += 1
        return ["leaf", pool[i % len(pool)]]
    b = list(a)
    for i, c in enumerate(kids(a)):
        b = with_kid(b, i, relabel(c, simple, L, counter, infield or a[0] == "fgrp"))
    return b


def culprit(B, cfg, a):
    """Greedy shrink: a failing tree none of whose one-step reductions fails.
    If the failure survives renaming the leaves to independent plain terms
    (a structural misreading), shrinking starts from that form."""
    simple = simple_leaves(B)
    cur = a
    canon = relabel(a, simple, B["L"], [0])
    if failing_mode(B, cfg, canon) is not None:
        cur = canon
    while True:
        for cand in reductions(cur, simple, B["L"]):
            if failing_mode(B, cfg, cand) is not None:
                cur = cand
                break
        else:
            return cur


def skeleton_abs(a, L, simple):
    k = a[0]
    if k == "leaf":
        return "*" if a[1] in simple else L[a[1]]["kind"]
    if k == "fgrp":
        return "field:(%s)" % skeleton_abs(a[2], L, simple)
    if k == "bgrp":
        return "(%s)^" % skeleton_abs(a[1], L, simple)
    return "%s(%s)" % (k, ",".join(skeleton_abs(c, L, simple) for c in kids(a)))


# -- enumeration ------------------------------------------------------------

def lf(i):
    return ["leaf", i]


def neg(a, flag):
    return ["not", a] if flag else a


def gen_e1(L, n=1, ch=0):
    for i, l in enumerate(L):
        x = lf(i)
        yield x
        yield ["not", x]
        yield ["bgrp", x]
        yield ["not", ["bgrp", x]]
        if l["free"]:
            yield ["fgrp", "b", x]
            yield ["not", ["fgrp", "b", x]]


# The chunk of a tree is decided by its operators and first leaf, so trees
# that can render to the same text (same leaves, operators and NOTs in the
# same order, different bracketing) always fall into the same task, where
# duplicate texts are dropped.

def gen_e2(L, med, n=1, ch=0):
    j = 0
    for op in BIN:
        for x in med:
            j += 1
            if j % n != ch:
                continue
            for y in med:
                for nx in (0, 1):
                    for ny in (0, 1):
                        yield [op, neg(lf(x), nx), neg(lf(y), ny)]
                c = [op, lf(x), lf(y)]
                yield ["not", c]
                yield ["bgrp", c]
                if L[x]["free"] and L[y]["free"]:
                    yield ["fgrp", "b", c]
                    yield ["not", ["fgrp", "b", c]]
                    yield ["fgrp", "b", [op, lf(x), ["not", lf(y)]]]


def gen_e3(L, small, n=1, ch=0):
    j = 0
    for o1 in BIN:
        for o2 in BIN:
            for x in small:
                j += 1
                if j % n != ch:
                    continue
                for y in small:
                    for z in small:
                        for p in range(5):
                            X, Y, Z = neg(lf(x), p == 1), neg(lf(y), p == 2), neg(lf(z), p == 3)
                            yield [o2, neg([o1, X, Y], p == 4), Z]
                            yield [o1, X, neg([o2, Y, Z], p == 4)]
                    if L[x]["free"] and L[y]["free"]:
                        for z in small:
                            yield [o2, ["fgrp", "b", [o1, lf(x), lf(y)]], lf(z)]
                            yield [o2, lf(z), ["fgrp", "b", [o1, lf(x), lf(y)]]]
                            yield [o2, ["bgrp", [o1, lf(x), lf(y)]], lf(z)]


def gen_e4(L, vars4, tier, n=1, ch=0):
    a, b, c, d = vars4
    if tier == "quick":
        flagsets = [(0, 0, 0, 0), (1, 0, 0, 0), (0, 1, 0, 0), (0, 0, 1, 0), (0, 0, 0, 1)]
        perms = [(a, b, c, d)]
    else:
        flagsets = list(itertools.product((0, 1), repeat=4))
        perms = [(a, b, c, d), (c, a, d, b), (d, c, b, a)]
    j = 0
    for o1 in BIN:
        for o2 in BIN:
            for o3 in BIN:
                j += 1
                if j % n != ch:
                    continue
                for pa, pb, pc, pd in perms:
                    for fa, fb, fc, fd in flagsets:
                        A, B_, C, D = neg(lf(pa), fa), neg(lf(pb), fb), neg(lf(pc), fc), neg(lf(pd), fd)
                        yield [o3, [o2, [o1, A, B_], C], D]
                        yield [o3, [o1, A, [o2, B_, C]], D]
                        yield [o2, [o1, A, B_], [o3, C, D]]
                        yield [o1, A, [o3, [o2, B_, C], D]]
                        yield [o1, A, [o2, B_, [o3, C, D]]]


def gen_family(fam, seed, tier, n=1, ch=0):
    L, med, small, vars4 = leaf_sets(seed, tier)
    if fam == "e1":
        return gen_e1(L)
    if fam == "e2":
        return gen_e2(L, med, n, ch)
    if fam == "e3":
        return gen_e3(L, small, n, ch)
    if fam == "e4":
        return gen_e4(L, vars4, tier, n, ch)
    raise ValueError(fam)


def modes_of(fam):
    # "everything parenthesised, leaves included" only on the 1-2 leaf trees
    return MODES if fam in ("e1", "e2") else MODES[:2]


def task_b(t, acc, seed):
    _, _, fam, tier, nchunks, chunk = t
    if fam == "periods":
        B = ctx_p(seed, tier)
        run_trees(B, gen_periods(B, nchunks, chunk), CFGS_P, MODES[:1], acc, seed, "periods")
    else:
        B = ctx_b(seed)
        run_trees(B, gen_family(fam, seed, tier, nchunks, chunk), CFGS_B, modes_of(fam), acc, seed, "meaning")


def run_trees(B, trees, cfgs, modes, acc, seed, part):
    L = B["L"]
    seen = set()
    B["memo"].clear()
    n = 0
    for a in trees:
        acc.count("meaning_trees")
        for mode in modes:
            text = render(a, mode, L)
            if text in seen:
                continue
            seen.add(text)
            n += 1
            acc.count("meaning_texts")
            for cfg in cfgs:
                if not cfg_allowed(a, cfg, L):
                    continue
                acc.count("evaluations")
                acc.count("meaning_evaluations")
                if part == "periods":
                    acc.count("period_evaluations")
                elif cfg == "plugins" and any(L[i]["cfgs"] for i in tree_leaves(a)):
                    acc.count("meaning_plugin_construct_evaluations")
                kind, detail, nref, nv = eval_ast(B, cfg, a, mode)
                if 0 < nref < nv:
                    acc.count("distinct_nontrivial")
                    acc.count("meaning_nontrivial")
                if kind is None:
                    continue
                cu = culprit(B, cfg, a)
                cm = failing_mode(B, cfg, cu)
                if cm is None:      # cannot happen: the culprit fails
                    raise core.HarnessError("unstable outcome for %r" % (cu,))
                ck, cdetail, _, _ = eval_ast(B, cfg, cu, cm)
                sig = "meaning|%s|%s|%s|cfg=%s" % (skeleton_abs(cu, L, simple_leaves(B)), cm, ck, cfg)
                acc.violation(sig, {"part": part, "cfg": cfg, "ast": cu, "mode": cm,
                                    "text": render(cu, cm, L), "seed": seed, "tier": B.get("tier"),
                                    "found_in": text},
                              "[%s] %s" % (cfg, cdetail))
            if n % 499 == 5:
                acc.sample({"part": part, "text": text,
                            "reading": qast.shape(resolve(a, "default", L))}, maxn=1)


# -- calendar periods -------------------------------------------------------
#
# A date typed to a period (year, month, day, hour, minute, second) reads as the
# whole period (docs/dates.rst: "date:2005" finds all datetimes in 2005,
# "date:20050624" all datetimes on that day, "[20050101 to 20100602]" from the
# first to the last of them).  Where a period ends depends on the calendar: the
# family types every kind of month end (28/29/30/31 days; February of a leap
# year, of a common year, of a century that is not and of one that is a leap
# year; December -> next year) and the last day/hour/minute/second, and the
# corpus holds, for every typed period, its first and last instant and the
# instants one microsecond outside it.

CFGS_P = CFGS_B + ["dates"]
MONTHS = ["jan", "feb", "mar", "apr", "may", "jun", "jul", "aug", "sep", "oct", "nov", "dec"]


def period_years(seed):
    """(leap year, common year, century common year, 400-year leap year)"""
    return [(2004, 2001, 1900, 2000), (2008, 2003, 2100, 2400), (1996, 1999, 1800, 1600)][seed % 3]


def period_list(seed, tier):
    yl, yc, ycent, y400 = period_years(seed)
    P = [(yl,), (yc,)]
    P += [(yl, m) for m in range(1, 13)]
    P += [(yc, 2), (ycent, 2), (y400, 2)]
    if tier != "quick":
        P += [(yc, m) for m in (1, 3, 4, 12)] + [(ycent,), (y400,)]
    P += [(yl, 2, 28), (yl, 2, 29), (yl, 3, 1), (yl, 4, 30), (yl, 12, 31), (yc, 2, 28)]
    P += [(yl, 2, 29, 23), (yl, 2, 29, 23, 59), (yl, 2, 29, 23, 59, 59)]
    # the two ends of the DATETIME domain: the last period has no successor
    P += [(9999,), (9999, 12), (9999, 12, 31), (9999, 11), (1,), (1, 1), (1, 1, 1)]
    return P


def period_bounds(p):
    """(first instant, last instant) of the period with the given components."""
    dt = datetime.datetime
    first = dt(*(list(p) + [1, 1, 0, 0, 0][len(p) - 1:]))
    try:
        if len(p) == 1:
            nxt = dt(p[0] + 1, 1, 1)
        elif len(p) == 2:
            nxt = dt(p[0] + (p[1] == 12), p[1] % 12 + 1, 1)
        else:
            step = {3: datetime.timedelta(days=1), 4: datetime.timedelta(hours=1),
                    5: datetime.timedelta(minutes=1), 6: datetime.timedelta(seconds=1)}[len(p)]
            nxt = first + step
    except (ValueError, OverflowError):
        return first, dt.max       # the period runs to the end of the domain
    return first, nxt - datetime.timedelta(microseconds=1)


def period_text(p):
    return "%04d" % p[0] + "".join("%02d" % x for x in p[1:])


PRECISION = ["", "year", "month", "day", "hour", "minute", "second"]


def period_leaves(seed, tier):
    """Leaf constructs of the period family (after the four plain terms that
    the shrinker needs)."""
    u, v, z, c = vocab(seed)
    L = []

    def add(kind, text, ast, cfgs=None, alt=None):
        L.append({"kind": kind, "text": text, "ast": ast, "free": ast[1] is None,
                  "cfgs": cfgs, "alt": alt})
    add("word", u, ["term", None, u])
    add("word", v, ["term", None, v])
    add("fword", "b:" + u, ["term", "b", u])
    add("fword", "b:" + v, ["term", "b", v])
    f = qast.fmt_dt
    NOD = ("default", "or", "multi", "plugins")      # DateParserPlugin: only [ ] ranges are documented
    PL = ("plugins",)
    P = period_list(seed, tier)
    for p in P:
        first, last = period_bounds(p)
        t, pr = period_text(p), PRECISION[len(p)]
        add("date_term/" + pr, "d:" + t, ["drange", "d", f(first), f(last), False, False])
        if len(p) == 2 and p[0] >= 1000:     # ("jan 1" is the first of January, not January of the year 1)
            add("date_term_named/" + pr, "d:'%s %d'" % (MONTHS[p[1] - 1], p[0]),
                ["drange", "d", f(first), f(last), False, False], ("dates",))
        # open-ended ranges: docs/dates.rst advises against them with the
        # DateParserPlugin, the built-in syntax has them
        add("date_from/" + pr, "d:[%s TO]" % t, ["drange", "d", f(first), None, False, False], NOD)
        add("date_upto/" + pr, "d:[TO %s]" % t, ["drange", "d", None, f(last), False, False], NOD)
        # an exclusive bound either leaves the whole typed period out or only
        # its extreme instant: both readings are admitted (consistently)
        add("date_after/" + pr, "d:{%s TO]" % t, ["drange", "d", f(last), None, True, False], NOD,
            alt=["drange", "d", f(first), None, True, False])
        add("date_before/" + pr, "d:[TO %s}" % t, ["drange", "d", None, f(first), False, True], NOD,
            alt=["drange", "d", None, f(last), False, True])
        for rel in GTLT_RELS:
            alt = None
            if rel == ">":
                alt = ["drange", "d", f(first), None, True, False]
            elif rel == "<":
                alt = ["drange", "d", None, f(last), False, True]
            add("date_gtlt%s/%s" % (rel, pr), "d:%s%s" % (rel, t),
                gtlt_range("drange", "d", f(first), f(last), rel), PL, alt=alt)
    # closed ranges between two periods of possibly different precision
    yl = period_years(seed)[0]
    S = [(yl, 1), (yl, 2), (yl, 3), (yl, 12), (yl, 2, 29), (yl,)]
    for p in S:
        for q in S:
            fp_, lp = period_bounds(p)
            fq, lq = period_bounds(q)
            if fp_ > lq:
                continue
            tp, tq = period_text(p), period_text(q)
            kind = "%s-%s" % (PRECISION[len(p)], PRECISION[len(q)])
            # (the DateParserPlugin completes the coarser bound of a range from
            # the finer one - its natural-language feature - so only ranges
            # between periods of the same precision are given to it)
            add("date_range/" + kind, "d:[%s TO %s]" % (tp, tq), ["drange", "d", f(fp_), f(lq), False, False],
                None if len(p) == len(q) else NOD)
            add("date_range_excl/" + kind, "d:{%s TO %s}" % (tp, tq), ["drange", "d", f(lp), f(fq), True, True],
                NOD, alt=["drange", "d", f(fp_), f(lq), True, True])
            if len(p) == 2 and len(q) == 2:
                add("date_range_named/" + kind, "d:[%s %d to %s %d]" % (MONTHS[p[1] - 1], p[0], MONTHS[q[1] - 1], q[0]),
                    ["drange", "d", f(fp_), f(lq), False, False], ("dates",))
    return L


def period_instants(seed, tier):
    us = datetime.timedelta(microseconds=1)
    out = set()
    for p in period_list(seed, tier):
        first, last = period_bounds(p)
        out.update([first, last])
        if first > datetime.datetime.min:
            out.add(first - us)
        if last < datetime.datetime.max:
            out.add(last + us)
        if len(p) == 2:
            out.add(first + datetime.timedelta(days=14, hours=12))
    return sorted(out)


def ctx_p(seed, tier):
    B = _W.get(("P", seed, tier))
    if B is None:
        sc = b_schema()
        u, v, z, c = vocab(seed)
        B = {"schema": sc, "L": period_leaves(seed, tier), "seed": seed, "tier": tier, "V": {}, "memo": {},
             "domains": {"a": [[], [u]], "b": [[]], "n": [None],
                         "d": [None] + period_instants(seed, tier)},
             "parsers": dict((c_, make_parser_b(c_, sc)) for c_ in CFGS_P)}
        _W[("P", seed, tier)] = B
    return B


def gen_periods(B, n=1, ch=0):
    """Every period construct alone, negated, and combined with a word by the
    implicit grouping and by OR."""
    L = B["L"]
    for i in range(4, len(L)):
        if i % n != ch:
            continue
        x = lf(i)
        yield x
        yield ["not", x]
        yield ["imp", lf(0), x]
        yield ["or", x, lf(0)]


# -- + / - language of SimpleParser and DisMaxParser -------------------------

def pm_items(seed):
    u, v, z, c = vocab(seed)
    return [(u, ["term", None, u]), (v, ["term", None, v]),
            ('"%s %s"' % (u, v), ["phrase", None, [u, v], 1])]


def pm_reference(items, marks, cfg):
    def field_ast(base):
        if cfg == "dismax":
            return ["or", [[base[0], f] + base[2:] for f in ("a", "b")]]
        return [base[0], "a"] + base[2:]
    req = [field_ast(b) for (t, b), m in zip(items, marks) if m == "+"]
    opt = [field_ast(b) for (t, b), m in zip(items, marks) if m == ""]
    ban = [field_ast(b) for (t, b), m in zip(items, marks) if m == "-"]
    if not req and not opt:
        return None     # only prohibited terms: not documented
    pos = ["and", req] if req else ["or", opt]
    if ban:
        return ["andnot", pos, ["or", ban]]
    return pos


def task_pm(t, acc, seed):
    B = ctx_b(seed)
    B["memo"].clear()
    items = pm_items(seed)
    for n in (1, 2, 3):
        for its in itertools.product(items, repeat=n):
            for marks in itertools.product(("", "+", "-"), repeat=n):
                text = " ".join(m + it[0] for it, m in zip(its, marks))
                for cfg in CFGS_PM:
                    ref = pm_reference(its, marks, cfg)
                    if ref is None:
                        continue
                    acc.count("evaluations")
                    acc.count("plusminus_evaluations")
                    kind, detail, nref, nv = eval_text(B, cfg, text, ref)
                    if 0 < nref < nv:
                        acc.count("distinct_nontrivial")
                    if n == 2 and marks == ("+", "-"):
                        acc.sample({"part": "plusminus", "cfg": cfg, "text": text,
                                    "reading": qast.shape(ref)}, maxn=1)
                    if kind is None:
                        continue
                    # shrink: drop items while the same kind of failure persists
                    cur = list(zip(its, marks))
                    changed = True
                    while changed and len(cur) > 1:
                        changed = False
                        for i in range(len(cur)):
                            cand = cur[:i] + cur[i + 1:]
                            r2 = pm_reference([c[0] for c in cand], [c[1] for c in cand], cfg)
                            if r2 is None:
                                continue
                            t2 = " ".join(m + it[0] for it, m in cand)
                            if eval_text(B, cfg, t2, r2)[0] == kind:
                                cur, changed = cand, True
                                break
                    t2 = " ".join(m + it[0] for it, m in cur)
                    r2 = pm_reference([c[0] for c in cur], [c[1] for c in cur], cfg)
                    k2, d2, _, _ = eval_text(B, cfg, t2, r2)
                    sig = "meaning|plusminus:%s|%s|cfg=%s" % (
                        " ".join((m or ".") + ("phrase" if it[1][0] == "phrase" else "word") for it, m in cur), k2, cfg)
                    acc.violation(sig, {"part": "plusminus", "cfg": cfg, "text": t2, "ref": r2,
                                        "seed": seed, "found_in": text}, "[%s] %s" % (cfg, d2))


# ---------------------------------------------------------------------------

def task(t):
    acc = core.Acc()
    seed = t[0]
    part = t[1]
    if part in ("prod", "ranges", "dates"):
        task_a(t, acc, seed)
    elif part == "meaning":
        task_b(t, acc, seed)
    elif part == "plusminus":
        task_pm(t, acc, seed)
    else:
        raise ValueError(part)
    return acc.result()


def plan(tier, seed):
    info = {}
    # ---- part A
    small_a = [(seed, "prod", FULL, 0, ()), (seed, "prod", FULL, 1, ()),
               (seed, "prod", FULL, 2, ())]
    l3 = [(seed, "prod", FULL, 3, (a,)) for a in FULL]
    products = [(FULL, 0, 3)]
    if tier == "quick":
        r4 = reduced(seed, 17)
        big = [(seed, "prod", r4, 4, (a, b)) for a in r4 for b in r4]
        products.append((r4, 4, 4))
        info["totality"] = {"alphabet_full": FULL, "max_tokens_full": 3,
                            "alphabet_reduced": r4, "max_tokens_reduced": 4}
    else:
        r4 = reduced(seed, 28)
        big = [(seed, "prod", r4, 4, (a, b)) for a in r4 for b in r4]
        r5 = reduced(seed, 11)
        big += [(seed, "prod", r5, 5, (a, b, c)) for a in r5 for b in r5 for c in r5]
        products += [(r4, 4, 4), (r5, 5, 5)]
        info["totality"] = {"alphabet_full": FULL, "max_tokens_full": 3,
                            "alphabet_reduced": r4, "max_tokens_reduced": 4,
                            "alphabet_reduced_5": r5, "max_tokens_reduced_5": 5}
    nr = 8
    ranges = [(seed, "ranges", nr, sl, products) for sl in range(nr)]
    ranges += [(seed, "dates", tier, 8, sl) for sl in range(8)]
    info["totality"]["date_words"] = DATE_TOKS
    # ---- part B
    fam = {}
    for f, n in (("e2", 16 if tier == "quick" else 40),
                 ("e3", 27 if tier == "quick" else 108),
                 ("e4", 24 if tier == "quick" else 216)):
        fam[f] = [(seed, "meaning", f, tier, n, c) for c in range(n)]
    # simplest first, the two parts interleaved
    nper = 6
    periods = [(seed, "meaning", "periods", tier, nper, c) for c in range(nper)]
    tasks = (small_a + [(seed, "meaning", "e1", tier, 1, 0), (seed, "plusminus")] + periods + l3
             + ranges + fam["e2"] + fam["e3"] + big + fam["e4"])
    return tasks, info


def run(ctx):
    seed = ctx.seed
    # the token alphabet must be uniquely decodable, otherwise two token
    # sequences would be the same string and cases would repeat
    strs = set()
    n = 0
    for L in range(0, 4):
        for toks in itertools.product(FULL, repeat=L):
            strs.add("".join(toks))
            n += 1
    if len(strs) != n:
        raise core.HarnessError("token alphabet is ambiguous: %d strings from %d sequences" % (len(strs), n))
    rt = ["".join(t) for t in range_templates()]
    if len(set(rt)) != len(rt):
        raise core.HarnessError("range templates repeat")
    tasks, info = plan(ctx.tier, seed)
    ctx.extra.update(info)
    ctx.extra["parser_configurations_totality"] = CFGS_A
    ctx.extra["parser_configurations_meaning"] = CFGS_B + CFGS_PM
    Ls = leaves(seed)
    ctx.extra["meaning_leaf_constructs"] = [l["text"] for l in Ls]
    ctx.extra["period_years"] = list(period_years(seed))
    ctx.extra["periods_typed"] = [period_text(p) for p in period_list(seed, ctx.tier)]
    ctx.extra["period_constructs"] = len(period_leaves(seed, ctx.tier)) - 4
    ctx.extra["period_corpus_instants"] = len(period_instants(seed, ctx.tier))
    ctx.rule = (
        "totality: every concatenation of <=3 tokens of the full %d-token alphabet, every 4-token "
        "(thorough: also 5-token) concatenation over a seed-rotated reduced alphabet, every range "
        "template [prefix](open)(start)(TO)(end)(close) on every field type; each string x 8 parser "
        "configurations; parse then search on 3 indexes (typed with 2 segments and a deletion, empty, "
        "foreign schema); a string is non-trivial when the default configuration parsed it to "
        "something other than a single Term or the plain NullQuery (compound, phrase, range, wildcard, "
        "in-band error query...) or some configuration raised. "
        "meaning: every expression tree with 1-2 leaves over the listed leaf constructs / 3 leaves "
        "over a small leaf set / 4 leaves over four independent terms, operators AND OR NOT ANDNOT "
        "ANDMAYBE REQUIRE implicit-grouping, field groups and boosted groups, rendered in three "
        "parenthesisation modes (duplicate texts dropped) x 4 configurations (the constructs of the "
        "optional plugins - six GtLt comparison spellings on numeric/text/date fields, fuzzy terms, "
        "regex, field alias - only in the configuration that ships them), plus every +/- marked "
        "sequence of <=3 items for SimpleParser/DisMaxParser; calendar periods: every listed period "
        "(years; all 12 months of a leap year, February of a common / century / 400-year year; last "
        "days; last hour, minute, second) typed as a date term, as bound of [p TO], [TO p], {p TO], "
        "[TO p}, with the six GtLt comparisons, as 'mon YYYY' for the DateParserPlugin, and every "
        "non-inverted closed range [p TO q] / {p TO q} over 6 periods of mixed precision, each alone, "
        "under NOT, and joined with a word by implicit grouping and by OR x 5 configurations (default, "
        "OrGroup, Multifield, plugins, DateParserPlugin - the latter only for [ ] ranges between "
        "periods of equal precision and for terms), on a corpus holding the first and last instant "
        "of every typed period and the instants 1 microsecond outside it; a case is non-trivial when the "
        "reference set on V is neither empty nor all of V; all cases enumerated without repetition"
        % len(FULL))
    ctx.assumptions = [
        "reference evaluator mc/qast.py states the documented set semantics",
        "precedence NOT > AND > OR > {ANDNOT, ANDMAYBE, REQUIRE} > implicit grouping; the three binary "
        "operators are only combined with one another through parentheses; a repeated binary operator "
        "is read left-associatively (docs/parsing.rst)",
        "date ranges: start = first instant, end = last instant of the typed period (docs/dates.rst); V only "
        "contains instants for which an exclusive bound has a single possible reading",
        "calendar-period family: for an exclusive bound typed to a period two readings are admitted (the "
        "whole typed period is left out; only its first/last instant is) - the parsed query must select "
        "exactly the set of one of them on the whole corpus",
        "with the DateParserPlugin only what docs/dates.rst shows is used: terms, 'mon YYYY', closed [ ] ranges "
        "between periods of equal precision (it completes a coarser bound from the finer one, ignores { })",
        "GtLtPlugin: field:>x field:<x field:>=x field:<=x field:=>x field:=<x read as {x TO], [TO x}, [x TO], "
        "[TO x], [x TO], [TO x] (plugin docstring)",
        "V is built per query over the text fields a, b plus exactly the typed fields the expression mentions",
        "searching with a query on an index whose schema lacks the field is taken as covered by "
        "'any index' (Term and Phrase queries already tolerate it); such violations carry search@foreign-index",
        "searches for equal query objects (Query.__eq__) are executed once per worker",
        "a failure can hide a second failure on the same input (first exception wins)"]
    ctx.pmap(task, tasks)
    c = ctx.counters
    for key, least in (("parse_raised_QueryParserError", 0), ("parse_returned_error_query", 100),
                       ("search_raised_QueryError", 10), ("meaning_nontrivial", 1000),
                       ("period_evaluations", 1000), ("meaning_plugin_construct_evaluations", 100),
                       ("totality_nontrivial_strings", 1000)):
        if c.get(key, 0) < least:
            raise core.HarnessError("vacuous: counter %s = %d" % (key, c.get(key, 0)))


def replay(case):
    core.setup_process(case.get("seed", 0))
    part = case["part"]
    if part == "totality":
        A = ctx_a()
        o = run_string(A, case["cfg"], case["text"])
        ok = o["viol"] is None
        return {"ok": ok, "cfg": case["cfg"], "text": case["text"],
                "what": "ok" if ok else o["detail"],
                "sig": None if ok else sig_a(case["cfg"], o["viol"])}
    alt = None
    if part == "periods":
        B = ctx_p(case.get("seed", 0), case.get("tier") or "quick")
    else:
        B = ctx_b(case.get("seed", 0))
    if part in ("meaning", "periods"):
        L = B["L"]
        text = render(case["ast"], case["mode"], L)
        ref = resolve(case["ast"], case["cfg"], L)
        if has_alt(case["ast"], L):
            alt = resolve(case["ast"], case["cfg"], L, alt=True)
    else:
        text, ref = case["text"], case["ref"]
    kind, detail, nref, nv = eval_text(B, case["cfg"], text, ref, alt)
    return {"ok": kind is None, "cfg": case["cfg"], "text": text, "kind": kind,
            "reference_reading": qast.shape(ref), "reference_size": nref, "corpus_size": nv,
            "what": "ok" if kind is None else detail}
