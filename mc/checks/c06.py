"""C06 - segment layout is invisible: merge and optimize preserve all logical
content.

E1 over histories.  For an operation list (add / delete / update / group /
remove-field over canonical keys) EVERY split into commits x EVERY merge
choice per commit {merge=False, default MERGE_SMALL, optimize=True, custom
"merge the two oldest segments"} is executed on the real code, level by level
(level = number of operations committed so far), merging histories that
arrive at the same physical layout (mc.dump.segment_signature: per segment
the keys of all documents with live flags, columns and indexed fields), so
every distinct layout reachable by any history is built and observed once and
the number of histories it stands for is counted.  Each new layout is
observed completely (mc.dump.logical_dump + probe searches + nested-document
probes) and compared with

  * the single-commit optimised build of the same operations' meaning
    (mc.history.reference_index), and
  * a dictionary model of the operations (stored values).

Layout-dependent quantities are compared only where the property says they
are invariant: statistics and scores only when the layout holds no deleted
document; physical lexicon / segment count / removed-field residue only in a
layout produced by an optimizing commit; group adjacency in every layout.

Families (plan()): the complete operation alphabet up to length 3 (thorough:
4), longer lists (to 7, where MERGE_SMALL starts to fire) with a bounded
number of non-add operations; x W3Codec blocklimit {2, 128} x front-end
{ix.writer(), AsyncWriter, BufferedWriter(limit=2|3, period=None),
SerialMpWriter(procs=1|2)} on RAM storage.  The real multiprocessing writer
(ix.writer(procs=2[, multisegment=True]), file storage) runs a fixed set of
complete histories in a fresh non-daemonic interpreter with a hard timeout
(mc.history.run_isolated).  Every commit and every observation runs under an
alarm (StepTimeout) so that a corrupted index cannot hang the check.

Violations are grouped by (kind, detail, front-end); the smallest member of
each group is shrunk on the real code (drop operations, join commits, weaken
merge choices, plain writer, default block size) and the signature is
kind|detail|front-end|shrunk history.
"""
import itertools
import json
import signal
import traceback
from contextlib import contextmanager

from mc import core, dump as D, history as H, qast

PID = "C06"
LEVEL = "exploration"
KEYS = "abcdefghijklmnopqrstuvwxyz"
TOL = 1e-6

PROBES = [
    ("t:alfa", ["term", "t", "alfa"]),
    ("t:bravo", ["term", "t", "bravo"]),
    ("tb:bravo", ["term", "tb", "bravo"]),
    ("tags:x", ["term", "tags", "x"]),
    ("or", ["or", [["term", "t", "alfa"], ["term", "tb", "charlie"]]]),
    ("and", ["and", [["term", "t", "alfa"], ["term", "t", "bravo"]]]),
    ("phrase", ["phrase", "t", ["alfa", "bravo"], 1]),
    ("nrange", ["nrange", "n", 0, 12, False, False]),
    ("kind:p", ["term", "kind", "p"]),
    ("andnot", ["andnot", ["term", "t", "bravo"], ["term", "tags", "y"]]),
    ("every", ["every"]),
    ("rm:rmx", ["term", "rm", "rmx"]),
]

STEP_LIMIT = 30.0   # seconds for one commit or one observation (normally ~10 ms)
_SCHEMA = None


class StepTimeout(BaseException):
    """Raised by the alarm; a BaseException so that no ``except Exception``
    on the way (whoosh's or the dump's) swallows it."""


@contextmanager
def time_limit(seconds=STEP_LIMIT):
    def handler(signum, frame):
        raise StepTimeout()
    old = signal.signal(signal.SIGALRM, handler)
    signal.setitimer(signal.ITIMER_REAL, seconds)
    try:
        yield
    finally:
        signal.setitimer(signal.ITIMER_REAL, 0)
        signal.signal(signal.SIGALRM, old)


def _hang(e, what):
    tb = traceback.extract_tb(e.__traceback__)
    fr = [f for f in tb if "/whoosh/" in f.filename]
    where = "%s:%s" % (fr[-1].filename.split("/")[-1], fr[-1].name) if fr else "?"
    outer = "%s:%s" % (fr[0].filename.split("/")[-1], fr[0].name) if fr else "?"
    return ("hang", outer, "%s did not finish within %gs (interrupted in %s, entered through %s)"
            % (what, STEP_LIMIT, where, outer))


def schema0():
    global _SCHEMA
    if _SCHEMA is None:
        _SCHEMA = H.default_schema()
    return _SCHEMA


# -------------------------------------------------------------------------
# operation lists

def gen_abstract(L, max_special=None, targets="all", allow_R=True):
    """All abstract operation lists of length L, simplest (fewest special
    operations) first.  Abstract ops: A add a fresh key; G group of two fresh
    keys; Uf update of a key that is not live (the most recently deleted key
    if there is one - its deleted document is still in a segment - else a
    fresh key); D<i>/U<i> delete/update live key i; R remove field ``rm``
    (once, not first).  targets: "all" live keys or "ends" (oldest and
    newest live key)."""
    out = []

    def rec(ops, live, dead, nkeys, removed, nspecial):
        if len(ops) == L:
            out.append((nspecial, list(ops)))
            return
        cands = [("A",)]
        if max_special is None or nspecial < max_special:
            cands.append(("G",))
            cands.append(("Uf",))
            lv = sorted(live)
            tg = lv if targets == "all" else sorted(set(lv[:1] + lv[-1:]))
            for k in tg:
                cands.append(("D", k))
                cands.append(("U", k))
            if allow_R and not removed and ops:
                cands.append(("R",))
        for c in cands:
            l2, d2, n2, r2 = set(live), list(dead), nkeys, removed
            if c[0] == "A":
                l2.add(n2)
                n2 += 1
            elif c[0] == "Uf":
                if d2:
                    l2.add(d2.pop())
                else:
                    l2.add(n2)
                    n2 += 1
            elif c[0] == "G":
                l2.add(n2)
                l2.add(n2 + 1)
                n2 += 2
            elif c[0] == "D":
                l2.discard(c[1])
                d2.append(c[1])
            elif c[0] == "R":
                r2 = True
            ops.append(c)
            rec(ops, l2, d2, n2, r2, nspecial + (c[0] != "A"))
            ops.pop()

    rec([], set(), [], 0, False, 0)
    out.sort(key=lambda x: x[0])
    return [o for _, o in out]


def concretize(abstract, seed=0):
    """Abstract list -> JSON operations; the variant (content) of a document
    is a function of the position of the operation and the seed."""
    ops = []
    nkeys = 0
    dead = []
    for pos, c in enumerate(abstract):
        v = (pos + seed) % H.NVARIANTS
        if c[0] == "A":
            ops.append(["add", KEYS[nkeys], v])
            nkeys += 1
        elif c[0] == "Uf":
            if dead:
                k = dead.pop()
            else:
                k = nkeys
                nkeys += 1
            ops.append(["update", KEYS[k], v])
        elif c[0] == "G":
            ops.append(["group", [KEYS[nkeys], v], [KEYS[nkeys + 1], (v + 3) % H.NVARIANTS]])
            nkeys += 2
        elif c[0] == "D":
            ops.append(["delete", KEYS[c[1]]])
            dead.append(c[1])
        elif c[0] == "U":
            ops.append(["update", KEYS[c[1]], v])
        elif c[0] == "R":
            ops.append(["rmfield", "rm"])
    return ops


def show_ops(ops, splits=None, merges=None):
    def one(op):
        if op[0] == "add":
            return "A(%s%d)" % (op[1], op[2])
        if op[0] == "update":
            return "U(%s%d)" % (op[1], op[2])
        if op[0] == "delete":
            return "D(%s)" % op[1]
        if op[0] == "group":
            return "G(%s%d,%s%d)" % (op[1][0], op[1][1], op[2][0], op[2][1])
        return "R(%s)" % op[1]
    if splits is None:
        return ".".join(one(o) for o in ops)
    parts = []
    pos = 0
    for n, m in zip(splits, merges):
        parts.append(".".join(one(o) for o in ops[pos:pos + n]) + ":" + m[0])
        pos += n
    return "/".join(parts)


# -------------------------------------------------------------------------
# observation and oracle

def _exc_sig(e):
    return D.exc_name(e)


def observe(ix, m):
    """Everything that is looked at in one layout."""
    from whoosh import query as Q
    obs = {}
    with ix.searcher() as s:
        r = s.reader()
        obs["dump"] = D.logical_dump(r)
        probes = {}
        for name, ast in PROBES:
            if name.startswith("rm:") and "rm" not in r.schema:
                continue
            try:
                res = s.search(qast.to_whoosh(ast), limit=None)
                probes[name] = sorted([s.stored_fields(dn).get("key"), sc] for sc, dn in res.top_n)
            except Exception as e:
                probes[name] = _exc_sig(e)
        obs["probes"] = probes
        # nested-document probes
        nested = {}
        parents = Q.Term("kind", "p")
        for d in m["docs"]:
            try:
                if d["kind"] == "p" and d["child"] is not None:
                    q = Q.NestedChildren(parents, Q.Term("key", d["key"]))
                    nested["children:" + d["key"]] = sorted(
                        s.stored_fields(dn).get("key") for dn in itertools.islice(s.docs_for_query(q), 200))
                elif d["parent"] is not None:
                    q = Q.NestedParent(parents, Q.Term("key", d["key"]))
                    nested["parent:" + d["key"]] = sorted(
                        s.stored_fields(dn).get("key") for dn in itertools.islice(s.docs_for_query(q), 200))
            except Exception as e:
                nested[("children:" if d["kind"] == "p" else "parent:") + d["key"]] = _exc_sig(e)
        obs["nested"] = nested
    return obs


def expected_stored(m):
    sch = schema0()
    out = {}
    for d in m["docs"]:
        f = H.default_doc(d["key"], d["variant"], d["kind"])
        out[d["key"]] = dict((k, D.jsonable(v)) for k, v in f.items()
                             if k in sch and sch[k].stored and k not in m["removed"])
    return out


def compare(obs, ref, m, via_optimize):
    """[(kind, detail, text)] - empty when the layout is indistinguishable
    from the reference build as far as the property demands."""
    out = []
    d, rd = obs["dump"], ref["dump"]
    ph = d["physical"]
    nodel = not ph["has_deletions"] and not rd["physical"]["has_deletions"]
    out.extend(D.diff(d, rd, with_stats=nodel, labels=("history", "reference")))

    # dictionary model (independent of the reference build)
    exp = expected_stored(m)
    got = dict((k, [e["stored"] for e in v]) for k, v in d["docs"].items())
    for k in sorted(set(exp) | set(got), key=str):
        if k not in got:
            out.append(("stored", "model:missing-doc", "model has live document %r, index does not" % (k,)))
        elif k not in exp:
            out.append(("stored", "model:extra-doc", "index has live document %r, model does not" % (k,)))
        elif len(got[k]) != 1:
            out.append(("stored", "model:multiplicity", "%d live documents with key %r" % (len(got[k]), k)))
        elif got[k][0] != exp[k]:
            out.append(("stored", "model:value", "doc %r stored %r, model %r" % (k, got[k][0], exp[k])))

    # probe searches: result sets always, scores without deletions
    for name in sorted(set(obs["probes"]) | set(ref["probes"])):
        a, b = obs["probes"].get(name), ref["probes"].get(name)
        if isinstance(a, str) or isinstance(b, str):
            if a != b:
                out.append(("results", "%s:%s" % (name, a if isinstance(a, str) else b),
                            "probe %s history=%r reference=%r" % (name, a, b)))
            continue
        if a is None or b is None:
            continue
        if [k for k, _ in a] != [k for k, _ in b]:
            out.append(("results", name, "probe %s matched %r, reference build %r" % (name, [k for k, _ in a], [k for k, _ in b])))
        elif nodel:
            for (k, s1), (_, s2) in zip(a, b):
                if abs(s1 - s2) > TOL * max(1.0, abs(s1), abs(s2)):
                    out.append(("scores", name, "probe %s doc %r score %r, reference build %r (no deletions anywhere)" % (name, k, s1, s2)))
                    break

    # groups stay adjacent and in order, in the same segment
    dn = ph["docnums"]
    broken = set()
    for doc in m["docs"]:
        if doc["child"] is None:
            continue
        p, c = dn.get(doc["key"]), dn.get(doc["child"])
        if not p or not c or len(p) != 1 or len(c) != 1:
            broken.add(doc["key"])
            continue  # reported as stored/missing above
        if c[0][1] != p[0][1] or c[0][0] != p[0][0] + 1:
            broken.add(doc["key"])
            out.append(("group-adjacency", "not-adjacent", "group (%s,%s): parent is doc %d in segment %d, child is doc %d in segment %d"
                        % (doc["key"], doc["child"], p[0][0], p[0][1], c[0][0], c[0][1])))
    orphans = set(x["key"] for x in m["docs"] if x["orphan"])
    if broken:
        orphans.update(x["key"] for x in m["docs"] if x["kind"] == "c")
    for doc in m["docs"]:
        if doc["key"] in broken or doc["parent"] in broken:
            continue   # the nested probes can only fail as a consequence
        if doc["kind"] == "p" and doc["child"] is not None:
            got_c = obs["nested"].get("children:" + doc["key"])
            if isinstance(got_c, str):
                out.append(("group-adjacency", "NestedChildren:" + got_c, "NestedChildren probe for %r raised %s" % (doc["key"], got_c)))
                continue
            want = [doc["child"]]
            rest = [k for k in (got_c or []) if k not in want]
            if (want and want[0] not in (got_c or [])) or any(k not in orphans for k in rest):
                out.append(("group-adjacency", "NestedChildren", "NestedChildren(kind:p, key:%s) = %r, expected %r (+ orphans %r)"
                            % (doc["key"], got_c, want, sorted(orphans))))
        elif doc["parent"] is not None:
            got_p = obs["nested"].get("parent:" + doc["key"])
            if isinstance(got_p, str):
                out.append(("group-adjacency", "NestedParent:" + got_p, "NestedParent probe for %r raised %s" % (doc["key"], got_p)))
            elif got_p != [doc["parent"]]:
                out.append(("group-adjacency", "NestedParent", "NestedParent(kind:p, key:%s) = %r, expected %r"
                            % (doc["key"], got_p, [doc["parent"]])))

    if via_optimize:
        if ph["segments"] > 1:
            out.append(("optimize", "segments", "%d segments after commit(optimize=True)" % ph["segments"]))
        if ph["has_deletions"] or ph["doc_count_all"] != d["doc_count"]:
            out.append(("optimize", "deletions", "after optimize: doc_count_all=%r doc_count=%r has_deletions=%r"
                        % (ph["doc_count_all"], d["doc_count"], ph["has_deletions"])))
        logical = dict((f, sorted(ts)) for f, ts in d["terms"].items())
        physical = dict((f, sorted(ts)) for f, ts in ph["lexicon"].items() if ts)
        if logical != physical:
            out.append(("optimize", "lexicon", "after optimize physical lexicon %r != logical lexicon %r" % (physical, logical)))
        for f in m["removed"]:
            res = []
            if f in ph["indexed_fields"]:
                res.append("terms")
            if f in ph["raw_stored_fields"]:
                res.append("stored")
            if ph["column_files"].get(f):
                res.append("column")
            if res:
                out.append(("optimize", "removed-field:" + "+".join(res), "after remove_field(%r) and optimize the segment still holds its %s" % (f, "/".join(res))))
    # one entry per (kind, detail); an aspect that differs for >= 3 fields is one
    # generic entry; consequences of a more fundamental difference are dropped
    seen = set()
    uniq = []
    for k, det, text in out:
        if (k, det) not in seen:
            seen.add((k, det))
            uniq.append((k, det, text))
    uniq = D.collapse(uniq)
    fundamental = any(k in FUNDAMENTAL and not (k == "lengths" and det == "0/None")
                      for k, det, _ in uniq)
    if fundamental:
        uniq = [(k, det, t) for k, det, t in uniq
                if k not in ("results", "scores", "stats")
                and not (k == "group-adjacency" and det.startswith("Nested"))]
    return uniq


FUNDAMENTAL = ("stored", "doc_count", "lexicon", "postings", "positions", "chars", "boosts", "lengths")

_REFCACHE = {}


def reference_obs(ops):
    key = json.dumps(ops)
    r = _REFCACHE.get(key)
    if r is None:
        if len(_REFCACHE) > 400:
            _REFCACHE.clear()
        ix = H.reference_index(ops)
        r = _REFCACHE[key] = observe(ix, H.model(ops))
    return r


def check_history(ops, splits, merges, config):
    """Runs one complete history from scratch and returns the list of
    problems [(kind, detail, text)] of its final layout."""
    try:
        with time_limit(STEP_LIMIT * max(1, len(splits))):
            ix = H.run_history(ops, splits, merges, config)
    except core.HarnessError:
        raise
    except StepTimeout as e:
        return [_hang(e, "the history")]
    except Exception as e:
        return [("exception", _exc_sig(e), "history raised %r\n%s" % (e, traceback.format_exc()[-900:]))]
    try:
        m = H.model(ops)
        with time_limit():
            obs = observe(ix, m)
        return compare(obs, reference_obs(ops), m, via_optimize(merges, config))
    except StepTimeout as e:
        return [_hang(e, "reading the index")]
    finally:
        H.destroy(ix)


def via_optimize(merges, config):
    """Was the final layout produced by an optimizing commit?  With
    multisegment=True the sub-writers' segments are added next to the merged
    one by design (docs/batch.rst), so nothing is demanded there."""
    if config.get("frontend") == "mp_multiseg":
        return False
    return bool(merges) and merges[-1] == "optimize"


# -------------------------------------------------------------------------
# exploration of all histories of one operation list

def seg_ids(ix):
    return [s.segment_id() for s in ix._segments()]


def count_adds(ops):
    return sum(len(H.keys_written(op)) for op in ops)


def explore(ops, config, acc, check_levels=None, tail_optimize=True):
    """Level-by-level exploration of every split x merge choice.  Returns the
    list of raw violations [(kind, detail, text, case)]."""
    N = len(ops)
    viol = []
    ix0 = H.create_index(config)
    with ix0.reader() as r:
        sig0 = D.segment_signature(r)
    levels = [dict() for _ in range(N + 1)]
    levels[0][sig0] = {"snap": H.snapshot(ix0), "path": ([], []), "n": 1, "nseg": 0, "all": 0}
    if check_levels is None:
        check_levels = set(range(1, N + 1))

    def case_of(splits, merges, upto):
        return {"ops": ops[:upto], "splits": list(splits), "merges": list(merges), "config": config}

    def run_edge(st, i, j, merge):
        sl = ops[i:j]
        ix = H.restore(st["snap"])
        before = seg_ids(ix)
        all_before = st["all"]
        acc.count("evaluations")
        splits = st["path"][0] + [j - i]
        merges = st["path"][1] + [merge]
        try:
            with time_limit():
                H.apply_commit(ix, sl, merge, config)
        except core.HarnessError:
            raise
        except StepTimeout as e:
            acc.count("edges_raising")
            viol.append(_hang(e, "the commit") + (case_of(splits, merges, j),))
            return None
        except Exception as e:
            acc.count("edges_raising")
            viol.append(("exception", _exc_sig(e), "commit raised %r\n%s" % (e, traceback.format_exc()[-900:]),
                         case_of(splits, merges, j)))
            return None
        after = seg_ids(ix)
        gone = [s for s in before if s not in after]
        if gone:
            acc.count("edges_with_merge")
            if merge == "default":
                acc.count("edges_merge_small_fired")
        with ix.reader() as r:
            sig = D.segment_signature(r)
            all_after = r.doc_count_all()
            deleted_after = all_after - r.doc_count()
        if gone and all_after < all_before + count_adds(sl):
            acc.count("edges_deletions_purged")
        return ix, sig, splits, merges, len(after), deleted_after, all_after

    for i in range(N + 1):
        for sig_i, st in list(levels[i].items()):
            acc.count("layouts")
            if i == N:
                acc.count("histories_complete", st["n"])
            targets = list(range(i + 1, N + 1))
            for j in targets:
                if H.split_problem(ops[i:j], [j - i]) is not None:
                    continue
                for merge in H.MERGES:
                    res = run_edge(st, i, j, merge)
                    if res is None:
                        continue
                    ix, sig, splits, merges, nseg, ndel, nall = res
                    acc.count("histories", st["n"])
                    known = levels[j].get(sig)
                    if known is not None:
                        known["n"] += st["n"]
                        if merge == "optimize" and not known["opt_checked"] and j in check_levels:
                            known["opt_checked"] = True
                            _observe_state(ix, ops[:j], known, True, viol, case_of(splits, merges, j), acc)
                        continue
                    new = {"snap": H.snapshot(ix), "path": (splits, merges), "n": st["n"],
                           "nseg": nseg, "all": nall, "opt_checked": merge == "optimize"}
                    levels[j][sig] = new
                    if j in check_levels:
                        _observe_state(ix, ops[:j], new, merge == "optimize", viol, case_of(splits, merges, j), acc)
                        if ndel:
                            acc.count("layouts_with_deleted_docs")
                        if nseg > 1:
                            acc.count("layouts_multi_segment")
            if i == N and tail_optimize and st["nseg"] > 0:
                # ix.optimize() of the final layout: a commit without operations
                res = run_edge(st, N, N, "optimize")
                if res is not None:
                    ix = res[0]
                    _observe_state(ix, ops, None, True, viol, case_of(res[2], res[3], N), acc)
    return viol


def _observe_state(ix, ops, st, via_optimize, viol, case, acc):
    acc.count("observations")
    m = H.model(ops)
    try:
        with time_limit():
            obs = observe(ix, m)
        probs = compare(obs, reference_obs(ops), m, via_optimize)
    except core.HarnessError:
        raise
    except StepTimeout as e:
        probs = [_hang(e, "reading the index")]
    except Exception as e:
        probs = [("exception", "observe:" + _exc_sig(e), "reading the index raised %r\n%s" % (e, traceback.format_exc()[-900:]))]
    for k, det, text in probs:
        viol.append((k, det, text, case))


# -------------------------------------------------------------------------
# shrinking and signatures

def fails_with(case, kind, detail):
    probs = check_history(case["ops"], case["splits"], case["merges"], case["config"])
    for k, d, text in probs:
        if k == kind and d == detail:
            return text
    return None


def _valid(ops, splits):
    return H.ops_problem(ops) is None and H.split_problem(ops, splits) is None


def shrink(case, kind, detail, budget=80):
    """Greedy: drop operations, join commits, turn merges into merge=False,
    plain front-end, default block size - while the same (kind, detail)
    persists.  Returns (case, text)."""
    cur = dict(case)
    text = fails_with(cur, kind, detail)
    if text is None:
        return case, None
    tries = [0]

    def attempt(c):
        if tries[0] >= budget:
            return None
        tries[0] += 1
        return fails_with(c, kind, detail)

    changed = True
    while changed and tries[0] < budget:
        changed = False
        # drop one operation
        pos = 0
        idx = []
        for ci, n in enumerate(cur["splits"]):
            for k in range(n):
                idx.append((pos + k, ci))
            pos += n
        for oi, ci in reversed(idx):
            ops = cur["ops"][:oi] + cur["ops"][oi + 1:]
            splits = list(cur["splits"])
            merges = list(cur["merges"])
            splits[ci] -= 1
            if splits[ci] == 0 and merges[ci] != "optimize":
                del splits[ci]
                del merges[ci]
            if not ops or not splits or not _valid(ops, splits):
                continue
            c = dict(cur, ops=ops, splits=splits, merges=merges)
            t = attempt(c)
            if t is not None:
                cur, text, changed = c, t, True
                break
        if changed:
            continue
        # join two commits
        for ci in range(len(cur["splits"]) - 1):
            splits = cur["splits"][:ci] + [cur["splits"][ci] + cur["splits"][ci + 1]] + cur["splits"][ci + 2:]
            merges = cur["merges"][:ci] + cur["merges"][ci + 1:]
            if not _valid(cur["ops"], splits):
                continue
            c = dict(cur, splits=splits, merges=merges)
            t = attempt(c)
            if t is not None:
                cur, text, changed = c, t, True
                break
        if changed:
            continue
        # weaker merge choices
        for ci, mg in enumerate(cur["merges"]):
            if mg == "nomerge":
                continue
            merges = list(cur["merges"])
            merges[ci] = "nomerge"
            c = dict(cur, merges=merges)
            t = attempt(c)
            if t is not None:
                cur, text, changed = c, t, True
                break
    # configuration
    cfg = dict(cur["config"])
    if cfg.get("frontend", "plain") not in ("plain", "mp", "mp_multiseg"):
        c = dict(cur, config=dict(cfg, frontend="plain"))
        t = attempt(c)
        if t is not None:
            cur, text = c, t
    cfg = dict(cur["config"])
    if cfg.get("blocklimit") is not None:
        c = dict(cur, config=dict(cfg, blocklimit=None))
        t = attempt(c)
        if t is not None:
            cur, text = c, t
    return canonical_case(cur), text


def canonical_case(case):
    """Keys renamed by first occurrence."""
    ren = {}

    def r(k):
        if k not in ren:
            ren[k] = KEYS[len(ren)]
        return ren[k]
    ops = []
    for op in case["ops"]:
        if op[0] in ("add", "update"):
            ops.append([op[0], r(op[1]), op[2]])
        elif op[0] == "delete":
            ops.append([op[0], r(op[1])])
        elif op[0] == "group":
            ops.append([op[0], [r(op[1][0]), op[1][1]], [r(op[2][0]), op[2][1]]])
        else:
            ops.append(list(op))
    return dict(case, ops=ops)


def cfg_label(config):
    fe = config.get("frontend", "plain")
    return fe


def case_size(case):
    return (len(case["ops"]), len(case["splits"]), sum(m != "nomerge" for m in case["merges"]),
            json.dumps(case, sort_keys=True))


# -------------------------------------------------------------------------
# tasks

def task(t):
    core.setup_process(t.get("seed", 0))
    acc = core.Acc()
    raw = []
    if t["mode"] == "explore":
        for ops in t["oplists"]:
            acc.count("oplists")
            if any(op[0] in ("delete", "update", "group", "rmfield") for op in ops):
                acc.count("distinct_nontrivial")
            viol = explore(ops, t["config"], acc, check_levels=set([len(ops)]))
            raw.extend(viol)
            if len(ops) >= 4 and len(acc.samples) < 1:
                acc.sample({"ops": show_ops(ops), "config": t["config"],
                            "histories": "every split x merge choice"})
    elif t["mode"] == "sizes":
        for case in t["cases"]:
            acc.count("evaluations", len(case["splits"]))
            acc.count("histories")
            acc.count("histories_complete")
            acc.count("size_vector_histories")
            acc.count("distinct_nontrivial")
            for k, d, text in check_history(case["ops"], case["splits"], case["merges"], case["config"]):
                raw.append((k, d, text, case))
    elif t["mode"] == "mp":
        for case in t["cases"]:
            acc.count("evaluations")
            acc.count("histories")
            acc.count("histories_complete")
            acc.count("mp_histories")
            res = H.run_isolated("mc.checks.c06:isolated_job", case, timeout=t.get("timeout", 180))
            if "isolated_error" in res:
                if res["isolated_error"] == "timeout":
                    raw.append(("hang", "timeout", "history did not finish within %ss in a fresh process" % t.get("timeout", 180), case))
                else:
                    raise core.HarnessError("isolated MpWriter job failed: %s" % res["isolated_error"])
            else:
                for k, d, text in res["problems"]:
                    raw.append((k, d, text, case))
                if res.get("segments", 0) > 1:
                    acc.count("layouts_multi_segment")
    res = acc.result()
    # group raw violations by pre-signature, keep the smallest case of each
    groups = {}
    for k, d, text, case in raw:
        key = "%s|%s|%s" % (k, d, cfg_label(case["config"]))
        g = groups.get(key)
        if g is None:
            groups[key] = [1, case, text, k, d]
        else:
            g[0] += 1
            if case_size(case) < case_size(g[1]):
                g[1], g[2] = case, text
    res["raw"] = groups
    return res


def isolated_job(case):
    probs = check_history(case["ops"], case["splits"], case["merges"], case["config"])
    return {"problems": [list(p) for p in probs]}


def shrink_task(t):
    core.setup_process(t.get("seed", 0))
    kind, detail, case = t["kind"], t["detail"], t["case"]
    fe = case["config"].get("frontend", "plain")
    if fe in ("mp", "mp_multiseg"):
        # does it need the multiprocessing writer at all?
        c = dict(case, config={"frontend": "plain", "blocklimit": case["config"].get("blocklimit")})
        if fails_with(c, kind, detail) is None:
            return {"key": t["key"], "case": canonical_case(case), "text": t["text"], "label": fe}
        case = c
    c, text = shrink(case, kind, detail)
    if text is None:
        # not reproducible from scratch: never report it
        return {"key": t["key"], "case": case, "text": None, "label": fe}
    return {"key": t["key"], "case": c, "text": text, "label": c["config"].get("frontend", "plain")}


# -------------------------------------------------------------------------

def chunks(lst, n):
    return [lst[i:i + n] for i in range(0, len(lst), n)]


def plan(tier, seed):
    """[(family name, operation lists, config, lists per task)].  Every
    family is prefix-closed (all lengths from 1 are enumerated), and a list
    of length L only observes the layouts of its last level - the layouts of
    its proper prefixes are the last levels of shorter lists."""
    fams = []

    def conc(lengths, **kw):
        out = []
        for L in lengths:
            out.extend(concretize(a, seed) for a in gen_abstract(L, **kw))
        return out

    def nogroups(lists):
        return [ops for ops in lists if not any(op[0] == "group" for op in ops)]

    def cfg(fe, bl, **kw):
        return dict({"frontend": fe, "blocklimit": bl}, **kw)

    small = conc((1, 2, 3))
    if tier == "quick":
        for bl in (2, 128):
            fams.append(("all-ops L<=3 plain bl%d" % bl, small, cfg("plain", bl), 10))
            fams.append(("<=1 special op L=5 plain bl%d" % bl, conc((5,), max_special=1), cfg("plain", bl), 3))
        fams.append(("<=2 special ops L=4 plain bl2", conc((4,), max_special=2), cfg("plain", 2), 5))
        fams.append(("<=1 special op L=4 plain bl128", conc((4,), max_special=1), cfg("plain", 128), 5))
        fams.append(("<=1 special op (oldest/newest key) L=6 plain bl2", conc((6,), max_special=1, targets="ends"), cfg("plain", 2), 1))
        fams.append(("adds only L=7 plain bl2", conc((7,), max_special=0), cfg("plain", 2), 1))
        fams.append(("all-ops L<=3 async bl2", small, cfg("async", 2), 10))
        fams.append(("all-ops L<=2 async bl128", conc((1, 2)), cfg("async", 128), 10))
        fams.append(("all-ops L<=3 buffered(limit=2) bl2", small, cfg("buffered", 2, buffer_limit=2), 10))
        fams.append(("all-ops L<=2 buffered(limit=2) bl128", conc((1, 2)), cfg("buffered", 128, buffer_limit=2), 10))
        fams.append(("<=1 special op L<=4 buffered(limit=3) bl2", conc((1, 2, 3, 4), max_special=1), cfg("buffered", 2, buffer_limit=3), 8))
        fams.append(("all-ops-without-groups L<=3 serialmp(procs=2) bl2", nogroups(small), cfg("serialmp", 2, procs=2), 10))
        fams.append(("all-ops-without-groups L<=2 serialmp(procs=2) bl128", nogroups(conc((1, 2))), cfg("serialmp", 128, procs=2), 10))
        fams.append(("all-ops-without-groups L<=3 serialmp(procs=1) bl2", nogroups(small), cfg("serialmp", 2, procs=1), 10))
    else:
        big = conc((4,))
        for bl in (2, 128):
            fams.append(("all-ops L<=3 plain bl%d" % bl, small, cfg("plain", bl), 10))
            fams.append(("all-ops L=4 plain bl%d" % bl, big, cfg("plain", bl), 5))
        fams.append(("<=2 special ops L=5 plain bl2", conc((5,), max_special=2), cfg("plain", 2), 3))
        fams.append(("<=1 special op L=5 plain bl128", conc((5,), max_special=1), cfg("plain", 128), 3))
        fams.append(("<=2 special ops (oldest/newest key) L=6 plain bl2", conc((6,), max_special=2, targets="ends"), cfg("plain", 2), 1))
        fams.append(("<=1 special op L=6 plain bl128", conc((6,), max_special=1, targets="ends"), cfg("plain", 128), 1))
        fams.append(("<=1 special op (oldest/newest key) L=7 plain bl2", conc((7,), max_special=1, targets="ends"), cfg("plain", 2), 1))
        fams.append(("all-ops L<=3 async bl2", small, cfg("async", 2), 10))
        fams.append(("<=2 special ops L=4 async bl2", conc((4,), max_special=2), cfg("async", 2), 5))
        fams.append(("all-ops L<=3 async bl128", small, cfg("async", 128), 10))
        for bl in (2, 128):
            fams.append(("all-ops L<=4 buffered(limit=2) bl%d" % bl, small + big, cfg("buffered", bl, buffer_limit=2), 5))
        fams.append(("all-ops-without-groups L<=4 serialmp(procs=2) bl2", nogroups(small + big), cfg("serialmp", 2, procs=2), 5))
        fams.append(("all-ops-without-groups L<=3 serialmp(procs=2) bl128", nogroups(small), cfg("serialmp", 128, procs=2), 10))
        fams.append(("all-ops-without-groups L<=4 serialmp(procs=1) bl2", nogroups(small + big), cfg("serialmp", 2, procs=1), 5))
        fams.append(("all-ops L<=4 buffered(limit=3) bl2", small + big, cfg("buffered", 2, buffer_limit=3), 5))
        fams.append(("<=2 special ops (oldest/newest key) L=5 buffered(limit=2) bl2", conc((5,), max_special=2, targets="ends"), cfg("buffered", 2, buffer_limit=2), 3))
    return fams


def mp_cases(tier, seed):
    """Complete histories for the real multiprocessing writer (file storage,
    procs=2, one document or group per job file): single commit, one commit
    per operation, and a final merging commit."""
    lists = [concretize(a, seed) for a in gen_abstract(2)]
    sel = gen_abstract(4, max_special=2)
    step = 47 if tier == "quick" else 5
    lists += [concretize(a, seed) for a in sel[(seed % step)::step]]
    cases = []
    for i, ops in enumerate(lists):
        n = len(ops)
        fe = "mp" if i % 3 else "mp_multiseg"
        config = {"frontend": fe, "blocklimit": 2 if i % 2 else 128, "storage": "file",
                  "procs": 2, "batchsize": 1}
        hs = []
        if H.split_problem(ops, [n]) is None:
            hs.append(([n], ["nomerge"]))
            hs.append(([n], ["optimize"]))
        hs.append(([1] * n, ["nomerge"] * n))
        hs.append(([1] * n, ["nomerge"] * (n - 1) + ["first2" if n > 2 else "optimize"]))
        for splits, merges in hs:
            if H.split_problem(ops, splits) is None:
                cases.append({"ops": ops, "splits": splits, "merges": merges, "config": config})
    return cases


def size_cases(tier, seed):
    out = []
    kmax = 3 if tier == "quick" else 4
    vectors = [sz for k in range(1, kmax + 1) for sz in itertools.product((1, 2, 7, 12), repeat=k)]
    # MERGE_SMALL only acts from the fifth-smallest segment on: 5-7 segments
    small = (1, 2) if tier == "quick" else (1, 2, 3)
    vectors += [sz for k in (5, 6) for sz in itertools.product(small, repeat=k)]
    vectors += [sz for sz in itertools.product((1, 2), repeat=7)]
    for sizes in vectors:
        k = len(sizes)
        if True:
            if sum(sizes) + 2 > len(KEYS):
                continue
            n = sum(sizes) + 2
            ops = [["add", KEYS[i], (i + seed) % H.NVARIANTS] for i in range(n)]
            for last in (["default", "default"], ["default", "optimize"]):
                out.append({"ops": ops, "splits": list(sizes) + [1, 1], "merges": ["nomerge"] * k + last,
                            "config": {"blocklimit": 128}})
    return out


def run(ctx):
    seed = ctx.seed
    tasks = []
    fam_info = {}
    for name, lists, config, per in plan(ctx.tier, seed):
        fam_info[name] = len(lists)
        for ch in chunks(lists, per):
            tasks.append({"mode": "explore", "oplists": ch, "config": config, "seed": seed})
    # segment-size vectors: the default merge policy decides by the sizes of
    # the existing segments (sorted by size, Fibonacci thresholds), so every
    # vector of up to 3 (thorough 4) segment sizes from {1, 2, 7, 12} is built
    # with merge=False commits and followed by two default commits of one
    # document each
    szc = size_cases(ctx.tier, seed)
    for ch in chunks(szc, 4):
        tasks.append({"mode": "sizes", "cases": ch, "seed": seed})
    ctx.extra["size_vector_histories_planned"] = len(szc)
    mpc = mp_cases(ctx.tier, seed)
    for ch in chunks(mpc, 3):
        tasks.append({"mode": "mp", "cases": ch, "seed": seed})
    # long explorations first (shorter tail); the smallest failing case of
    # every violation class is selected afterwards, whatever the order
    tasks.sort(key=lambda t: -max(len(o) for o in t["oplists"]) if t["mode"] == "explore" else (-6 if t["mode"] == "sizes" else -5))
    ctx.extra["mp_histories_planned"] = len(mpc)
    ctx.extra["families"] = fam_info
    ctx.rule = ("operation lists over {A add fresh key, G group(parent, child), Uf update of a non-live key, "
                "D<k> delete live key, U<k> update live key, R remove_field} enumerated without repetition; "
                "for each list every split into commits x every merge choice per commit is executed level by "
                "level, histories reaching the same physical layout are merged (counted in 'histories'), every "
                "distinct layout is observed once ('observations'); 'evaluations' = commits executed on the real "
                "code; an operation list is non-trivial when it contains a delete, update, group or field removal; plus "
                "every vector of up to 3 (thorough 4) segment sizes from {1, 2, 7, 12} and every vector of 5-7 sizes from {1, 2} "
                "(thorough {1, 2, 3} for 5-6) built with merge=False commits and "
                "followed by two default / default+optimize commits (the size-driven merge policy)")
    ctx.assumptions = [
        "documented writer discipline: within one writer a key already written is not updated or deleted again "
        "(update_document/delete_by_term see committed documents only); remove_field is the first call of its writer",
        "weights compared at float32 precision, statistics and scores with relative tolerance 1e-6 and only "
        "between layouts without deleted documents",
        "two histories that end in the same segment signature (keys + live flags of all documents per segment, "
        "column files, indexed fields) are assumed to have the same futures",
        "SerialMpWriter (a testing helper that deals documents round-robin) is not given groups",
    ]
    results = ctx.pmap(task, tasks, absorb=False)
    groups = {}
    for res in results:
        ctx.merge_counts(res.get("counts", {}))
        for s in res.get("samples", ()):
            ctx.sample(s)
        for key, (n, case, text, kind, detail) in res.get("raw", {}).items():
            g = groups.get(key)
            if g is None:
                groups[key] = {"n": n, "case": case, "text": text, "kind": kind, "detail": detail}
            else:
                g["n"] += n
                if case_size(case) < case_size(g["case"]):
                    g["case"], g["text"] = case, text
    # a generic "*:aspect" group absorbs the per-field groups of the same aspect
    for key in sorted(groups):
        g = groups.get(key)
        if g is None or not g["detail"].startswith("*:"):
            continue
        rest = g["detail"][2:]
        fe = key.rsplit("|", 1)[1]
        for k2 in sorted(groups):
            g2 = groups[k2]
            if k2 != key and g2["kind"] == g["kind"] and k2.rsplit("|", 1)[1] == fe \
                    and ":" in g2["detail"] and g2["detail"].split(":", 1)[1] == rest \
                    and not g2["detail"].startswith("field:"):
                g["n"] += g2["n"]
                del groups[k2]
    if groups:
        st = [{"key": k, "kind": g["kind"], "detail": g["detail"], "case": g["case"], "text": g["text"], "seed": seed}
              for k, g in sorted(groups.items())]
        merged = {}
        for r in ctx.pmap(shrink_task, st, absorb=False):
            g = groups[r["key"]]
            if r["text"] is None:
                ctx.count("unreproducible_discarded", g["n"])
                continue
            k2 = (g["kind"], g["detail"], r["label"])
            mg = merged.get(k2)
            if mg is None:
                merged[k2] = {"n": g["n"], "case": r["case"], "text": r["text"], "found_in": [g["case"]]}
            else:
                mg["n"] += g["n"]
                mg["found_in"].append(g["case"])
                if case_size(r["case"]) < case_size(mg["case"]):
                    mg["case"], mg["text"] = r["case"], r["text"]
        # a class that already shows with the plain writer is front-end
        # independent: its other manifestations are the same finding
        for (kind, detail, label) in sorted(merged):
            if label != "plain" and (kind, detail, "plain") in merged:
                mg = merged.pop((kind, detail, label))
                merged[(kind, detail, "plain")]["n"] += mg["n"]
        for (kind, detail, label), mg in sorted(merged.items()):
            case = mg["case"]
            sig = "%s|%s|%s|%s" % (kind, detail, label, show_ops(case["ops"], case["splits"], case["merges"]))
            ctx.violation(sig, {"kind": kind, "detail": detail, "case": case, "found_in": mg["found_in"][:3]},
                          "%s [%s] front-end=%s history %s: %s" % (kind, detail, label,
                                                                  show_ops(case["ops"], case["splits"], case["merges"]), mg["text"]),
                          mg["n"])
    c = ctx.counters
    for guard, least in (("edges_with_merge", 1000), ("edges_deletions_purged", 500),
                         ("edges_merge_small_fired", 10), ("mp_histories", 20),
                         ("layouts_multi_segment", 1000), ("layouts_with_deleted_docs", 500)):
        if c.get(guard, 0) < least:
            raise core.HarnessError("vacuous: %s = %d" % (guard, c.get(guard, 0)))


def replay(case):
    core.setup_process(0)
    c = case["case"]
    probs = check_history(c["ops"], c["splits"], c["merges"], c["config"])
    hit = [p for p in probs if p[0] == case["kind"] and p[1] == case["detail"]]
    return {"ok": not hit, "history": show_ops(c["ops"], c["splits"], c["merges"]),
            "config": c["config"], "what": hit[0][2] if hit else "ok",
            "all_problems": [list(p) for p in probs]}
