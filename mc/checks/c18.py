"""C18 - storage back-ends and writer front-ends are interchangeable.

Part A (E1, sequential product): every operation list of length <= 3 over a
2-key alphabet is executed through every storage x segment packing x writer
front-end combination; the canonical logical dump must equal the reference
(plain writer, RAM storage, one transaction per operation).
Part B (E3, schedules): AsyncWriter racing a plain writer that holds the
lock, and BufferedWriter shared by two adder threads and a searcher thread
(with its flush timer as a scheduled thread), under the cooperative scheduler
with line-level scheduling points inside the front-end's methods."""
import itertools
import os
import random
import shutil
import traceback

from mc import core, sched as S
from mc.checks import c02
from mc.checks.c04 import patch_whoosh, _lab

PID = "C18"
LEVEL = "model_checking"


# ---------------------------------------------------------------------------
# Part A

def op_lists(maxlen):
    keys = ("x", "y")
    texts = ("a", "b")
    alpha = []
    for k in keys:
        for t in texts:
            alpha.append(["add", k, t])
            alpha.append(["upd", k, t])
        alpha.append(["del", k])
    for n in range(1, maxlen + 1):
        for seq in itertools.product(alpha, repeat=n):
            # 'add' of a key that may already be live would create duplicates
            # of a unique key, which the documentation leaves to the caller:
            # only add a key that is not live
            live = set()
            ok = True
            for op in seq:
                if op[0] == "add":
                    if op[1] in live:
                        ok = False
                        break
                    live.add(op[1])
                elif op[0] == "upd":
                    live.add(op[1])
                else:
                    live.discard(op[1])
            if ok:
                yield [list(o) for o in seq]


FRONTENDS = ["plain", "buffered1", "buffered2", "buffered3", "async", "serialmp", "mp2", "mp3ms"]
STORAGES = [("ram", True), ("file", True), ("file", False), ("file_nommap", True), ("file_nommap", False),
            ("copy_to_ram", True)]


_counter = [0]


def open_storage(kind, work):
    from whoosh.filedb.filestore import FileStorage, RamStorage
    if kind == "ram":
        return RamStorage()
    # "copy_to_ram": written on disk, read back through copy_to_ram()
    _counter[0] += 1
    d = os.path.join(work, "ix%d" % _counter[0])
    os.makedirs(d)
    return FileStorage(d, supports_mmap=(kind != "file_nommap"))


def run_frontend(ops, storage, compound, frontend, work, rich=False):
    """Returns the canonical dump of the index produced.  rich: the schema of
    Part C (sort columns everywhere, a dynamic field, sparse documents)."""
    from whoosh import writing
    st = open_storage(storage, work)
    ix = st.create_index(c_schema() if rich else c02.schema())
    apply_ops = (lambda w, ops: [c_apply(w, op) for op in ops]) if rich else c02.apply_ops

    def plain_writer():
        if frontend == "serialmp":
            from whoosh.multiproc import SerialMpWriter
            w = SerialMpWriter(ix, procs=2, batchsize=1)
        elif frontend == "mp2":
            from whoosh.multiproc import MpWriter
            w = MpWriter(ix, procs=2, batchsize=1)
        elif frontend == "mp3ms":
            from whoosh.multiproc import MpWriter
            w = MpWriter(ix, procs=3, batchsize=2, multisegment=True)
        elif frontend == "mp2ms_opt":
            # multisegment, and every commit also merges the existing segments
            from whoosh.multiproc import MpWriter
            w = MpWriter(ix, procs=2, batchsize=1, multisegment=True)
        elif frontend == "async":
            w = writing.AsyncWriter(ix)
        else:
            w = ix.writer()
        if not compound:
            target = getattr(w, "writer", w) if frontend == "async" else w
            target.compound = False
        return w

    if frontend.startswith("buffered"):
        limit = int(frontend[-1])
        bw = writing.BufferedWriter(ix, period=None, limit=limit)
        if not compound:
            bw.writer.compound = False
        for op in ops:
            apply_ops(bw, [op])
        bw.close()
    else:
        for op in ops:
            w = plain_writer()
            apply_ops(w, [op])
            if frontend == "mp2ms_opt":
                w.commit(optimize=True)
            else:
                w.commit()
    if storage == "copy_to_ram":
        from whoosh.filedb.filestore import copy_to_ram
        ix = copy_to_ram(st).open_index()
    else:
        ix = st.open_index()
    if rich:
        with ix.searcher() as srch:
            return {"dump": c_dump(srch.reader(), ix.schema), "sorted": c_sorted(srch)}
    return c02.dump(ix)


def task_a(t):
    nsl, sl, maxlen, frontends, storages, seed = t
    acc = core.Acc()
    work = core.fresh_dir("c18a")
    try:
        for i, ops in enumerate(op_lists(maxlen)):
            if i % nsl != sl:
                continue
            random.seed(seed)
            ref = run_frontend(ops, "ram", True, "plain", work)
            for storage, compound in storages:
                for fe in frontends:
                    if fe.startswith("mp") and (storage in ("ram",) or len(ops) > 2):
                        continue
                    if fe.startswith("mp") and i % 7 != 0:
                        continue
                    acc.count("evaluations")
                    acc.count("partA_cases")
                    random.seed(seed + 1)
                    try:
                        got = run_frontend(ops, storage, compound, fe, work)
                    except Exception as e:
                        tb = traceback.extract_tb(e.__traceback__)
                        fr = [f for f in tb if "/whoosh/" in f.filename] or list(tb)
                        where = "%s:%s" % (fr[-1].filename.split("/")[-1], fr[-1].name)
                        acc.violation("A|%s|exc:%s@%s" % (fe, type(e).__name__, where),
                                      {"part": "A", "ops": ops, "storage": storage, "compound": compound, "frontend": fe, "seed": seed},
                                      "%s on %s/%s raised %r at %s for ops %r" % (fe, storage, compound, e, where, ops))
                        continue
                    if len(ref["docs"]) > 0:
                        acc.count("distinct_nontrivial")
                    if got != ref:
                        diff = [k for k in ref if ref[k] != got.get(k)]
                        acc.violation("A|%s|%s|differs:%s" % (fe, "ram" if storage == "ram" else "disk", "+".join(diff)),
                                      {"part": "A", "ops": ops, "storage": storage, "compound": compound, "frontend": fe, "seed": seed},
                                      "ops %r through %s on %s/%s: %s differ: got %r, reference %r"
                                      % (ops, fe, storage, "compound" if compound else "loose", diff,
                                         dict((k, got.get(k)) for k in diff), dict((k, ref[k]) for k in diff)))
            if i % 50 == 3:
                acc.sample({"part": "A", "ops": ops, "reference_docs": [d[0] for d in ref["docs"]]})
    finally:
        shutil.rmtree(work, ignore_errors=True)
    return acc.result()


# ---------------------------------------------------------------------------
# Part C: BufferedWriter's own view after EVERY operation, richer schema
# (sortable ID/TEXT/KEYWORD columns, i.e. variable-width columns) and sparse
# documents (which leave holes at the end of columns)

C_TEXTS = {"a": u"alfa bravo", "b": u"bravo charlie charlie"}


def c_schema():
    from whoosh import fields
    sch = fields.Schema(key=fields.ID(stored=True, unique=True, sortable=True),
                        text=fields.TEXT(stored=True, sortable=True),
                        n=fields.NUMERIC(int, sortable=True),
                        tag=fields.KEYWORD(stored=True, vector=True, sortable=True))
    # a dynamic field: its concrete names exist only in the documents
    sch.add("*_dyn", fields.TEXT(vector=True), glob=True)
    return sch


def c_apply(w, op):
    k = op[0]
    if k == "add":
        w.add_document(key=op[1], text=C_TEXTS[op[2]], n=len(op[1]) + ord(op[2]), tag=op[2] + u" t",
                       **{"%s_dyn" % op[2]: C_TEXTS[op[2]] + u" dyn"})
    elif k == "adds":
        w.add_document(key=op[1])
    elif k == "upd":
        w.update_document(key=op[1], text=C_TEXTS[op[2]], n=ord(op[2]), tag=op[2])
    elif k == "upds":
        w.update_document(key=op[1])
    elif k == "del":
        w.delete_by_term("key", op[1])
    else:
        raise ValueError(op)


def c_op_lists(maxlen):
    alpha = []
    for k in (u"k1", u"k2"):
        for t in ("a", "b"):
            alpha.append(["add", k, t])
            alpha.append(["upd", k, t])
        alpha.append(["adds", k])
        alpha.append(["upds", k])
        alpha.append(["del", k])
    for n in range(1, maxlen + 1):
        for seq in itertools.product(alpha, repeat=n):
            live = set()
            ok = True
            for op in seq:
                if op[0] in ("add", "adds"):
                    if op[1] in live:
                        ok = False
                        break
                    live.add(op[1])
                elif op[0] in ("upd", "upds"):
                    live.add(op[1])
                else:
                    live.discard(op[1])
            if ok:
                yield [list(o) for o in seq]


def c_dump(r, schema):
    """Canonical logical content seen through reader r, keyed by document key."""
    out = {"docs": [], "lex": {}}
    keyof = {}
    colfields = [f for f in sorted(schema.names()) if schema[f].column_type is not None]
    for docnum, sf in r.iter_docs():
        keyof[docnum] = sf["key"]
        cols = []
        for f in colfields:
            # a document without a value reads the column's default; when no
            # segment of the layout has the column at all there is no column
            # to read: both mean "no value"
            if not r.has_column(f):
                cols.append([f, "novalue"])
                continue
            try:
                cr = r.column_reader(f)
                v = cr[docnum]
                fo = schema[f]
                try:
                    dflt = fo.from_column_value(fo.column_type.default_value())
                except Exception:
                    dflt = fo.column_type.default_value()
                cols.append([f, "novalue" if v == dflt else repr(v)])
            except Exception as e:
                cols.append([f, "exc:%s" % type(e).__name__])
        vec = []
        for f in ("tag", "a_dyn", "b_dyn"):
            if r.has_vector(docnum, f):
                vec.append([f, sorted(r.vector_as("frequency", docnum, f))])
        lens = [[f, r.doc_field_length(docnum, f)] for f in ("text", "tag", "a_dyn", "b_dyn")]
        out["docs"].append([sf["key"], sorted(sf.items()), cols, vec, lens])
    out["docs"].sort()
    # total field lengths are layout independent only without deleted documents
    # (a segment's statistics include them); min/max are documented as
    # approximations: they are called (must not raise) but not compared
    fl = []
    for f in ("text", "tag", "a_dyn", "b_dyn"):
        r.min_field_length(f)
        r.max_field_length(f)
        fl.append([f, r.field_length(f)])
    out["field_lengths"] = None if r.has_deletions() else fl
    for fname in ("key", "text", "tag", "a_dyn", "b_dyn"):
        terms = {}
        for t in r.lexicon(fname):
            m = r.postings(fname, t)
            posts = []
            while m.is_active():
                if m.id() in keyof:
                    posts.append([keyof[m.id()], round(m.weight(), 5)])
                m.next()
            if posts:
                terms[t.decode("utf8")] = sorted(posts)
        out["lex"][fname] = terms
    out["doc_count"] = r.doc_count()
    return out


def c_sorted(searcher):
    """Keys in the order of each sortable field (ties broken by key)"""
    from whoosh import query as Q
    out = {}
    for f in ("key", "text", "tag", "n"):
        try:
            r = searcher.search(Q.Every(), sortedby=[f, "key"], limit=None)
            out[f] = [h["key"] for h in r]
        except Exception as e:
            out[f] = "exc:%s" % type(e).__name__
    return out


def c_reference(ops, seed, pre=None):
    """Dump after every prefix, plain writer, one transaction per operation."""
    from whoosh.filedb.filestore import RamStorage
    random.seed(seed)
    ix = RamStorage().create_index(c_schema())
    c_prestate(ix, pre)
    views = []
    for op in ops:
        w = ix.writer()
        c_apply(w, op)
        w.commit()
        with ix.searcher() as s:
            views.append((c_dump(s.reader(), ix.schema), c_sorted(s)))
    return views


def c_prestate(ix, pre):
    """Start state: a list of transactions (each a list of ops) committed without merging."""
    for tx in pre or ():
        w = ix.writer()
        for op in tx:
            c_apply(w, op)
        w.commit(merge=False)


def c_buffered(ops, limit, storage, work, seed, commitargs=None, pre=None):
    """(views after every op through the BufferedWriter's own searcher, final dump after close)"""
    from whoosh import writing
    random.seed(seed + 1)
    st = open_storage(storage, work)
    ix = st.create_index(c_schema())
    c_prestate(ix, pre)
    bw = writing.BufferedWriter(ix, period=None, limit=limit, commitargs=commitargs)
    views = []
    try:
        for op in ops:
            c_apply(bw, op)
            s = bw.searcher()
            try:
                views.append((c_dump(s.reader(), ix.schema), c_sorted(s)))
            finally:
                s.close()
    finally:
        bw.close()
    with st.open_index().searcher() as s:
        final = (c_dump(s.reader(), ix.schema), c_sorted(s))
    return views, final


def _c_diff(ref, got):
    out = []
    for part, a, b in (("dump", ref[0], got[0]), ("sorted", ref[1], got[1])):
        for k in a:
            if k == "field_lengths" and (a[k] is None or b.get(k) is None):
                continue
            if a[k] != b.get(k):
                out.append("%s.%s" % (part, k))
    return out


def task_c(t):
    nsl, sl, maxlen, limits, storages, seed = t
    acc = core.Acc()
    work = core.fresh_dir("c18c")
    try:
        for i, ops in enumerate(c_op_lists(maxlen)):
            if i % nsl != sl:
                continue
            ref = c_reference(ops, seed)
            for storage in storages:
                for limit in limits:
                    acc.count("evaluations")
                    acc.count("partC_cases")
                    case = {"part": "C", "ops": ops, "storage": storage, "limit": limit, "seed": seed}
                    try:
                        views, final = c_buffered(ops, limit, storage, work, seed)
                    except Exception as e:
                        tb = traceback.extract_tb(e.__traceback__)
                        fr = [f for f in tb if "/whoosh/" in f.filename] or list(tb)
                        where = "%s:%s" % (fr[-1].filename.split("/")[-1], fr[-1].name)
                        acc.violation("C|exc:%s@%s" % (type(e).__name__, where), case,
                                      "BufferedWriter(limit=%d) on %s raised %r at %s for ops %r" % (limit, storage, e, where, ops))
                        continue
                    if ref[-1][0]["docs"]:
                        acc.count("distinct_nontrivial")
                    bad = None
                    for j, (rv, gv) in enumerate(zip(ref, views)):
                        acc.count("partC_views_compared")
                        d = _c_diff(rv, gv)
                        if d:
                            bad = ("view", j, d, rv, gv)
                            break
                    if bad is None:
                        d = _c_diff(ref[-1], final)
                        if d:
                            bad = ("closed", len(ops) - 1, d, ref[-1], final)
                    if bad:
                        kind, j, d, rv, gv = bad
                        acc.violation("C|%s|differs:%s" % (kind, "+".join(d)), case,
                                      "ops %r, BufferedWriter(limit=%d) on %s: after op %d the %s differs in %s: got %r, reference %r"
                                      % (ops, limit, storage, j, "writer's own searcher" if kind == "view" else "index after close()", d,
                                         [gv[0].get(k.split(".", 1)[1]) if k.startswith("dump.") else gv[1].get(k.split(".", 1)[1]) for k in d],
                                         [rv[0].get(k.split(".", 1)[1]) if k.startswith("dump.") else rv[1].get(k.split(".", 1)[1]) for k in d]))
            if i % 200 == 5:
                acc.sample({"part": "C", "ops": ops, "reference_docs": [d[0] for d in ref[-1][0]["docs"]]})
    finally:
        shutil.rmtree(work, ignore_errors=True)
    return acc.result()


# -------------------------------------------------------------------------
# Part E: a BufferedWriter that stays open across several flushes whose commits
# merge (commitargs optimize / default / merge=False), from start states with
# deleted documents on disk: document numbers move under the open writer

E_PRE = {
    "empty": [],
    "deleted-first": [[["add", u"k0", "a"], ["add", u"k3", "b"]], [["del", u"k0"]]],
    "two-segs-deleted": [[["add", u"k0", "a"]], [["add", u"k1", "a"], ["add", u"k3", "b"]], [["del", u"k0"], ["del", u"k3"]]],
}
E_COMMITARGS = {"optimize": {"optimize": True}, "nomerge": {"merge": False}, "default": {}}


def e_op_lists(maxlen):
    """every list of <= maxlen operations over {add, upd, del} x {k1, k2} (text variant alternates with the
    position so an update is visible); adds only of keys that are not live in the model of the start state"""
    alpha = [[k, key] for key in (u"k1", u"k2") for k in ("add", "upd", "del")]
    for n in range(1, maxlen + 1):
        for seq in itertools.product(alpha, repeat=n):
            yield [[k, key, "ab"[i % 2]] if k != "del" else [k, key] for i, (k, key) in enumerate(seq)]


def e_valid(ops, pre):
    live = set()
    for tx in pre:
        for op in tx:
            if op[0] == "del":
                live.discard(op[1])
            else:
                live.add(op[1])
    for op in ops:
        if op[0] == "add":
            if op[1] in live:
                return False
            live.add(op[1])
        elif op[0] == "upd":
            live.add(op[1])
        else:
            live.discard(op[1])
    return True


def task_e(t):
    nsl, sl, maxlen, limits, canames, seed = t
    acc = core.Acc()
    work = core.fresh_dir("c18e")
    try:
        i = -1
        for prename in sorted(E_PRE):
            pre = E_PRE[prename]
            for ops in e_op_lists(maxlen):
                if not e_valid(ops, pre):
                    continue
                i += 1
                if i % nsl != sl:
                    continue
                ref = c_reference(ops, seed, pre)
                longest = len(ops) == maxlen and len(canames) < len(E_COMMITARGS)
                for limit in limits:
                    if limit >= len(ops) + 1:
                        continue        # never flushes before close(): Part C's territory
                    if longest and (limit != 2 or prename == "empty"):
                        # quick tier: the longest lists only where document numbers can
                        # move under the open writer (a flush that purges deletions)
                        continue
                    for caname in (("optimize",) if longest else canames):
                        acc.count("evaluations")
                        acc.count("partE_cases")
                        case = {"part": "E", "ops": ops, "pre": prename, "limit": limit, "commitargs": caname, "seed": seed}
                        try:
                            views, final = c_buffered(ops, limit, "ram", work, seed, dict(E_COMMITARGS[caname]), pre)
                        except Exception as e:
                            tb = traceback.extract_tb(e.__traceback__)
                            fr = [f for f in tb if "/whoosh/" in f.filename] or list(tb)
                            where = "%s:%s" % (fr[-1].filename.split("/")[-1], fr[-1].name)
                            acc.violation("E|%s|exc:%s@%s" % (caname, type(e).__name__, where), case,
                                          "BufferedWriter(limit=%d, commitargs=%s) from start state %s raised %r at %s for ops %r"
                                          % (limit, caname, prename, e, where, ops))
                            continue
                        if ref[-1][0]["docs"]:
                            acc.count("distinct_nontrivial")
                        bad = None
                        for j, (rv, gv) in enumerate(zip(ref, views)):
                            acc.count("partE_views_compared")
                            d = _c_diff(rv, gv)
                            if d:
                                bad = ("view", j, d, rv, gv)
                                break
                        if bad is None:
                            d = _c_diff(ref[-1], final)
                            if d:
                                bad = ("closed", len(ops) - 1, d, ref[-1], final)
                        if bad:
                            kind, j, d, rv, gv = bad
                            acc.violation("E|%s|%s|differs:%s" % (caname, kind, "+".join(d)), case,
                                          "start state %s, ops %r, BufferedWriter(limit=%d, commitargs=%s): after op %d the %s "
                                          "differs in %s: got docs %r, reference docs %r"
                                          % (prename, ops, limit, caname, j,
                                             "writer's own searcher" if kind == "view" else "index after close()", d,
                                             [x[0] for x in gv[0]["docs"]], [x[0] for x in rv[0]["docs"]]))
                if i % 300 == 7:
                    acc.sample({"part": "E", "pre": prename, "ops": ops})
    finally:
        shutil.rmtree(work, ignore_errors=True)
    return acc.result()


def task_d(t):
    """Part D: the rich schema through every writer front-end (final dump)."""
    nsl, sl, maxlen, seed = t
    acc = core.Acc()
    work = core.fresh_dir("c18d")
    try:
        for i, ops in enumerate(c_op_lists(maxlen)):
            if i % nsl != sl:
                continue
            random.seed(seed)
            ref = run_frontend(ops, "ram", True, "plain", work, rich=True)
            for storage, compound, fe in (("file", True, "plain"), ("file", False, "buffered2"), ("ram", True, "async"),
                                          ("file", True, "serialmp"), ("file", True, "mp2"), ("file_nommap", False, "mp3ms"),
                                          ("file", True, "mp2ms_opt"),
                                          ("copy_to_ram", True, "serialmp")):
                if fe.startswith("mp") and i % 5 != 0:
                    continue
                acc.count("evaluations")
                acc.count("partD_cases")
                case = {"part": "D", "ops": ops, "storage": storage, "compound": compound, "frontend": fe, "seed": seed}
                random.seed(seed + 1)
                try:
                    got = run_frontend(ops, storage, compound, fe, work, rich=True)
                except Exception as e:
                    tb = traceback.extract_tb(e.__traceback__)
                    fr = [f for f in tb if "/whoosh/" in f.filename] or list(tb)
                    where = "%s:%s" % (fr[-1].filename.split("/")[-1], fr[-1].name)
                    acc.violation("D|%s|exc:%s@%s" % (fe, type(e).__name__, where), case,
                                  "%s on %s/%s raised %r at %s for ops %r" % (fe, storage, compound, e, where, ops))
                    continue
                if ref["dump"]["docs"]:
                    acc.count("distinct_nontrivial")
                d = _c_diff((ref["dump"], ref["sorted"]), (got["dump"], got["sorted"]))
                if d:
                    acc.violation("D|%s|differs:%s" % (fe, "+".join(d)), case,
                                  "ops %r through %s on %s/%s differ from the plain writer in %s: got %r, reference %r"
                                  % (ops, fe, storage, "compound" if compound else "loose", d,
                                     [got["dump"].get(k.split(".", 1)[1]) if k.startswith("dump.") else got["sorted"].get(k.split(".", 1)[1]) for k in d],
                                     [ref["dump"].get(k.split(".", 1)[1]) if k.startswith("dump.") else ref["sorted"].get(k.split(".", 1)[1]) for k in d]))
    finally:
        shutil.rmtree(work, ignore_errors=True)
    return acc.result()


# ---------------------------------------------------------------------------
# Part B

class _ThreadingShim(object):
    """Stands in for the ``threading`` module inside whoosh.writing."""

    def __init__(self, sch):
        import threading as real
        self._real = real
        self.s = sch
        self.timers = []
        self.Thread = real.Thread

    def RLock(self):
        return S.SchedRLock(self.s)

    def Lock(self):
        return S.SchedThreadLock(self.s, "lock")

    def Timer(self, interval, fn, args=(), kwargs=None):
        t = _SchedTimer(self, interval, fn)
        # the first two timers may fire at any point; later ones are taken to
        # fire after the horizon of the harness (every commit re-arms the
        # timer, so the execution space would be unbounded otherwise)
        t.never = len(self.timers) >= getattr(self, "max_timers", 2)
        self.timers.append(t)
        return t

    def __getattr__(self, name):
        return getattr(self._real, name)


class _SchedTimer(object):
    """A timer is a thread that may fire at any scheduling point between
    start() and cancel()."""

    def __init__(self, shim, interval, fn):
        self.shim = shim
        self.fn = fn
        self.cancelled = False
        self.started = False
        self.fired = False

    def is_free(self):
        return True

    def start(self):
        self.started = True
        if getattr(self, "never", False):
            return
        n = len([t for t in self.shim.timers if t.started])
        timer = self

        def body():
            if not timer.cancelled:
                timer.fired = True
                timer.fn()
        self.shim.s.spawn("timer%d" % n, body)

    def cancel(self):
        self.cancelled = True


def run_async(cfg, prefix):
    """Main holds a plain writer; A uses an AsyncWriter; M commits/cancels."""
    from whoosh import writing
    from whoosh.filedb.filestore import RamStorage
    random.seed(cfg.get("seed", 0) * 1000 + 7)
    sch = S.Scheduler(prefix)
    undo = patch_whoosh(sch)
    saved_start = writing.AsyncWriter.start
    work = None
    outcome = {"problems": []}
    try:
        lockreg = {}
        if cfg["storage"] == "file":
            work = core.fresh_dir("c18b")
            d = os.path.join(work, "ix")
            os.makedirs(d)
            st = S.make_sched_storage(sch, d, lockreg)
            sch.state_fn = lambda: S.dir_digest(d)
        else:
            st = S.make_sched_ram_storage(sch)
            sch.state_fn = lambda: S.ram_digest(st)
        ix = st.create_index(c02.schema())
        w0 = ix.writer()
        init = cfg.get("init", ["k0"])
        c02.apply_ops(w0, [["add", k, "a"] for k in init])
        w0.commit()
        main_ops = cfg.get("main_ops", [["add", "m", "b"]])
        async_ops = [["add", "x", "a"], ["add", "y", "b"]] + ([["del", cfg["async_delete"]]] if cfg.get("async_delete") else [])
        ix_m = st.open_index()
        ix_a = st.open_index()
        state = {}
        writing.AsyncWriter.start = lambda self: sch.spawn("async", self.run)

        def main():
            from whoosh.index import LockError
            try:
                w = ix_m.writer()
            except LockError:
                # the AsyncWriter got the lock first: nothing to do for main
                state["main_lockerror"] = True
                return
            state["main_has"] = True
            state.setdefault("lock_order", []).append("M")
            c02.apply_ops(w, main_ops)
            sch.point(("main", "holding"), yielding=True)
            if cfg["main_end"] == "commit":
                w.commit(merge=False)
                state["main_committed"] = True
            elif cfg["main_end"] == "optimize":
                w.commit(optimize=True)
                state["main_committed"] = True
            else:
                w.cancel()

        def user():
            aw = writing.AsyncWriter(ix_a, delay=0.05)
            state["async_direct"] = aw.writer is not None
            if aw.writer is not None:
                state.setdefault("lock_order", []).append("U")
            # (the delete is requested first: it refers to the documents
            # committed when the AsyncWriter's transaction finally runs)
            if cfg.get("async_delete"):
                aw.delete_by_term("key", cfg["async_delete"])
            aw.add_document(**{"key": u"x", "text": c02.TEXTS["a"], c02.NF: 1, "tag": u"a t"})
            aw.add_document(**{"key": u"y", "text": c02.TEXTS["b"], c02.NF: 2, "tag": u"b t"})
            aw.commit()

        sch.spawn("M", main)
        sch.spawn("U", user)
        ok = sch.run()
        if not ok:
            outcome["problems"].append(("deadlock" if sch.deadlock else "livelock",
                                        "pending %r" % (sch.deadlock,)))
            sch.abandon()
        for tid, t in sch.threads.items():
            if t.exc is not None:
                tb = traceback.extract_tb(t.exc.__traceback__)
                fr = [f for f in tb if "/whoosh/" in f.filename] or list(tb)
                outcome["problems"].append(("exc:%s:%s@%s:%s" % (tid, type(t.exc).__name__, fr[-1].filename.split("/")[-1], fr[-1].name),
                                            "thread %s raised %r" % (tid, t.exc)))
        if ok:
            try:
                with st.open_index().searcher() as s:
                    keys = sorted(sf["key"] for sf in s.all_stored_fields())
                # sequential model: main's transaction (if it got the lock and
                # committed), then the AsyncWriter's
                expect = list(init)
                a_txn = ([["del", cfg["async_delete"]]] if cfg.get("async_delete") else []) + async_ops[:2]
                m_txn = [main_ops] if state.get("main_committed") else []
                # whoever got the lock first comes first
                first_u = state.get("async_direct") and state.get("lock_order", ["U"])[0] == "U"
                txns = ([a_txn] + m_txn) if first_u else (m_txn + [a_txn])
                for ops in txns:
                    for op in ops:
                        if op[0] == "add":
                            expect.append(op[1])
                        elif op[0] == "del":
                            expect = [k for k in expect if k != op[1]]
                if keys != sorted(expect):
                    outcome["problems"].append(("lost-or-duplicated", "final documents %r, expected %r" % (keys, sorted(expect))))
                outcome["keys"] = keys
                outcome["direct"] = state.get("async_direct")
            except Exception as e:
                outcome["problems"].append(("end-state-exc:%s" % type(e).__name__, repr(e)))
    except S.Divergence:
        raise
    except Exception:
        outcome["problems"].append(("harness", traceback.format_exc()[-900:]))
    finally:
        writing.AsyncWriter.start = saved_start
        undo()
        if work:
            shutil.rmtree(work, ignore_errors=True)
    return sch, outcome


BW_TRACE = set([("writing.py", "BufferedWriter.add_document"), ("writing.py", "BufferedWriter.commit"),
                ("writing.py", "BufferedWriter.reader"), ("writing.py", "BufferedWriter.close"),
                ("writing.py", "BufferedWriter._make_ram_index"), ("writing.py", "BufferedWriter._get_ram_reader"),
                ("writing.py", "BufferedWriter.searcher")])


def run_buffered(cfg, prefix):
    """Two adder threads + one observer share a BufferedWriter."""
    from whoosh import writing
    random.seed(cfg.get("seed", 0) * 1000 + 7)
    sch = S.Scheduler(prefix, trace_funcs=BW_TRACE)
    undo = patch_whoosh(sch)
    saved_threading = writing.threading
    outcome = {"problems": [], "obs": []}
    try:
        shim = _ThreadingShim(sch)
        shim.max_timers = cfg.get("max_timers", 2)
        writing.threading = shim
        st = S.make_sched_ram_storage(sch) if cfg.get("points") == "storage" else None
        if st is None:
            from whoosh.filedb.filestore import RamStorage
            st = RamStorage()
        ix = st.create_index(c02.schema())
        w0 = ix.writer()
        c02.apply_ops(w0, [["add", "k0", "a"]])
        w0.commit()
        bw = writing.BufferedWriter(ix, period=cfg.get("period"), limit=cfg["limit"])
        sch.state_fn = lambda: (S.ram_digest(st), bw.bufferedcount, id(bw.writer) % 1000003)
        done = {}   # key -> True once add_document returned
        started = {}

        def adder(keys):
            def body():
                for k in keys:
                    started[k] = True
                    bw.add_document(**{"key": k, "text": c02.TEXTS["a"], c02.NF: 1, "tag": u"a t"})
                    done[k] = True
            return body

        def observer():
            for _ in range(cfg.get("observations", 1)):
                must = set(k for k in done) | set([u"k0"])
                with bw.searcher() as s:
                    seen = sorted(sf["key"] for sf in s.all_stored_fields())
                may = set(k for k in started) | set([u"k0"])
                outcome["obs"].append(tuple(seen))
                if len(seen) != len(set(seen)):
                    outcome["problems"].append(("searcher-duplicate", "BufferedWriter.searcher() shows %r" % (seen,)))
                elif not (must <= set(seen) <= may):
                    outcome["problems"].append(("searcher-missing" if not must <= set(seen) else "searcher-extra",
                                                "BufferedWriter.searcher() shows %r; documents whose add_document had "
                                                "returned before the call: %r; started by its end: %r"
                                                % (seen, sorted(must), sorted(may))))
            if cfg.get("observer_commits"):
                bw.commit()

        sch.spawn("A1", adder(cfg["keys1"]))
        sch.spawn("A2", adder(cfg["keys2"]))
        sch.spawn("O", observer)
        ok = sch.run()
        if not ok:
            outcome["problems"].append(("deadlock" if sch.deadlock else "livelock", "pending %r" % (sch.deadlock,)))
            sch.abandon()
        for tid, t in sch.threads.items():
            if t.exc is not None:
                tb = traceback.extract_tb(t.exc.__traceback__)
                fr = [f for f in tb if "/whoosh/" in f.filename] or list(tb)
                outcome["problems"].append(("exc:%s:%s@%s:%s" % (tid.rstrip("0123456789"), type(t.exc).__name__,
                                                               fr[-1].filename.split("/")[-1], fr[-1].name),
                                            "thread %s raised %r" % (tid, t.exc)))
        if ok and not any(p[0].startswith("exc") for p in outcome["problems"]):
            try:
                for t in shim.timers:
                    t.cancelled = True
                bw.close()
                with ix.searcher() as s:
                    keys = sorted(sf["key"] for sf in s.all_stored_fields())
                expect = sorted([u"k0"] + list(cfg["keys1"]) + list(cfg["keys2"]))
                if keys != expect:
                    kind = "close-lost" if set(keys) < set(expect) else "close-duplicated"
                    outcome["problems"].append((kind, "after close() the index holds %r, expected %r" % (keys, expect)))
                outcome["keys"] = keys
            except Exception as e:
                outcome["problems"].append(("close-exc:%s" % type(e).__name__, repr(e)))
    except S.Divergence:
        raise
    except Exception:
        outcome["problems"].append(("harness", traceback.format_exc()[-900:]))
    finally:
        writing.threading = saved_threading
        undo()
    return sch, outcome


def explore_b(cfg, bound, max_execs, acc):
    runner = run_async if cfg["kind"] == "async" else run_buffered
    outcomes = {}
    allstates = set()

    def make_run(prefix):
        return runner(cfg, prefix)

    def on_exec(sch, outcome):
        key = (tuple(outcome.get("keys", ())), tuple(outcome.get("obs", ())), outcome.get("direct"))
        outcomes[key] = outcomes.get(key, 0) + 1
        acc.count("traces_validated_against_impl")
        acc.count("evaluations")
        acc.count("transitions", len(sch.decisions))
        new = sch.states - allstates
        allstates.update(new)
        acc.count("states", len(new))
        if any(c for c in sch.choices):
            acc.count("distinct_nontrivial")
        for kind, text in outcome["problems"]:
            if kind == "harness":
                raise core.HarnessError(text)
            acc.violation("B|%s|%s" % (cfg["name"], kind), {"part": "B", "cfg": cfg, "choices": list(sch.choices)},
                          "%s; schedule tail=%r" % (text[:500], [(t, _lab(l)) for t, l in sch.trace][-30:]))
        return False

    s1, o1 = runner(cfg, [])
    s2, o2 = runner(cfg, [])
    if [(t, _lab(l)) for t, l in s1.trace] != [(t, _lab(l)) for t, l in s2.trace]:
        raise core.HarnessError("non-deterministic replay of the default schedule for %s" % cfg["name"])
    completed = -1
    stats = None
    for b in range(0, bound + 1):
        stats = S.explore(make_run, b, max_execs, on_exec)
        if stats["capped"]:
            break
        completed = b
    acc.count("configs")
    acc.count("bound%d_completed" % max(completed, 0))
    if completed < 1:
        acc.count("capped_configs")
    acc.count("distinct_outcomes", len(outcomes))
    acc.sample({"part": "B", "config": cfg["name"], "preemption_bound_completed": completed,
                "executions_at_last_bound": stats["executions"], "distinct_outcomes": len(outcomes)})


def b_configs(tier):
    out = []
    for storage in ("file", "ram"):
        for end in ("commit", "cancel"):
            out.append({"kind": "async", "name": "async:%s:main-%s" % (storage, end), "storage": storage, "main_end": end})
        out.append({"kind": "async", "name": "async:%s:main-commit:delete" % storage, "storage": storage,
                    "main_end": "commit", "async_delete": u"k0"})
        # the lock holder renumbers the documents (delete + optimize) or adds a
        # document carrying the term the AsyncWriter was asked to delete
        out.append({"kind": "async", "name": "async:%s:main-del-optimize:delete" % storage, "storage": storage,
                    "init": ["k0", "k1", "k2"], "main_ops": [["del", "k0"]], "main_end": "optimize", "async_delete": u"k1"})
        out.append({"kind": "async", "name": "async:%s:main-add-same-term:delete" % storage, "storage": storage,
                    "init": ["k0", "k1"], "main_ops": [["add", "k1", "b"]], "main_end": "commit", "async_delete": u"k1"})
    out.append({"kind": "buffered", "name": "buffered:limit2:1+1", "limit": 2, "period": None,
                "keys1": [u"a"], "keys2": [u"b"], "observations": 1})
    out.append({"kind": "buffered", "name": "buffered:limit2:2+1", "limit": 2, "period": None,
                "keys1": [u"a", u"c"], "keys2": [u"b"], "observations": 1})
    out.append({"kind": "buffered", "name": "buffered:limit3:1+1:observer-commits", "limit": 3, "period": None,
                "keys1": [u"a"], "keys2": [u"b"], "observations": 1, "observer_commits": True})
    out.append({"kind": "buffered", "name": "buffered:limit10:timer", "limit": 10, "period": 5,
                "keys1": [u"a"], "keys2": [], "observations": 1, "max_timers": 1})
    if tier != "quick":
        out.append({"kind": "buffered", "name": "buffered:limit10:timer2", "limit": 10, "period": 5,
                    "keys1": [u"a"], "keys2": [u"b"], "observations": 1, "max_timers": 2})
    return out


def task_b(t):
    cfg, bound, cap, seed = t
    acc = core.Acc()
    explore_b(dict(cfg, seed=seed), bound, cap, acc)
    return acc.result()


def task(t):
    if t[0] == "A":
        return task_a(t[1])
    if t[0] == "C":
        return task_c(t[1])
    if t[0] == "D":
        return task_d(t[1])
    if t[0] == "E":
        return task_e(t[1])
    return task_b(t[1])


def run(ctx):
    tasks = []
    if ctx.tier == "quick":
        maxlen, nsl = 2, 16
        storages = STORAGES
        bound, cap = 1, 3000
    else:
        maxlen, nsl = 3, 64
        storages = STORAGES
        bound, cap = 2, 8000
    for sl in range(nsl):
        tasks.append(("A", (nsl, sl, maxlen, FRONTENDS, storages, ctx.seed)))
    cmax, climits = (2, (1, 2, 3)) if ctx.tier == "quick" else (3, (1, 2, 3, 4))
    for sl in range(16):
        tasks.append(("C", (16, sl, cmax, climits, ("ram", "file"), ctx.seed)))
    for sl in range(16):
        tasks.append(("D", (16, sl, 2 if ctx.tier == "quick" else 3, ctx.seed)))
    emax, elimits, ecommit = (4, (1, 2), ("optimize", "default")) if ctx.tier == "quick" else (5, (1, 2, 3), ("optimize", "default", "nomerge"))
    for sl in range(32):
        tasks.append(("E", (32, sl, emax, elimits, ecommit, ctx.seed)))
    for cfg in b_configs(ctx.tier):
        tasks.append(("B", (cfg, bound, cap, ctx.seed)))
    ctx.rule = ("Part A: every operation list of length <= %d over {add, update, delete} x 2 keys x 2 texts (adds only of "
                "non-live keys) through every storage {RAM, file mmap, file no-mmap, copy_to_ram} x {compound, loose} "
                "x front-end {plain, BufferedWriter limit 1..3, AsyncWriter, SerialMpWriter, MpWriter procs 2 / 3 "
                "multisegment (real processes, on a subset)} compared with the reference dump; Part C: every operation "
                "list of length <= %d over {add, sparse add (key only), update, sparse update, delete} x 2 keys on a "
                "schema whose ID/TEXT/KEYWORD/NUMERIC fields all have sort columns, through BufferedWriter limit %s on "
                "{RAM, file}: after EVERY operation the writer's own searcher (stored fields, every column value, "
                "vectors, field lengths, postings, sort orders) and after close() the reopened index must equal the "
                "plain-writer reference; Part D: the same operation lists and schema (plus a dynamic *_dyn TEXT field with "
                "vectors) through {plain on file, BufferedWriter, AsyncWriter, SerialMpWriter, MpWriter 2 procs / 3 procs "
                "multisegment / 2 procs multisegment with optimizing commits, copy_to_ram}, final dump incl. per-field length statistics and vectors; Part E: "
                "a BufferedWriter that stays open across flushes: every operation list of length <= %d over {add, update, delete} x 2 keys "
                "x limit %s x commitargs {optimize, default; thorough also merge=False} x start states {empty, one segment with a deleted document, "
                "two segments with deletions}, the writer's own searcher after every operation and the index after close() against "
                "the plain-writer reference (quick tier: lists of the maximal length only with limit 2, optimizing flushes and a start state with deletions); Part B: AsyncWriter vs a "
                "lock-holding plain writer and BufferedWriter shared by two adders, an observer and its timer, every "
                "schedule with <= B preemptions (storage/lock/sleep points; line-level points inside BufferedWriter); "
                "states/transitions count Part B scheduling decisions/steps; evaluations count all parts"
                % (maxlen, cmax, "/".join(map(str, climits)), emax, "/".join(map(str, elimits))))
    ctx.assumptions = ["reference = plain writer on RamStorage with one transaction per operation",
                       "BufferedWriter.searcher() must show every document whose add_document() had returned before "
                       "the call and nothing that had not been started by its end",
                       "real MpWriter process scheduling is not controlled; its outcome must equal the reference"]
    ctx.pmap(task, tasks)
    if ctx.counters.get("capped_configs"):
        ctx.cap("%d Part B configurations hit the execution cap before completing preemption bound 1" % ctx.counters["capped_configs"])


def replay(case):
    core.setup_process(case.get("seed", 0) if "seed" in case else case.get("cfg", {}).get("seed", 0))
    if case["part"] == "D":
        work = core.fresh_dir("c18r")
        random.seed(case["seed"])
        ref = run_frontend(case["ops"], "ram", True, "plain", work, rich=True)
        random.seed(case["seed"] + 1)
        try:
            got = run_frontend(case["ops"], case["storage"], case["compound"], case["frontend"], work, rich=True)
        except Exception:
            return {"ok": False, "what": traceback.format_exc()[-600:]}
        return {"ok": got == ref, "what": "reference %r got %r" % (ref, got)}
    if case["part"] == "C":
        work = core.fresh_dir("c18r")
        ref = c_reference(case["ops"], case["seed"])
        try:
            views, final = c_buffered(case["ops"], case["limit"], case["storage"], work, case["seed"])
        except Exception:
            return {"ok": False, "what": traceback.format_exc()[-600:]}
        ok = all(not _c_diff(a, b) for a, b in zip(ref, views)) and not _c_diff(ref[-1], final)
        return {"ok": ok, "what": "reference %r views %r final %r" % (ref, views, final)}
    if case["part"] == "E":
        work = core.fresh_dir("c18r")
        pre = E_PRE[case["pre"]]
        ref = c_reference(case["ops"], case["seed"], pre)
        try:
            views, final = c_buffered(case["ops"], case["limit"], "ram", work, case["seed"],
                                      dict(E_COMMITARGS[case["commitargs"]]), pre)
        except Exception:
            return {"ok": False, "what": traceback.format_exc()[-600:]}
        ok = all(not _c_diff(a, b) for a, b in zip(ref, views)) and not _c_diff(ref[-1], final)
        return {"ok": ok, "what": "reference docs %r views %r final %r" % (
            [[x[0] for x in v[0]["docs"]] for v in ref], [[x[0] for x in v[0]["docs"]] for v in views],
            [x[0] for x in final[0]["docs"]])}
    if case["part"] == "A":
        work = core.fresh_dir("c18r")
        random.seed(case["seed"])
        ref = run_frontend(case["ops"], "ram", True, "plain", work)
        random.seed(case["seed"] + 1)
        try:
            got = run_frontend(case["ops"], case["storage"], case["compound"], case["frontend"], work)
        except Exception:
            return {"ok": False, "what": traceback.format_exc()[-600:]}
        return {"ok": got == ref, "what": "reference %r got %r" % (ref["docs"], got["docs"])}
    cfg = case["cfg"]
    runner = run_async if cfg["kind"] == "async" else run_buffered
    sch, outcome = runner(cfg, case["choices"])
    return {"ok": not outcome["problems"], "what": outcome["problems"],
            "trace": [(t, _lab(l)) for t, l in sch.trace][-60:]}
