"""C04 - one writer at a time; no committed update is ever lost.
E3: 2-3 real writer threads race on one index under the cooperative
scheduler; every interleaving of their storage-layer operations, lock
operations and polling sleeps with <= B preemptions is executed on the real
code (FileStorage with the real flock, and RamStorage with its threading.Lock
made visible to the scheduler); monitors check mutual exclusion at every
step and the end state is compared with the fold of the successful commits."""
import os
import random
import shutil
import traceback

from mc import core, sched as S

PID = "C04"
LEVEL = "model_checking"


def schema():
    from whoosh import fields
    return fields.Schema(key=fields.ID(stored=True, unique=True), text=fields.TEXT(stored=True))


class Boom(Exception):
    pass


def writer_body(get_ix, spec, out, sch=None):
    """spec: {"key":..., "timeout": t, "delay": d, "end": commit|cancel|raise|with_ok|async, "delete": key or None,
    "hold": the thread yields (free switch) while its transaction is open}"""
    def hold(tag):
        if spec.get("hold") and sch is not None:
            sch.point(("user", tag), yielding=True)

    def body():
        from whoosh.index import LockError
        ix = get_ix()
        try:
            if spec["end"] == "async":
                # AsyncWriter: writes through when it gets the lock at once,
                # else buffers the calls and replays them from its own thread
                from whoosh import writing
                aw = writing.AsyncWriter(ix, delay=spec["delay"])
                out["async_direct"] = aw.writer is not None
                aw.add_document(key=spec["key"], text=u"t " + spec["key"])
                if spec.get("delete"):
                    aw.delete_by_term("key", spec["delete"])
                hold("async-open")
                aw.commit(merge=False)
                out["committed"] = True
                return
            if spec["end"] == "double":
                # the same thread asks for a second writer while it holds one:
                # must fail with LockError, not proceed and not hang
                w1 = ix.writer(timeout=spec["timeout"], delay=spec["delay"])
                out["got_writer"] = True
                try:
                    w2 = ix.writer(timeout=spec["timeout"], delay=spec["delay"])
                    out["second_writer_granted"] = True
                    w2.cancel()
                except LockError:
                    out["second_refused"] = True
                w1.add_document(key=spec["key"], text=u"t " + spec["key"])
                w1.commit(merge=False)
                out["committed"] = True
                return
            if spec["end"] in ("raise", "with_ok"):
                try:
                    with ix.writer(timeout=spec["timeout"], delay=spec["delay"]) as w:
                        out["got_writer"] = True
                        w.add_document(key=spec["key"], text=u"t " + spec["key"])
                        if spec.get("delete"):
                            w.delete_by_term("key", spec["delete"])
                        if spec["end"] == "raise":
                            raise Boom()
                    out["committed"] = True
                except Boom:
                    out["committed"] = False
                return
            w = ix.writer(timeout=spec["timeout"], delay=spec["delay"])
            out["got_writer"] = True
            w.add_document(key=spec["key"], text=u"t " + spec["key"])
            if spec.get("delete"):
                w.delete_by_term("key", spec["delete"])
            hold("writer-open")
            if spec["end"] == "commit":
                w.commit(merge=False)
                out["committed"] = True
            elif spec["end"] == "commit_merge":
                w.commit()
                out["committed"] = True
            elif spec["end"] == "cancel":
                w.cancel()
                out["committed"] = False
        except LockError:
            out["lockerror"] = True
            out["committed"] = False
    return body


def patch_whoosh(sch, flock_points=False):
    """Module-attribute seams; returns an undo function."""
    import fcntl
    import whoosh.util.filelock as fl
    import whoosh.index as wi
    import whoosh.writing as ww
    import whoosh.filedb.filestore as fs
    vt = S.VirtualTime(sch)
    saved = [(fl, "time", fl.time), (wi, "sleep", wi.sleep), (wi, "time", wi.time),
             (ww, "time", ww.time), (fs, "Lock", fs.Lock)]
    fl.time = vt
    wi.sleep = vt.sleep
    counter = [0]

    def faketime():
        counter[0] += 1
        return 1000000.0 + counter[0]
    wi.time = faketime
    ww.time = vt
    fs.Lock = lambda: S.SchedThreadLock(sch)
    if flock_points:
        # FcntlLock.acquire() is open(lock file) + flock(fd): two system calls
        # another process can come between; make the gap a scheduling point
        real_flock = fcntl.flock
        saved.append((fcntl, "flock", real_flock))

        def flock(fd, mode):
            sch.point(("flock", "LOCK_UN" if mode & fcntl.LOCK_UN else "LOCK_EX"))
            return real_flock(fd, mode)
        fcntl.flock = flock

    def undo():
        for mod, name, val in saved:
            setattr(mod, name, val)
    return undo


def one_run(cfg, prefix, template):
    """Executes one schedule.  Returns (scheduler, outcome dict)."""
    from whoosh.filedb.filestore import RamStorage
    random.seed(cfg.get("seed", 0) * 1000 + 7)
    sch = S.Scheduler(prefix)
    undo = patch_whoosh(sch, cfg.get("flock_points", False))
    work = None
    outcome = {"threads": {}, "problems": []}
    from whoosh import writing as _writing
    saved_start = _writing.AsyncWriter.start
    nasync = [0]

    def async_start(self):
        nasync[0] += 1
        sch.spawn("async%d" % nasync[0], self.run)
    _writing.AsyncWriter.start = async_start
    try:
        lockreg = {}
        mutlog = []
        if cfg["storage"] == "file":
            work = core.fresh_dir("c04")
            d = os.path.join(work, "ix")
            shutil.copytree(template, d)
            st = S.make_sched_storage(sch, d, lockreg, mutlog)
            sch.state_fn = lambda: S.dir_digest(d)
            get_ix = lambda: st.open_index()
        else:
            st = S.make_sched_ram_storage(sch)
            sch.state_fn = lambda: S.ram_digest(st)
            ix0 = st.create_index(schema())
            w = ix0.writer()
            w.add_document(key=u"init", text=u"t init")
            w.commit()
            get_ix = lambda: st.open_index()

        # monitor: mutual exclusion + no index-file mutation without the lock
        def monitor(s, tid, label):
            holders = []
            for lname, hs in lockreg.items():
                if lname.endswith("WRITELOCK"):
                    holders = hs
            if len(holders) > 1:
                s.problems.append("two lock holders: %r" % (holders,))
            if label[0] in ("create_file", "delete_file", "rename_file") and cfg["storage"] == "file":
                name = label[1]
                if name.startswith("MAIN_") or name.startswith("_MAIN_"):
                    if tid not in holders:
                        s.problems.append("thread %r performs %s(%s) without holding the write lock (holders %r)"
                                          % (tid, label[0], _norm(name), holders))
        sch.monitors.append(monitor)
        outs = {}
        # every thread gets its own Index object, opened before the race
        # starts: the property is about Index.writer(), not about open_dir()
        # racing with a commit
        if cfg.get("shared_ix"):
            # ... or all threads use ONE Index object (one process, the usual way)
            one = get_ix()
            ixs = [one for _ in cfg["writers"]]
        else:
            ixs = [get_ix() for _ in cfg["writers"]]
        for i, spec in enumerate(cfg["writers"]):
            outs[i] = {}
            sch.spawn(i, writer_body((lambda j=i: ixs[j]), spec, outs[i], sch))
        ok = sch.run()
        if not ok:
            if sch.deadlock:
                outcome["problems"].append(("deadlock", "no enabled thread; pending %r" % (sch.deadlock,)))
            if sch.horizon:
                outcome["problems"].append(("livelock", "more than %d scheduling points" % sch.MAXPOINTS))
            sch.abandon()
        for p in sch.problems:
            kind = "mutation-without-lock" if "without holding" in p else ("two-holders" if "two lock" in p else "monitor")
            outcome["problems"].append((kind, p))
        for i, spec in enumerate(cfg["writers"]):
            t = sch.threads[i]
            o = outs[i]
            if t.exc is not None:
                outcome["problems"].append(("exc:%s" % type(t.exc).__name__,
                                            "writer %d raised %r\n%s" % (i, t.exc, getattr(t, "tb", "")[-600:])))
            outcome["threads"][i] = dict(o)
            if o.get("second_writer_granted"):
                outcome["problems"].append(("two-writers", "a second writer was granted while the first was open"))
        for tid, t in sch.threads.items():
            if isinstance(tid, str) and t.exc is not None:
                outcome["problems"].append(("exc:%s:%s" % (tid.rstrip("0123456789"), type(t.exc).__name__),
                                            "background thread %s raised %r\n%s" % (tid, t.exc, getattr(t, "tb", "")[-600:])))
        if ok:
          try:
              # end state oracle
              ix = get_ix()
              with ix.searcher() as s:
                  keys = sorted(sf["key"] for sf in s.all_stored_fields())
              expect = set([u"init"])
              ncommit = 0
              # fold successful commits; deletes refer to 'init' only, order irrelevant
              for i, spec in enumerate(cfg["writers"]):
                  if outs[i].get("committed"):
                      ncommit += 1
                      expect.add(spec["key"])
              for i, spec in enumerate(cfg["writers"]):
                  if outs[i].get("committed") and spec.get("delete"):
                      expect.discard(spec["delete"])
              if keys != sorted(expect):
                  outcome["problems"].append(("lost-update", "final documents %r, fold of successful commits %r"
                                              % (keys, sorted(expect))))
              gen = ix.latest_generation()
              base = cfg.get("base_generation", 1)
              if gen != base + ncommit:
                  outcome["problems"].append(("generation", "latest_generation()=%r after %d successful commits on base %d"
                                              % (gen, ncommit, base)))
              for i, spec in enumerate(cfg["writers"]):
                  if outs[i].get("lockerror") and spec["timeout"] == 0 and False:
                      pass
              # afterwards the index must be writable: lock released by every ending
              try:
                  w = ix.writer()
                  w.cancel()
              except Exception as e:
                  outcome["problems"].append(("lock-not-released", "a fresh writer cannot be opened afterwards: %r" % (e,)))
              outcome["keys"] = keys
              outcome["commits"] = ncommit
              outcome["lockerrors"] = sum(1 for i in outs if outs[i].get("lockerror"))
          except Exception as e:
            tb = traceback.extract_tb(e.__traceback__)
            fr = [f for f in tb if "/whoosh/" in f.filename] or list(tb)
            outcome["problems"].append(("end-state-exc:%s" % type(e).__name__,
                                        "after all writers finished, reading the index raised %r at %s:%s"
                                        % (e, fr[-1].filename.split("/")[-1], fr[-1].name)))
    except S.Divergence:
        raise
    except Exception as e:
        outcome["problems"].append(("harness", traceback.format_exc()[-800:]))
    finally:
        _writing.AsyncWriter.start = saved_start
        undo()
        if work:
            shutil.rmtree(work, ignore_errors=True)
    return sch, outcome


def _norm(name):
    import re
    name = re.sub(r"[0-9a-z]{16}", "*", name)
    name = re.sub(r"toc\.[0-9.]+", "toc.tmp", name)
    return re.sub(r"_MAIN_[0-9]+\.toc", "_MAIN_N.toc", name)


def make_template():
    from whoosh.filedb.filestore import FileStorage
    random.seed(424242)
    d = core.fresh_dir("c04tpl")
    st = FileStorage(d)
    ix = st.create_index(schema())
    w = ix.writer()
    w.add_document(key=u"init", text=u"t init")
    w.commit()
    ix.close()
    return d


def explore_cfg(cfg, bound, max_execs, acc):
    template = make_template() if cfg["storage"] == "file" else None
    outcomes = {}
    first = {}
    allstates = set()

    def make_run(prefix):
        return one_run(cfg, prefix, template)

    def on_exec(sch, outcome):
        key = (tuple(sorted(outcome.get("keys", []))), outcome.get("commits"), outcome.get("lockerrors"))
        outcomes[key] = outcomes.get(key, 0) + 1
        acc.count("traces_validated_against_impl")
        acc.count("evaluations")
        acc.count("transitions", len(sch.decisions))
        new = sch.states - allstates
        allstates.update(new)
        acc.count("states", len(new))
        if any(c for c in sch.choices):
            acc.count("distinct_nontrivial")
        for kind, text in outcome["problems"]:
            if kind == "harness":
                raise core.HarnessError(text)
            sig = "%s|%s|%s" % (cfg["name"], kind, _sigdetail(kind, text))
            if sig not in first:
                first[sig] = True
            acc.violation(sig, {"cfg": cfg, "choices": list(sch.choices)},
                          "%s; schedule=%r" % (text[:500], [(t, _lab(l)) for t, l in sch.trace][:60]))
        return False

    # determinism gate: default schedule twice must give identical traces
    s1, o1 = one_run(cfg, [], template)
    s2, o2 = one_run(cfg, [], template)
    if [(_t, _lab(l)) for _t, l in s1.trace] != [(_t, _lab(l)) for _t, l in s2.trace]:
        raise core.HarnessError("non-deterministic replay of the default schedule for %s" % cfg["name"])
    # iterative preemption bounding: complete bound 0, then 1, ... up to the
    # target; the largest bound whose exploration finished under the cap is
    # what this configuration is covered to
    completed = -1
    stats = None
    for b in range(0, bound + 1):
        st_b = S.explore(make_run, b, max_execs, on_exec)
        stats = st_b
        if st_b["capped"]:
            break
        completed = b
    if completed < bound:
        acc.count("configs_below_target_bound")
    if completed < 1:
        acc.count("capped_configs")
    acc.count("configs")
    acc.count("bound%d_completed" % max(completed, 0))
    acc.sample({"config": cfg["name"], "preemption_bound_completed": completed, "target_bound": bound,
                "executions_at_last_bound": stats["executions"],
                "distinct_outcomes": [[list(k[0]), k[1], k[2], n] for k, n in sorted(outcomes.items(), key=repr)][:8],
                "default_schedule": [(t, _lab(l)) for t, l in s1.trace][:40]})
    acc.count("distinct_outcomes", len(outcomes))
    if template:
        shutil.rmtree(template, ignore_errors=True)
    return stats


def _lab(l):
    return tuple(_norm(x) if isinstance(x, str) else x for x in l)


def _sigdetail(kind, text):
    if kind == "mutation-without-lock":
        import re
        m = re.search(r"performs (\w+)\(([^)]*)\)", text)
        return "%s:%s" % (m.group(1), m.group(2)) if m else ""
    if kind.startswith("exc:"):
        import re
        m = re.findall(r'File "[^"]*/whoosh/([^"]+)", line \d+, in (\w+)', text)
        return "%s:%s" % m[-1] if m else ""
    return ""


def W(key, end, timeout=0.0, delay=0.1, delete=None, hold=False):
    return {"key": key, "end": end, "timeout": timeout, "delay": delay, "delete": delete, "hold": hold}


def configs(tier):
    out = []
    ends = ["commit", "cancel", "raise", "with_ok"]
    # two writers, every pair of endings, no waiting / waiting
    for storage in ("file", "ram"):
        for e1 in ends:
            for e2 in ends:
                out.append({"name": "%s:2w:%s/%s:t0" % (storage, e1, e2), "storage": storage,
                            "writers": [W(u"a", e1), W(u"b", e2)]})
        for e1 in ("commit", "cancel", "raise"):
            out.append({"name": "%s:2w:%s/commit:wait" % (storage, e1), "storage": storage,
                        "writers": [W(u"a", e1), W(u"b", "commit", timeout=0.25, delay=0.1)]})
        out.append({"name": "%s:2w:commit+del/commit+del" % storage, "storage": storage,
                    "writers": [W(u"a", "commit", timeout=0.3, delete=u"init"), W(u"b", "commit", timeout=0.3, delete=u"init")]})
        out.append({"name": "%s:2w:merge/merge:wait" % storage, "storage": storage,
                    "writers": [W(u"a", "commit_merge", timeout=0.3), W(u"b", "commit_merge", timeout=0.3)]})
    for storage in ("file", "ram"):
        out.append({"name": "%s:1w:double:t0" % storage, "storage": storage, "writers": [W(u"a", "double")]})
        out.append({"name": "%s:2w:double/commit:wait" % storage, "storage": storage,
                    "writers": [W(u"a", "double", timeout=0.2), W(u"b", "commit", timeout=0.2)]})
    # AsyncWriter front-end against a plain writer that keeps its transaction
    # open for a while (it yields, so the AsyncWriter is created meanwhile)
    for storage in ("file", "ram"):
        for e1 in ("commit", "cancel"):
            out.append({"name": "%s:2w:%s-hold/async" % (storage, e1), "storage": storage,
                        "writers": [W(u"a", e1, hold=True), W(u"b", "async", delay=0.05, hold=True)]})
        out.append({"name": "%s:2w:async/async+del" % storage, "storage": storage,
                    "writers": [W(u"a", "async", delay=0.05, hold=True), W(u"b", "async", delay=0.05, delete=u"init", hold=True)]})
    # all writer threads share ONE Index object
    for storage in ("file", "ram"):
        for e1, e2 in (("commit", "commit"), ("cancel", "commit"), ("raise", "with_ok"), ("commit", "cancel")):
            out.append({"name": "%s:2w:shared-index:%s-hold/%s" % (storage, e1, e2), "storage": storage, "shared_ix": True,
                        "writers": [W(u"a", e1, hold=True), W(u"b", e2)]})
        out.append({"name": "%s:2w:shared-index:commit-hold/commit:wait" % storage, "storage": storage, "shared_ix": True,
                    "writers": [W(u"a", "commit", hold=True), W(u"b", "commit", timeout=0.25, delay=0.1)]})
    # the lock file protocol itself: open(2) and flock(2) are separate steps
    out.append({"name": "file:3w:commit/commit/commit:hold:flock-steps", "storage": "file", "flock_points": True,
                "writers": [W(u"a", "commit", hold=True), W(u"b", "commit", hold=True), W(u"c", "commit", hold=True)]})
    out.append({"name": "file:3w:cancel/commit/commit:hold:wait:flock-steps", "storage": "file", "flock_points": True,
                "writers": [W(u"a", "cancel", hold=True), W(u"b", "commit", hold=True, timeout=0.15),
                            W(u"c", "commit", hold=True)]})
    # three writers
    for storage in ("file", "ram"):
        out.append({"name": "%s:3w:commit/commit/commit:t0" % storage, "storage": storage,
                    "writers": [W(u"a", "commit"), W(u"b", "commit"), W(u"c", "commit")]})
        out.append({"name": "%s:3w:commit/cancel/raise:wait" % storage, "storage": storage,
                    "writers": [W(u"a", "commit", timeout=0.2), W(u"b", "cancel", timeout=0.2), W(u"c", "raise", timeout=0.2)]})
    return out


# ---------------------------------------------------------------------------
# Part P: the lock across PROCESSES (real flock, real fork)

def _contender(path, q):
    """Runs in a child process: one attempt to open a writer, commit a
    document if it got one."""
    try:
        core.setup_process(0)
        # (segment names come from `random`: the child must not repeat the
        # parent's sequence, or it re-creates an existing segment's name)
        random.seed("c04-contender-%d" % os.getpid())
        from whoosh import index as windex
        from whoosh.index import LockError
        ix = windex.open_dir(path)
        try:
            w = ix.writer(timeout=0.0)
        except LockError:
            q.put("LockError")
            return
        w.add_document(key=u"child", text=u"child")
        w.commit(merge=False)
        q.put("committed:%d" % ix.latest_generation())
    except BaseException as e:
        q.put("exc:%r %s" % (e, traceback.format_exc()[-700:]))


def _helper_sleep():
    import time
    time.sleep(120)


def proc_case(case):
    """One writer (plain / multi-process front-end) in this process with
    every ending, optionally a helper process forked while the transaction is
    open that outlives it; a second PROCESS tries to write while the
    transaction is open (must get LockError) and again after it ended (must
    get the lock and commit).  Returns [(kind, text)]."""
    import multiprocessing
    from whoosh import index as windex
    from whoosh.index import LockError
    mp = multiprocessing.get_context("fork")
    d = core.fresh_dir("c04p")
    problems = []
    kids = []
    w = None
    try:
        ix = windex.create_in(d, schema())
        w0 = ix.writer()
        w0.add_document(key=u"init", text=u"init")
        w0.commit()
        gen0 = ix.latest_generation()
        fe = case["frontend"]
        kw = {}
        if fe.startswith("mp"):
            kw = {"procs": 2, "batchsize": 1}
            if fe == "mp2multi":
                kw["multisegment"] = True

        def attempt():
            q = mp.Queue()
            p = mp.Process(target=_contender, args=(d, q))
            p.start()
            try:
                r = q.get(timeout=60)
            except Exception:
                r = "no-answer"
            p.join(30)
            if p.is_alive():
                p.terminate()
            return r

        end = case["end"]
        during = None
        try:
            if end in ("raise", "with_ok"):
                try:
                    with ix.writer(**kw) as w:
                        w.add_document(key=u"a", text=u"a")
                        w.add_document(key=u"b", text=u"b")
                        if case["helper"]:
                            h = mp.Process(target=_helper_sleep)
                            h.start()
                            kids.append(h)
                        during = attempt()
                        if end == "raise":
                            raise Boom()
                except Boom:
                    pass
            else:
                w = ix.writer(**kw)
                w.add_document(key=u"a", text=u"a")
                w.add_document(key=u"b", text=u"b")
                if case["helper"]:
                    h = mp.Process(target=_helper_sleep)
                    h.start()
                    kids.append(h)
                during = attempt()
                if end == "commit":
                    w.commit(merge=False)
                else:
                    w.cancel()
        except Exception as e:
            problems.append(("proc-exc:%s" % type(e).__name__, "writer (%s, %s) raised %r\n%s" % (fe, end, e, traceback.format_exc()[-600:])))
            return problems
        if during != "LockError":
            problems.append(("second-process-not-excluded", "a second process asking for a writer while the %s writer's transaction was open got %r instead of LockError" % (fe, during)))
        committed = end in ("commit", "with_ok")
        after = attempt()
        want_gen = gen0 + (1 if committed else 0) + 1
        if after == "LockError":
            problems.append(("lock-not-released", "after %s of the %s writer%s a second process still gets LockError" % (
                end, fe, " (a helper process forked during the transaction is still alive)" if case["helper"] else "")))
        elif after != "committed:%d" % want_gen:
            problems.append(("generation", "second process after %s: %r, expected committed:%d" % (end, after, want_gen)))
        else:
            with windex.open_dir(d).searcher() as s:
                keys = sorted(f["key"] for f in s.all_stored_fields())
            want = sorted([u"init", u"child"] + ([u"a", u"b"] if committed else []))
            if keys != want:
                problems.append(("lost-update", "documents after both writers: %r, expected %r" % (keys, want)))
        return problems
    finally:
        # sub-writer processes of a cancelled multi-process writer are not
        # stopped by the library; do not leave them (or the helper) behind
        for t in list(getattr(w, "tasks", None) or []) + kids:
            try:
                if t.is_alive():
                    t.terminate()
                t.join(5)
            except Exception:
                pass
        import multiprocessing as _m
        for c in _m.active_children():
            try:
                c.terminate()
                c.join(5)
            except Exception:
                pass
        shutil.rmtree(d, ignore_errors=True)


def proc_cases():
    for fe in ("plain", "mp2", "mp2multi"):
        for end in ("commit", "cancel", "raise", "with_ok"):
            for helper in (False, True):
                yield {"part": "proc", "frontend": fe, "end": end, "helper": helper}


def proc_task(t):
    acc = core.Acc()
    for case in t[1]:
        acc.count("evaluations")
        acc.count("process_cases")
        acc.count("traces_validated_against_impl")
        acc.count("distinct_nontrivial")
        for kind, text in proc_case(case):
            acc.violation("processes:%s:%s%s|%s" % (case["frontend"], case["end"], ":helper" if case["helper"] else "", kind),
                          case, text)
    return acc.result()


def task(t):
    if t[0] == "proc":
        return proc_task(t)
    cfg, bound, max_execs, seed = t
    cfg = dict(cfg, seed=seed)
    acc = core.Acc()
    explore_cfg(cfg, bound, max_execs, acc)
    return acc.result()


def run(ctx):
    tasks = []
    for cfg in configs(ctx.tier):
        three = len(cfg["writers"]) == 3
        if ctx.tier == "quick":
            bound = 1 if three else 2
            cap = 5000
        else:
            bound = 2 if three else 3
            cap = 60000
        tasks.append((cfg, bound, cap, ctx.seed))
    ctx.extra["configs"] = len(tasks)
    pc = list(proc_cases())
    for i in range(0, len(pc), 3):
        tasks.append(("proc", pc[i:i + 3]))
    ctx.rule = ("for each configuration (2-3 writer threads x endings {commit, cancel, exception in with-block, "
                "with-block ok, AsyncWriter (direct or buffering + its replay thread) against a writer that keeps its transaction open} x {one Index object per thread, one shared Index object} x {no timeout, polling timeout} x {FileStorage+flock, RamStorage}): every schedule "
                "with at most B preemptions (B=2 for two writers, 1 for three; thorough 3/2) at storage-call, "
                "lock and polling-sleep granularity is executed on the real code; states = distinct (per-thread "
                "progress, directory image signature) pairs seen at scheduling decisions, summed over "
                "configurations; transitions = scheduling steps executed; an execution counts as "
                "non-trivial when it deviates from the default non-preemptive schedule.  Part P (processes): "
                "{plain, MpWriter 2 procs merged / multisegment} x {commit, cancel, exception in with-block, "
                "with-block ok} x {no helper, a helper process forked while the transaction is open and "
                "outliving it}: a second PROCESS asks for a writer during (must get LockError) and after the "
                "transaction (must get the lock, commit, and find exactly the committed documents)")
    ctx.assumptions = ["threads share the index only through the storage layer and the lock objects (scheduling "
                       "points there are sufficient); time is virtual: polling sleeps advance a virtual clock",
                       "flock between two file descriptors of one process excludes like between processes",
                       "LockError is legitimate whenever the lock was held at every attempt of the polling loop"]
    ctx.pmap(task, tasks)
    if ctx.counters.get("capped_configs"):
        ctx.cap("%d configurations hit the execution cap before completing preemption bound 1" % ctx.counters["capped_configs"])
    ctx.extra["note_bounds"] = ("every configuration is explored completely for preemption bounds 0..k where k is the "
                                "largest bound finishing under the execution cap; counters bound<k>_completed say how "
                                "many configurations reached which k; configs_below_target_bound did not reach the "
                                "tier's target bound")


def replay(case):
    if case.get("part") == "proc":
        core.setup_process(0)
        pr = proc_case(case)
        return {"ok": not pr, "what": pr}
    core.setup_process(case["cfg"].get("seed", 0))
    cfg = case["cfg"]
    template = make_template() if cfg["storage"] == "file" else None
    sch, outcome = one_run(cfg, case["choices"], template)
    return {"ok": not outcome["problems"], "what": outcome["problems"],
            "trace": [(t, _lab(l)) for t, l in sch.trace]}
