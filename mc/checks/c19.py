"""C19 - fuzzy matching and spelling suggestions are exact with respect to the
documented edit distance.

E1, bounded-exhaustive: lexicons (every subset of the 6 words of length <=2
over a two-letter alphabet; the full lexicon of all words of length <=4 over
three letters; full and subset lexicons over a two-letter multi-byte alphabet)
x every query word of length <=5 over the alphabet (incl. the empty word) x
maxdist 0..3 x prefix 0..4 (incl. prefix > len(word)) x segment layouts
(1 segment = DFA walk over the term cursor; 2-3 segments = MultiReader =
brute-force filter of expand_prefix by distance()).

Observed on the real code per case: reader.terms_within, search(FuzzyTerm),
Searcher.suggest for several limits, Searcher.correct_query.

Oracle: independent edit distances (mc.qast.damerau = restricted
Damerau-Levenshtein/OSA, mc.qast.levenshtein, and an unrestricted
Damerau-Levenshtein written here).  The docs name the distance
"Damerau-Levenshtein" (insert, delete, substitute, transpose adjacent) without
saying which of the two usual variants, so the check demands
    {t : OSA(word,t)<=d}  <=  result  <=  {t : DL(word,t)<=d}
(OSA >= DL always) among the terms sharing the prefix; where the reference
leaves a band (OSA != DL, or prefix longer than the word) the layouts must
still agree with each other.  A discrepancy is classified "levenshtein-only"
(= transpositions are not counted as one edit) when the result equals the
plain-Levenshtein set although the Damerau reference disagrees."""
import itertools
import traceback

from mc import core, corpus, qast

PID = "C19"
LEVEL = "exploration"
FIELD = "w"
D = 6                     # documents per index
MAXLEN_Q = 5              # query words up to this length
DS = (0, 1, 2, 3)
PS = (0, 1, 2, 3, 4)
LIMITS = (1, 3, 5)


# --------------------------------------------------------------------------
# reference distances

def dl_true(a, b):
    """Unrestricted Damerau-Levenshtein (Lowrance-Wagner)."""
    la, lb = len(a), len(b)
    inf = la + lb
    d = [[inf] * (lb + 2) for _ in range(la + 2)]
    for i in range(la + 1):
        d[i + 1][1] = i
    for j in range(lb + 1):
        d[1][j + 1] = j
    da = {}
    for i in range(1, la + 1):
        db = 0
        for j in range(1, lb + 1):
            k = da.get(b[j - 1], 0)
            l = db
            if a[i - 1] == b[j - 1]:
                cost = 0
                db = j
            else:
                cost = 1
            d[i + 1][j + 1] = min(d[i][j] + cost, d[i + 1][j] + 1, d[i][j + 1] + 1,
                                  d[k][l] + (i - k - 1) + 1 + (j - l - 1))
        da[a[i - 1]] = i
    return d[la + 1][lb + 1]


def distances(word, lexicon):
    """{t: (levenshtein, osa, dl)}"""
    out = {}
    for t in lexicon:
        lv = qast.levenshtein(word, t)
        osa = qast.damerau(word, t)
        dl = dl_true(word, t)
        if not (dl <= osa <= lv):
            raise core.HarnessError("reference distances inconsistent for %r/%r: dl=%d osa=%d lev=%d"
                                    % (word, t, dl, osa, lv))
        out[t] = (lv, osa, dl)
    return out


class Ref(object):
    """Reference sets for one (lexicon, word, d, p)."""

    def __init__(self, lexicon, word, d, p, dist):
        self.word, self.d, self.p = word, d, p
        pre = word[:p]
        if p <= len(word):
            strict = [t for t in lexicon if t[:p] == pre]
            loose = strict
        else:
            # "share a prefix of length p" with a word shorter than p is not
            # defined by the docs: the strict reading leaves only the word
            # itself, the reading implemented by the brute-force path is
            # "starts with the whole word".  Both are accepted.
            strict = [t for t in lexicon if t == word]
            loose = [t for t in lexicon if t.startswith(word)]
        self.required = set(t for t in strict if dist[t][1] <= d)
        self.allowed = set(t for t in loose if dist[t][2] <= d)
        self.lev_strict = set(t for t in strict if dist[t][0] <= d)
        self.lev_loose = set(t for t in loose if dist[t][0] <= d)
        self.band = self.allowed != self.required
        self.transposition_relevant = self.lev_strict != self.required
        self.dist = dist


# --------------------------------------------------------------------------
# corpus

def all_words(alpha, maxlen, minlen=0):
    out = []
    for n in range(minlen, maxlen + 1):
        for tup in itertools.product(alpha, repeat=n):
            out.append("".join(tup))
    return out


def universe_index(alpha):
    return dict((w, j) for j, w in enumerate(all_words(alpha, MAXLEN_Q, 1)))


def mask_of(j, seed):
    return ((j * 37 + 11 + 5 * seed) % 63) + 1


def make_docs(alpha, lexicon, seed):
    """Model documents: word number j of the alphabet's universe occurs once in
    each document of mask_of(j), so frequency == document frequency ==
    popcount(mask) (1..6) and a word's documents do not depend on which other
    words are in the lexicon."""
    uni = universe_index(alpha)
    docs = [{"key": "k%d" % i, "live": True, FIELD: []} for i in range(D)]
    for t in sorted(lexicon):
        m = mask_of(uni[t], seed)
        for i in range(D):
            if m >> i & 1:
                docs[i][FIELD].append(t)
    return docs


def model_freq(docs):
    f = {}
    for d in docs:
        for t in d[FIELD]:
            f[t] = f.get(t, 0) + 1
    return f


def schema():
    from whoosh import fields
    # v and x sort immediately before / after the field under test and hold
    # every short word, so a cursor that runs out of its field is noticed
    return fields.Schema(key=fields.ID(stored=True, unique=True),
                         v=fields.KEYWORD, w=fields.KEYWORD(scorable=True),
                         x=fields.KEYWORD)


def _to_doc_factory(alpha):
    neigh = " ".join(all_words(alpha, 2, 1))

    def to_doc(d, i):
        out = {"key": d["key"], "v": neigh, "x": neigh}
        if d[FIELD]:
            out[FIELD] = " ".join(d[FIELD])
        return out
    return to_doc


def build(alpha, docs, layout):
    ix, _ = corpus.build_index(docs, layout, schema=schema(), to_doc=_to_doc_factory(alpha))
    return ix


def path_of(reader):
    n = type(reader).__name__
    if n == "SegmentReader":
        return "automaton-path"
    if n == "MultiReader":
        return "bruteforce-path"
    return n


# --------------------------------------------------------------------------
# observations + judges.  A finding is (sig, what, culprit_terms)

def exc_sig(e, word, p):
    tb = traceback.extract_tb(e.__traceback__)
    fr = [f for f in tb if "/whoosh/" in f.filename] or list(tb)
    where = "%s:%s" % (fr[-1].filename.split("/")[-1], fr[-1].name)
    cond = "prefix>len(word)" if p > len(word) else "prefix<=len(word)"
    return ("exc:%s@%s|%s" % (type(e).__name__, where, cond),
            "raised %r at %s" % (e, where))


def small(terms):
    return sorted(terms, key=lambda t: (len(t), t))


def classify(got, ref):
    """Root-cause class of a set discrepancy against the reference."""
    if got == ref.lev_strict or got == ref.lev_loose:
        return "levenshtein-only(transposition-not-one-edit)"
    missing = ref.required - got
    extra = got - ref.allowed
    if ref.p > len(ref.word):
        return "prefix>len(word)"
    kinds = []
    if missing:
        kinds.append("missing")
    if extra:
        kinds.append("extra")
    return "+".join(kinds)


def obs_terms_within(reader, word, d, p):
    try:
        return list(reader.terms_within(FIELD, word, d, prefix=p)), None
    except Exception as e:
        return None, e


def judge_terms_within(got, exc, ref, path, lexset):
    word, d, p = ref.word, ref.d, ref.p
    if exc is not None:
        sig, what = exc_sig(exc, word, p)
        return [(sig, "terms_within(%r, maxdist=%d, prefix=%d) [%s] %s" % (word, d, p, path, what),
                 small(ref.required)[:1])]
    out = []
    gs = set(got)
    if not all(isinstance(t, str) for t in got):
        return [("terms_within|non-text-result", "terms_within yielded %r" % (got,), [])]
    nolex = gs - lexset
    if nolex:
        out.append(("terms_within|%s|not-a-term-of-the-field" % path,
                    "terms_within(%r, %d, prefix=%d) yielded %r which are not terms of the field"
                    % (word, d, p, small(nolex)), []))
        gs = gs & lexset
    missing = ref.required - gs
    extra = gs - ref.allowed
    if missing or extra:
        cls = classify(gs, ref)
        out.append(("terms_within|%s|%s" % (path, cls),
                    "terms_within(%r, maxdist=%d, prefix=%d) [%s] = %r; reference (Damerau-Levenshtein, "
                    "shared prefix) requires %r; missing %r, extra %r"
                    % (word, d, p, path, small(gs), small(ref.required), small(missing), small(extra)),
                    small(missing)[:1] or small(extra)[:1]))
    return out


def overlap_case(r, w1, d1, w2, d2, path):
    """terms_within twice on one reader with overlapping lifetimes."""
    try:
        imm1 = sorted(r.terms_within(FIELD, w1, d1))
        imm2 = sorted(r.terms_within(FIELD, w2, d2))
    except Exception:
        return "trivial"       # the immediate call itself is judged elsewhere
    if not imm1 or not imm2:
        return "trivial"
    try:
        # both created first, then consumed one after the other
        g1 = r.terms_within(FIELD, w1, d1)
        g2 = r.terms_within(FIELD, w2, d2)
        a1 = sorted(g1)
        a2 = sorted(g2)
        if (a1, a2) != (imm1, imm2):
            return ("terms_within|%s|overlapping-iterators|created-then-consumed" % path,
                    "terms_within(%r, %d) and terms_within(%r, %d) created together and then consumed give %r / %r; "
                    "each consumed at once gives %r / %r" % (w1, d1, w2, d2, small(a1), small(a2), small(imm1), small(imm2)))
        # consumed alternately
        g1 = iter(r.terms_within(FIELD, w1, d1))
        g2 = iter(r.terms_within(FIELD, w2, d2))
        b1, b2 = [], []
        live = [(g1, b1), (g2, b2)]
        while live:
            for item in list(live):
                try:
                    item[1].append(next(item[0]))
                except StopIteration:
                    live.remove(item)
        if (sorted(b1), sorted(b2)) != (imm1, imm2):
            return ("terms_within|%s|overlapping-iterators|alternating" % path,
                    "terms_within(%r, %d) and terms_within(%r, %d) consumed alternately give %r / %r; "
                    "each consumed at once gives %r / %r" % (w1, d1, w2, d2, small(sorted(b1)), small(sorted(b2)), small(imm1), small(imm2)))
    except Exception as e:
        return ("terms_within|%s|overlapping-iterators|exc:%s" % (path, type(e).__name__),
                "two overlapping terms_within expansions raised %r" % (e,))
    return None


def obs_fuzzy(searcher, word, d, p):
    from whoosh import query as Q
    try:
        q = Q.FuzzyTerm(FIELD, word, maxdist=d, prefixlength=p)
        r = searcher.search(q, limit=None)
        return sorted(hit["key"] for hit in r), None
    except Exception as e:
        return None, e


def docs_with(docs, terms):
    return set(dd["key"] for dd in docs if any(t in terms for t in dd[FIELD]))


def judge_fuzzy(got, exc, ref, docs):
    word, d, p = ref.word, ref.d, ref.p
    if exc is not None:
        sig, what = exc_sig(exc, word, p)
        return [(sig, "search(FuzzyTerm(%r, maxdist=%d, prefixlength=%d)) %s" % (word, d, p, what),
                 small(ref.required)[:1])]
    gs = set(got)
    if len(gs) != len(got):
        return [("fuzzyterm|duplicate-hit", "FuzzyTerm(%r,%d,%d) hits %r" % (word, d, p, got), [])]
    req = docs_with(docs, ref.required)
    alw = docs_with(docs, ref.allowed)
    missing = req - gs
    extra = gs - alw
    if not (missing or extra):
        return []
    if gs == docs_with(docs, ref.lev_strict) or gs == docs_with(docs, ref.lev_loose):
        cls = "levenshtein-only(transposition-not-one-edit)"
    elif p > len(word):
        cls = "prefix>len(word)"
    else:
        cls = "+".join(k for k, v in (("missing-doc", missing), ("extra-doc", extra)) if v)
    culprit = []
    if missing:
        k = sorted(missing)[0]
        dd = [x for x in docs if x["key"] == k][0]
        cand = [t for t in dd[FIELD] if t in ref.required]
        # prefer a term that plain Levenshtein would not select
        cand.sort(key=lambda t: (t in ref.lev_strict, len(t), t))
        culprit = cand[:1]
    else:
        k = sorted(extra)[0]
        dd = [x for x in docs if x["key"] == k][0]
        culprit = small(dd[FIELD])[:3]
    return [("fuzzyterm|%s" % cls,
             "search(FuzzyTerm(%r, maxdist=%d, prefixlength=%d)) = %r; docs containing a term within the "
             "distance and prefix: %r; missing %r, extra %r"
             % (word, d, p, sorted(gs), sorted(req), sorted(missing), sorted(extra)), culprit)]


def obs_suggest(searcher, word, d, p, limit):
    try:
        return list(searcher.suggest(FIELD, word, limit=limit, maxdist=d, prefix=p)), None
    except Exception as e:
        return None, e


def _consistent(got, omitted, key, full):
    ks = [key(t) for t in got]
    for a, b in zip(ks, ks[1:]):
        if a > b:
            return False, (got[ks.index(a)], got[ks.index(a) + 1])
    if full and got and omitted:
        last = ks[-1]
        for c in omitted:
            if key(c) < last:
                return False, (c, got[-1])
    return True, None


def effective_distances(hist):
    """hist: terms_within results of the same reader for maxdist 0, 1, .. d
    (same word and prefix).  {term: smallest maxdist at which the reader
    itself reports the term}; None if any of them raised."""
    eff = {}
    for dd, tw in enumerate(hist):
        if tw is None:
            return None
        for t in tw:
            eff.setdefault(t, dd)
    return eff


def judge_suggest(got, exc, ref, base, freq, lexset, limit, eff=None):
    """base: what terms_within returned on the same reader (None if it raised;
    then the root cause is reported there).  eff: the reader's own notion of
    each candidate's distance (effective_distances)."""
    word, d, p = ref.word, ref.d, ref.p
    call = "suggest(%r, limit=%d, maxdist=%d, prefix=%d)" % (word, limit, d, p)
    if exc is not None:
        sig, what = exc_sig(exc, word, p)
        return [(sig, "%s %s" % (call, what), small(ref.required)[:1])]
    out = []
    if len(set(got)) != len(got):
        return [("suggest|duplicate", "%s = %r" % (call, got), [])]
    nolex = [t for t in got if t not in lexset]
    if nolex:
        return [("suggest|not-a-term-of-the-field", "%s = %r; %r not in the field" % (call, got, nolex), [])]
    if len(got) > limit:
        out.append(("suggest|over-limit", "%s returned %d words: %r" % (call, len(got), got), got))
    eff_limit = limit
    if word in got:
        out.append(("suggest|returns-queried-word",
                    "%s = %r contains the queried word itself (documented: 'This word will not be added to "
                    "the suggestions, even if it appears in the word graph')" % (call, got), [word]))
        got = [t for t in got if t != word]
        eff_limit = limit - 1
    far = [t for t in got if t not in ref.allowed]
    if far:
        out.append(("suggest|beyond-distance-or-prefix",
                    "%s = %r; %r are not within the distance / do not share the prefix" % (call, got, far),
                    far[:1]))
        return out
    if base is None:
        return out
    cands = set(base) & lexset
    cands.discard(word)
    if not set(got) <= cands:
        out.append(("suggest|not-in-terms_within",
                    "%s = %r but terms_within on the same reader gives %r" % (call, got, small(cands)),
                    small(set(got) - cands)[:1]))
        return out
    if len(got) < min(eff_limit, len(cands)):
        out.append(("suggest|too-few",
                    "%s = %r although %d terms %r are within the distance" % (call, got, len(cands), small(cands)),
                    small(cands)[:limit + 1]))
        return out
    omitted = cands - set(got)
    full = len(got) >= eff_limit
    dist = ref.dist
    k_osa = lambda t: (dist[t][1], -freq[t])
    k_dl = lambda t: (dist[t][2], -freq[t])
    ok1, w1 = _consistent(got, omitted, k_osa, full)
    ok2, w2 = _consistent(got, omitted, k_dl, full)
    if ok1 or ok2:
        return out
    if eff is not None and all(t in eff for t in cands):
        # ranked by the distance at which terms_within of the same reader
        # starts to report the term: a wrong distance there is reported by the
        # terms_within check (its root cause), not a second time here
        ok3, _ = _consistent(got, omitted, lambda t: (eff[t], -freq[t]), full)
        if ok3:
            return out
    okf, _ = _consistent(got, omitted, lambda t: -freq[t], full)
    better, worse = w1
    desc = [(t, dist[t][1], freq[t]) for t in got]
    if okf:
        sig = "suggest|ranked-by-frequency-only(distance-ignored)"
    else:
        sig = "suggest|misordered"
    out.append((sig,
                "%s = %r as (word, distance, frequency) = %r; documented order is distance, then descending "
                "frequency: %r (distance %d, freq %d) must rank before %r (distance %d, freq %d); candidates %r"
                % (call, got, desc, better, dist[better][1], freq[better], worse, dist[worse][1], freq[worse],
                   [(t, dist[t][1], freq[t]) for t in small(cands)][:12]),
                [better, worse]))
    return out


def obs_correct(searcher, word, d, p, present):
    from whoosh import query as Q
    try:
        if present is None:
            q = Q.Term(FIELD, word)
        else:
            q = Q.And([Q.Term(FIELD, present), Q.Term(FIELD, word)])
        c = searcher.correct_query(q, word, maxdist=d, prefix=p)
        terms = sorted(t for f, t in c.query.iter_all_terms() if f == FIELD)
        toks = [(getattr(t, "original", None), t.text) for t in c.tokens]
        return (terms, toks, c.query == q), None
    except Exception as e:
        return None, e


def judge_correct(got, exc, ref, base, lexset, present):
    word, d, p = ref.word, ref.d, ref.p
    call = "correct_query(%s, maxdist=%d, prefix=%d)" % (
        "Term(%r)" % word if present is None else "And(Term(%r), Term(%r))" % (present, word), d, p)
    if exc is not None:
        sig, what = exc_sig(exc, word, p)
        return [(sig, "%s %s" % (call, what), small(ref.required)[:1])]
    terms, toks, same = got
    orig = sorted(set([word] if present is None else [present, word]))
    if present is not None and present not in terms:
        return [("correct_query|present-word-changed",
                 "%s: word %r is in the index but the corrected query has terms %r" % (call, present, terms),
                 [present])]
    if word in lexset:
        if not same or toks or sorted(set(terms)) != orig:
            return [("correct_query|present-word-changed",
                     "%s: word %r is in the index but the corrected query has terms %r, tokens %r"
                     % (call, word, terms, toks), [word])]
        return []
    # absent word
    new = [t for t in terms if t != present]
    if same or new == [word]:
        if base is not None:
            cands = (set(base) & lexset) - set([word])
            if cands:
                return [("correct_query|absent-word-not-corrected",
                         "%s left %r although %r are within the distance" % (call, word, small(cands)),
                         small(cands)[:1])]
        return []
    if len(new) != 1 and not (present is not None and new == []):
        return [("correct_query|malformed", "%s -> terms %r tokens %r" % (call, terms, toks), [])]
    sug = new[0] if new else present
    if sug not in lexset:
        return [("correct_query|not-a-term-of-the-field", "%s replaced %r by %r" % (call, word, sug), [])]
    if sug not in ref.allowed:
        return [("correct_query|beyond-distance-or-prefix",
                 "%s replaced %r by %r (distance %d)" % (call, word, sug, ref.dist[sug][1]), [sug])]
    return []


# --------------------------------------------------------------------------
# running one case on fresh indexes (used by shrinking and replay)

def run_case(case):
    """Findings [(sig, what, culprits)] of one recorded case."""
    alpha = case["alpha"]
    lexicon = case["lexicon"]
    seed = case.get("seed", 0)
    word, d, p = case["word"], case["d"], case["p"]
    docs = make_docs(alpha, lexicon, seed)
    freq = model_freq(docs)
    lexset = set(lexicon)
    ref = Ref(lexicon, word, d, p, distances(word, lexicon))
    api = case["api"]
    if api == "layouts":
        res = []
        for lay in case["layouts"]:
            ix = build(alpha, docs, lay)
            try:
                with ix.searcher() as s:
                    tw, e1 = obs_terms_within(s.reader(), word, d, p)
                    fz, e2 = obs_fuzzy(s, word, d, p)
                    res.append((lay, tw, e1, fz, e2))
            finally:
                corpus.destroy_index(ix)
        return judge_layouts(res, ref)
    ix = build(alpha, docs, case["layout"])
    try:
        with ix.searcher() as s:
            r = s.reader()
            if api == "terms_within":
                got, exc = obs_terms_within(r, word, d, p)
                return judge_terms_within(got, exc, ref, path_of(r), lexset)
            if api == "fuzzy":
                got, exc = obs_fuzzy(s, word, d, p)
                return judge_fuzzy(got, exc, ref, docs)
            if api == "overlap":
                f6 = overlap_case(r, word, d, case["word2"], case["d2"], path_of(r))
                return [] if f6 in (None, "trivial") else [(f6[0], f6[1], [])]
            base, _ = obs_terms_within(r, word, d, p)
            if api == "suggest":
                got, exc = obs_suggest(s, word, d, p, case["limit"])
                hist = [obs_terms_within(r, word, dd, p)[0] for dd in range(d + 1)]
                return judge_suggest(got, exc, ref, base, freq, lexset, case["limit"],
                                     effective_distances(hist))
            if api == "correct":
                got, exc = obs_correct(s, word, d, p, case.get("present"))
                return judge_correct(got, exc, ref, base, lexset, case.get("present"))
    finally:
        corpus.destroy_index(ix)
    raise core.HarnessError("unknown api %r" % (api,))


def judge_layouts(res, ref):
    """res: [(layout, tw, exc, fz, exc)] for layouts that each passed the
    reference check on their own; they must also agree with each other."""
    out = []
    word, d, p = ref.word, ref.d, ref.p
    tws = [(lay, set(tw)) for lay, tw, e1, fz, e2 in res if e1 is None and tw is not None]
    for (l1, a), (l2, b) in zip(tws, tws[1:]):
        if a != b:
            cls = "osa-vs-unrestricted-damerau" if p <= len(word) else "prefix>len(word)"
            out.append(("layouts-disagree|terms_within|%s" % cls,
                        "terms_within(%r, %d, prefix=%d): layout %r gives %r, layout %r gives %r"
                        % (word, d, p, l1["segs"], small(a), l2["segs"], small(b)), small(a ^ b)[:1]))
            break
    fzs = [(lay, fz) for lay, tw, e1, fz, e2 in res if e2 is None and fz is not None]
    for (l1, a), (l2, b) in zip(fzs, fzs[1:]):
        if a != b:
            out.append(("layouts-disagree|fuzzyterm",
                        "FuzzyTerm(%r, %d, %d): layout %r hits %r, layout %r hits %r"
                        % (word, d, p, l1["segs"], a, l2["segs"], b), []))
            break
    return out


def sigs_of(case):
    try:
        return [f[0] for f in run_case(case)]
    except core.HarnessError:
        raise
    except Exception:
        return []


def shrink(case, sig, culprits):
    """Smallest variant of ``case`` that still yields ``sig``: culprit-only
    lexicon, fewer segments, shorter prefix, smaller distance / limit."""
    best = dict(case)

    def attempt(**kw):
        cand = dict(best)
        cand.update(kw)
        if cand == best:
            return False
        if sig in sigs_of(cand):
            best.update(kw)
            return True
        return False

    keep = sorted(set(culprits))
    if case.get("present"):
        keep = sorted(set(keep + [case["present"]]))
    attempt(lexicon=keep)
    if "layout" in best:
        n = len(best["layout"]["segs"])
        if n > 2:
            attempt(layout={"segs": [3, 3]})
        elif n == 1 and best["layout"] != {"segs": [D]}:
            attempt(layout={"segs": [D]})
    if best["p"] > 0:
        if not attempt(p=0):
            for pp in range(1, best["p"]):
                if attempt(p=pp):
                    break
    for dd in range(0, best["d"]):
        if attempt(d=dd):
            break
    if best.get("limit", 1) > 1:
        for k in range(1, best["limit"]):
            if attempt(limit=k):
                break
    return best


# --------------------------------------------------------------------------
# worker

def task(t):
    alpha = t["alpha"]
    lexicon = t["lexicon"]
    seed = t["seed"]
    lays = t["layouts"]
    words = t["words"]
    apis = t["apis"]          # {"fuzzy": bool, "suggest": bool, "correct": bool}
    family = t["family"]
    acc = core.Acc()
    docs = make_docs(alpha, lexicon, seed)
    freq = model_freq(docs)
    lexset = set(lexicon)
    if set(freq) != lexset:
        raise core.HarnessError("model lexicon mismatch")
    present = small(lexicon)[len(lexicon) // 2] if lexicon else None
    opened = []
    try:
        for lay in lays:
            ix = build(alpha, docs, lay)
            s = ix.searcher()
            r = s.reader()
            want = "automaton-path" if (len(lay["segs"]) == 1 or lay.get("optimize")) else "bruteforce-path"
            # a layout whose words all fall into one segment still has D docs
            # in several segments, so the reader class is decided by segs
            if path_of(r) != want:
                raise core.HarnessError("layout %r gives reader %s" % (lay, type(r).__name__))
            # the real lexicon must be the model lexicon
            real = sorted(r.field_terms(FIELD))
            if real != sorted(lexset):
                raise core.HarnessError("index lexicon %r != model %r" % (real, sorted(lexset)))
            opened.append((lay, ix, s, r, want))

        def report(findings, case):
            for sig, what, culprits in findings:
                if sig not in acc.viol:
                    small_case = shrink(case, sig, culprits)
                    if small_case != case:
                        # describe the minimal case, not the one it was found in
                        for s2, w2, _ in run_case(small_case):
                            if s2 == sig:
                                what = w2
                        small_case["found_in"] = {"family": family, "lexicon_size": len(lexicon),
                                                  "word": case["word"], "d": case["d"], "p": case["p"]}
                    acc.violation(sig, small_case, what)
                else:
                    acc.violation(sig, case, what)

        for word in words:
            dist = distances(word, lexicon)
            twhist = {}       # (layout number, p) -> terms_within results for d = 0, 1, ..
            for d in DS:
                for p in PS:
                    ref = Ref(lexicon, word, d, p, dist)
                    acc.count("reference_cases")
                    acc.count("evaluations", len(opened))
                    if ref.required and ref.required != lexset:
                        acc.count("distinct_nontrivial", len(opened))
                    if ref.transposition_relevant:
                        acc.count("cases_transposition_decides")
                    if p > len(word):
                        acc.count("cases_prefix_longer_than_word")
                    if ref.band:
                        acc.count("cases_with_reference_band")
                    if word in lexset:
                        acc.count("cases_word_present")
                    clean = []
                    for li, (lay, ix, s, r, path) in enumerate(opened):
                        base = {"api": None, "alpha": alpha, "lexicon": lexicon, "seed": seed,
                                "layout": lay, "word": word, "d": d, "p": p}
                        acc.count("cases_" + path)
                        tw, e1 = obs_terms_within(r, word, d, p)
                        acc.count("api_calls")
                        f1 = judge_terms_within(tw, e1, ref, path, lexset)
                        hist = twhist.setdefault((li, p), [])
                        hist.append(tw)
                        if len(hist) != d + 1:
                            raise core.HarnessError("terms_within history out of step")
                        eff = effective_distances(hist)
                        if f1:
                            report(f1, dict(base, api="terms_within"))
                        fz = e2 = None
                        f2 = []
                        if apis["fuzzy"]:
                            fz, e2 = obs_fuzzy(s, word, d, p)
                            acc.count("api_calls")
                            if fz:
                                acc.count("fuzzy_searches_with_hits")
                            f2 = judge_fuzzy(fz, e2, ref, docs)
                            if f2:
                                report(f2, dict(base, api="fuzzy"))
                        if not f1 and not f2:
                            clean.append((lay, tw, e1, fz, e2))
                        if apis["suggest"]:
                            for k in LIMITS:
                                sg, e3 = obs_suggest(s, word, d, p, k)
                                acc.count("api_calls")
                                if sg:
                                    acc.count("suggest_calls_nonempty")
                                f3 = judge_suggest(sg, e3, ref, tw, freq, lexset, k, eff)
                                if f3:
                                    report(f3, dict(base, api="suggest", limit=k))
                        if apis["correct"]:
                            for pw in ((None, present) if (d == 2 and p == 0 and present not in (None, word)) else (None,)):
                                cq, e4 = obs_correct(s, word, d, p, pw)
                                acc.count("api_calls")
                                f4 = judge_correct(cq, e4, ref, tw, lexset, pw)
                                if f4:
                                    report(f4, dict(base, api="correct", present=pw))
                    if len(clean) > 1:
                        acc.count("cross_layout_comparisons")
                        f5 = judge_layouts(clean, ref)
                        if f5:
                            report(f5, {"api": "layouts", "alpha": alpha, "lexicon": lexicon, "seed": seed,
                                        "layouts": [c[0] for c in clean], "word": word, "d": d, "p": p})
            # two expansions alive on the same reader at once: what each one
            # yields must not depend on when it is consumed
            w2 = words[(words.index(word) + 1) % len(words)]
            for li, (lay, ix, s, r, path) in enumerate(opened):
                for d1, d2 in ((1, 1), (2, 1)):
                    f6 = overlap_case(r, word, d1, w2, d2, path)
                    acc.count("evaluations")
                    acc.count("overlapping_expansions")
                    if f6 == "trivial":
                        continue
                    acc.count("overlapping_expansions_both_nonempty")
                    if f6:
                        sig, what = f6
                        acc.violation(sig, {"api": "overlap", "alpha": alpha, "lexicon": lexicon, "seed": seed,
                                            "layout": lay, "word": word, "d": d1, "word2": w2, "d2": d2, "p": 0}, what)
            if len(lexicon) in (3, 30, 120) and word in ("".join(alpha[:2]), alpha[0] * 3):
                acc.sample({"family": family, "alphabet": alpha, "lexicon_size": len(lexicon),
                            "layouts": [l["segs"] for l in lays], "word": word, "d": "0..3", "p": "0..4"})
    finally:
        for lay, ix, s, r, path in opened:
            try:
                s.close()
            except Exception:
                pass
            corpus.destroy_index(ix)
    return acc.result()


# --------------------------------------------------------------------------
# driver

ALPHA2 = [["a", "b"], ["b", "c"], ["a", "c"]]
ALPHA3 = [["a", "b", "c"], ["a", "b", "d"], ["b", "c", "d"]]
# two-letter alphabets with multi-byte letters: 2-byte + 4-byte, 1 + 4, 2 + 3
ALPHAMB = [["é", "\U0001d4b3"], ["a", "\U0001d4b3"], ["é", "€"]]
# one ASCII letter + two supplementary-plane letters (adjacent code points / far apart / last plane)
ASTRAL = [["a", "\U0001f600", "\U0001f601"], ["b", "\U00010000", "\U0002a6d6"], ["a", "\uffff", "\U0010ffff"]]


def subsets(words):
    out = []
    for n in range(0, len(words) + 1):
        for c in itertools.combinations(words, n):
            out.append(list(c))
    return out


def chunks(seq, n):
    return [seq[i:i + n] for i in range(0, len(seq), n)]


def run(ctx):
    seed = ctx.seed
    quick = ctx.tier == "quick"
    a2 = ALPHA2[seed % len(ALPHA2)]
    a3 = ALPHA3[seed % len(ALPHA3)]
    amb = ALPHAMB[seed % len(ALPHAMB)]
    lays = [{"segs": [6]}, {"segs": [3, 3]}, {"segs": [2, 2, 2]}]
    if not quick:
        lays += [{"segs": [1, 5]}, {"segs": [2, 2, 2], "optimize": True},
                 {"segs": [6], "storage": "file"}, {"segs": [4, 2], "storage": "file_nommap"}]
    all_apis = {"fuzzy": True, "suggest": True, "correct": True}
    tasks = []

    def add(family, alpha, lexicon, words, per_task, apis=all_apis):
        for ws in chunks(words, per_task):
            tasks.append({"family": family, "alpha": alpha, "lexicon": lexicon, "seed": seed,
                          "layouts": lays, "words": ws, "apis": apis})

    # A: every subset of the 6 words of length <=2 over two letters
    short = all_words(a2, 2, 1)
    qa = all_words(a2, MAXLEN_Q)
    subs = subsets(short)
    for lex in subs:
        add("subsets", a2, lex, qa, 32)
    # C: multi-byte alphabet: full lexicon of length <=4, and every subset of
    # the 6 short words
    qmb = all_words(amb, MAXLEN_Q)
    add("multibyte-full", amb, all_words(amb, 4, 1), qmb, 8)
    mbsubs = subsets(all_words(amb, 2, 1))
    if quick:
        # quick: the empty, singleton, two-word (minimal shape of a
        # transposition / ranking case), 5- and 6-word lexicons; thorough: all
        mbsubs = [x for x in mbsubs if len(x) in (0, 1, 2, 5, 6)]
    for lex in mbsubs:
        add("multibyte-subsets", amb, lex, qmb, 32)
    # D: letters outside the Basic Multilingual Plane next to each other in
    # code point order (stepping from one label to the next greater one
    # crosses 0xFFFF) plus one ASCII letter: full lexicon of length <=3 and
    # every subset of the short words
    astral = ASTRAL[seed % len(ASTRAL)]
    qas = all_words(astral, 4)
    add("astral-full", astral, all_words(astral, 3, 1), qas, 16)
    for lex in subsets(all_words(astral[1:], 2, 1)):
        if quick and len(lex) not in (1, 2, 6):
            continue
        add("astral-subsets", astral, lex, qas, 64)
    # B: the full lexicon of all words of length <=4 over three letters
    full3 = all_words(a3, 4, 1)
    q3 = all_words(a3, MAXLEN_Q)
    add("full3", a3, full3, q3, 2)

    # thorough: sparser lexicons with longer words (more cursor skipping):
    # every subset of size <=3 of the 14 words of length <=3 over two letters
    n_sparse = 0
    if not quick:
        w3 = all_words(a2, 3, 1)
        base_lays = lays[:3]
        for n in range(0, 4):
            for c in itertools.combinations(w3, n):
                if all(len(x) <= 2 for x in c):
                    continue        # already in family A
                n_sparse += 1
                for ws in chunks(qa, 32):
                    tasks.append({"family": "sparse3", "alpha": a2, "lexicon": list(c), "seed": seed,
                                  "layouts": base_lays, "words": ws, "apis": all_apis})
    ctx.extra["alphabets"] = {"subsets": a2, "full3": a3, "multibyte": amb, "astral": astral}
    ctx.extra["lexicons"] = {"subsets": len(subs), "full3": 1, "multibyte-full": 1,
                             "multibyte-subsets": len(mbsubs), "sparse3": n_sparse}
    ctx.extra["layouts"] = lays
    ctx.extra["query_words"] = {"subsets": len(qa), "full3": len(q3), "multibyte": len(qmb)}
    ctx.extra["maxdist"] = list(DS)
    ctx.extra["prefix"] = list(PS)
    ctx.extra["suggest_limits"] = list(LIMITS)
    ctx.rule = ("for each lexicon (every subset of the 6 words of length<=2 over 2 letters; all 120 words of "
                "length<=4 over 3 letters; all 30 words of length<=4 and subsets of the short words over a "
                "multi-byte 2-letter alphabet) x every query word of length<=5 over the alphabet incl. empty x "
                "maxdist 0..3 x prefix 0..4 ('reference_cases'), on every layout ('evaluations'): terms_within, "
                "search(FuzzyTerm), suggest(limit 1,3,5), correct_query compared with reference edit distances; "
                "a case (layout, lexicon, word, d, p) is counted non-trivial when the reference result is "
                "neither empty nor the whole lexicon; enumerated without repetition, simplest first")
    ctx.assumptions = [
        "documented distance = Damerau-Levenshtein (reading.terms_within docstring, docs/parsing.rst: 'act' is "
        "one edit from 'cat'); the docs do not say whether the restricted (OSA) or the unrestricted variant is "
        "meant, so terms with OSA<=d are required and terms with unrestricted DL>d are forbidden; between the "
        "two only agreement between layouts is demanded",
        "prefix longer than the word: the result must lie between {the word itself} and {terms starting with "
        "the word, within distance}; it must not raise and must be the same for every layout",
        "every word occurs once per document, so 'frequency' is unambiguous (collection frequency == document "
        "frequency); ties in (distance, frequency) may come in any order and any of them may be cut by limit",
        "suggest is compared with terms_within of the same reader (minus the word itself), and a ranking that "
        "follows the distance at which that reader's own terms_within starts to report a term is accepted, so "
        "a defect of terms_within is not reported a second time through suggest",
        "correct_query without qstring positions: only the corrected query object is checked",
        "no deleted documents (whether terms of deleted documents are 'the field's terms' is not documented)",
    ]
    ctx.pmap(task, tasks)
    c = ctx.counters
    for key in ("cases_automaton-path", "cases_bruteforce-path", "cases_transposition_decides",
                "cases_prefix_longer_than_word", "fuzzy_searches_with_hits", "suggest_calls_nonempty",
                "cross_layout_comparisons"):
        if c.get(key, 0) < 100:
            # cross-layout comparisons only happen for cases that pass on
            # every layout; with the known defects present there are still
            # thousands of those (d=0, words without transposition neighbours)
            raise core.HarnessError("vacuous: %s = %d" % (key, c.get(key, 0)))
    # simplest recorded case first; every recorded case is re-run here (fresh
    # indexes, another process than the one that found it) and must show the
    # same signature again, otherwise it is a harness problem, not a finding
    for sig, v in ctx.viol.items():
        v["cases"].sort(key=lambda cs: (len(cs.get("lexicon", ())), len(cs.get("word", "")),
                                        cs.get("d", 0), cs.get("p", 0)))
        for i, cs in enumerate(v["cases"]):
            again = [f for f in run_case(cs) if f[0] == sig]
            if not again:
                raise core.HarnessError("violation %r not reproducible on %r" % (sig, cs))
            if i == 0:
                v["what"] = again[0][1]
        ctx.count("violation_cases_revalidated", len(v["cases"]))


def replay(case):
    core.setup_process(case.get("seed", 0))
    f = run_case(case)
    return {"ok": not f, "sigs": [x[0] for x in f], "what": " ;; ".join(x[1] for x in f) or "agrees with the reference",
            "case": dict((k, v) for k, v in case.items() if k != "found_in")}
