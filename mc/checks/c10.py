"""C10 - postings, term statistics and vectors read back exactly what was
indexed.

E1 (bounded exhaustive): token streams over a 4-term alphabet (one ~300 byte
term, one non-BMP term) with repeats, per-token boosts and position gaps are
fed to fields of every posting format x vector format, written through every
codec configuration (W3 block limit x compression x inline limit x compound /
loose files, in-memory codec, plain-text codec) along every write path
(IndexWriter, IndexWriter + optimising merge, codec FieldWriter/PerDocWriter,
W3 PostingsWriter) and every posting list / term info / vector is read back
and compared with a token model computed in plain Python.

A *case* (JSON-able, see ``execute``)::

    {"seed": 0, "alpha": "full" | "latin1",
     "fields": {name: [postings format, vector format | None, scorable]},
     "docs":   [{"b": doc boost, "f": {name: [[term#, boost#, gap], ...]}}],
     "codec":  {"kind": "w3", "bl": 128, "comp": 3, "il": 1,
                "compound": true} | {"kind": "mem"} | {"kind": "plain"},
     "path":   "writer" | "merge" | "fw" | "fwp" | "pw"}
"""
import itertools
import json
import os
import time
import shutil
import sys
import traceback

from mc import core

if core.REPO_SRC not in sys.path:
    sys.path.insert(0, core.REPO_SRC)
from whoosh.analysis import Analyzer, Token  # noqa: E402

PID = "C10"
LEVEL = "exploration"

FORMATS = ["Existence", "Frequency", "Positions", "Characters",
           "PositionBoosts", "CharacterBoosts"]
SUPPORTS = {
    "Existence": ("frequency",),
    "Frequency": ("frequency",),
    "Positions": ("frequency", "positions", "position_boosts"),
    "Characters": ("frequency", "positions", "position_boosts", "characters"),
    "PositionBoosts": ("frequency", "positions", "position_boosts"),
    "CharacterBoosts": ("frequency", "positions", "position_boosts",
                        "characters", "character_boosts"),
}
DEFAULT_CODEC = {"kind": "w3", "bl": 128, "comp": 3, "il": 1, "compound": True}
RTOL = 1e-6   # weights make a float32 round trip (documented)


# -------------------------------------------------------------------------
# alphabet

def alphabet(seed=0, alpha="full"):
    """-> (terms, boosts).  Terms 0..3 are the alphabet proper (short, prefix
    sharing, ~300 bytes long, non-BMP); terms 4..9 exist only so that a
    document's vector can be longer than 3 * blocklimit."""
    v = seed % 3
    if v == 0:
        terms = [u"a", u"ab", u"\xe9" * 150, u"\U0001f600"]
        boosts = [1.0, 0.5, 2.0]
    elif v == 1:
        terms = [u"k", u"z" * 297 + u"€", u"k\U0001d4b3k", u"kk"]
        boosts = [1.0, 0.3, 2.7]
    else:
        terms = [u"\U00010348\U0001f600", u"m", u"\xfc" * 149 + u"ss", u"Ā"]
        boosts = [1.0, 0.25, 3.0]
    if alpha == "latin1":
        # same shape, every character encodable in Latin-1 (the plain-text
        # codec writes vector terms through a latin1 encoder)
        terms = [t if all(ord(c) < 256 for c in t) else u"\xff" + u"y" * (i + 1)
                 for i, t in enumerate(terms)]
    terms = terms + [u"c", u"d", u"e\xe9", u"f", u"g" * 20, u"h"]
    assert len(set(terms)) == len(terms)
    return terms, boosts


def tokens_of(stream, terms, boosts):
    """stream [[term#, boost#, gap], ...] -> [(text, pos, startchar, endchar,
    boost)].  gap g>=1: position advances by g and g-1 (first token) / g
    characters separate the tokens; g==0: the token overlaps the previous one
    (same position, same start), as synonym / compound filters produce."""
    out = []
    pos = -1
    sc = ec = 0
    for k, (ti, bi, g) in enumerate(stream):
        text = terms[ti]
        if g == 0 and k > 0:
            pass
        else:
            g1 = max(g, 1)
            pos += g1
            sc = ec + (g1 if k > 0 else g1 - 1)
        ec = sc + len(text)
        out.append((text, pos, sc, ec, boosts[bi]))
    return out


class SpecAnalyzer(Analyzer):
    """The field value is the JSON list of prepared tokens
    [[text, pos, startchar, endchar, boost], ...]; the analyzer yields them
    as Token objects (one Token object re-used, as whoosh tokenizers do)."""

    def __call__(self, value, positions=False, chars=False,
                 keeporiginal=False, removestops=True, start_pos=0,
                 start_char=0, tokenize=True, mode='', **kwargs):
        t = Token(positions, chars, removestops=removestops, mode=mode,
                  **kwargs)
        for text, pos, sc, ec, boost in json.loads(value):
            t.text = text
            t.boost = boost
            t.stopped = False
            if positions:
                t.pos = start_pos + pos
            if chars:
                t.startchar = start_char + sc
                t.endchar = start_char + ec
            yield t


def make_analyzer():
    return SpecAnalyzer()


def _fmt(name):
    from whoosh import formats
    return getattr(formats, name)()


def make_schema(fieldspec):
    from whoosh import fields
    d = {}
    for name, (F, V, scorable) in sorted(fieldspec.items()):
        d[name] = fields.FieldType(_fmt(F), make_analyzer(), scorable=bool(scorable),
                                   stored=False, vector=(_fmt(V) if V else None))
    return fields.Schema(**d)


# -------------------------------------------------------------------------
# token model (the oracle)

def expect(F, toks, docboost=1.0):
    """What format F must report for one (document, term) whose occurrences
    are toks = [(pos, sc, ec, boost)]: the documented content of each format
    (whoosh.formats class docstrings)."""
    e = {}
    if F == "Existence":
        e["frequency"] = 1
        e["weight"] = 1.0 * docboost
        return e
    e["frequency"] = len(toks)
    e["weight"] = sum(t[3] for t in toks) * docboost
    if F == "Frequency":
        return e
    e["positions"] = [t[0] for t in toks]
    if F in ("Positions", "Characters"):
        e["position_boosts"] = [(t[0], 1) for t in toks]
    else:
        e["position_boosts"] = [(t[0], t[3]) for t in toks]
    if F in ("Characters", "CharacterBoosts"):
        e["characters"] = [(t[0], t[1], t[2]) for t in toks]
    if F == "CharacterBoosts":
        e["character_boosts"] = [tuple(t) for t in toks]
    return e


def norm_doc(doc, fieldspec):
    """{"s": stream} is shorthand for 'the same stream in every field'."""
    if "s" in doc:
        d = {"f": dict((f, doc["s"]) for f in fieldspec)}
        if doc.get("b") is not None:
            d["b"] = doc["b"]
        return d
    return doc


class Model(object):
    def __init__(self, case):
        self.terms, self.boosts = alphabet(case.get("seed", 0), case.get("alpha", "full"))
        self.fields = case["fields"]
        self.docs = [norm_doc(d, self.fields) for d in case["docs"]]
        self.btexts = [t.encode("utf8") for t in self.terms]
        # per doc, per field: {term#: [(pos, sc, ec, boost)]}, token list
        self.doctoks = []
        self.values = []      # per doc {field: json value}
        for doc in self.docs:
            per = {}
            vals = {}
            for fname, stream in doc.get("f", {}).items():
                if stream is None:
                    continue
                toks = tokens_of(stream, self.terms, self.boosts)
                vals[fname] = json.dumps(toks)
                byterm = {}
                for (ti, _, _), (_, pos, sc, ec, boost) in zip(stream, toks):
                    byterm.setdefault(ti, []).append((pos, sc, ec, boost))
                per[fname] = byterm
            self.doctoks.append(per)
            self.values.append(vals)

    def length(self, docnum, fname):
        F = self.fields[fname][0]
        byterm = self.doctoks[docnum].get(fname)
        if not byterm:
            return 0
        if F == "Existence":
            return len(byterm)
        return sum(len(v) for v in byterm.values())

    def plist(self, fname, ti):
        """[(docnum, toks)] of the documents containing term ti in fname."""
        out = []
        for docnum, per in enumerate(self.doctoks):
            toks = per.get(fname, {}).get(ti)
            if toks:
                out.append((docnum, toks))
        return out

    def used_terms(self, fname):
        s = set()
        for per in self.doctoks:
            s.update(per.get(fname, {}).keys())
        return sorted(s)


# -------------------------------------------------------------------------
# building (the real code)

class Handle(object):
    """Uniform read access: either a real IndexReader (writer paths) or the
    codec level TermsReader / PerDocumentReader pair (direct paths)."""

    def __init__(self):
        self.reader = None
        self.tr = None
        self.pdr = None
        self.schema = None
        self.cleanup = []
        self.pw = None    # {(fname, btext): (terminfo bytes)} for the pw path

    def close(self):
        for obj in (self.reader, self.tr, self.pdr):
            try:
                if obj is not None:
                    obj.close()
            except Exception:
                pass
        for fn in self.cleanup:
            try:
                fn()
            except Exception:
                pass

    # --- observations ---
    def contains(self, fname, text, btext):
        if self.reader is not None:
            return (fname, text) in self.reader
        return (fname, btext) in self.tr

    def lexicon(self, fname):
        if self.reader is not None:
            return list(self.reader.lexicon(fname))
        return [t for f, t in self.tr.terms_from(fname, b"") if f == fname]

    def postings(self, fname, text, btext):
        if self.reader is not None:
            return self.reader.postings(fname, text)
        return self.tr.matcher(fname, btext, self.schema[fname].format)

    def term_info(self, fname, text, btext):
        if self.reader is not None:
            return self.reader.term_info(fname, text)
        return self.tr.term_info(fname, btext)

    def has_vector(self, docnum, fname):
        if self.reader is not None:
            return self.reader.has_vector(docnum, fname)
        return self.pdr.has_vector(docnum, fname)

    def vector(self, docnum, fname):
        if self.reader is not None:
            return self.reader.vector(docnum, fname)
        return self.pdr.vector(docnum, fname, self.schema[fname].vector)


def make_codec(c):
    if c["kind"] == "w3":
        from whoosh.codec.whoosh3 import W3Codec
        return W3Codec(blocklimit=c.get("bl", 128), compression=c.get("comp", 3),
                       inlinelimit=c.get("il", 1))
    if c["kind"] == "mem":
        from whoosh.codec.memory import MemoryCodec
        return MemoryCodec()
    if c["kind"] == "plain":
        from whoosh.codec.plaintext import PlainTextCodec
        return PlainTextCodec()
    raise core.HarnessError("codec kind %r" % (c,))


def add_docs(w, model, lo, hi):
    for docnum in range(lo, hi):
        kw = dict(model.values[docnum])
        b = model.docs[docnum].get("b")
        if b is not None and b != 1.0:
            kw["_boost"] = b
        w.add_document(**kw)


def multiseg_cuts(n):
    """document numbers at which a new segment starts: two segments for 2-3
    documents, three (first third / the rest halved) from 4 documents on"""
    if n < 4:
        return [(n + 1) // 2]
    a = max(1, n // 3)
    return [a, a + max(1, (n - a) // 2)]


def build_writer(case, model, h):
    """The normal way: ix.writer(codec=...) / MemoryCodec.writer()."""
    from whoosh.filedb.filestore import FileStorage
    c = case["codec"]
    schema = h.schema
    n = len(model.docs)
    if c["kind"] == "mem":
        codec = make_codec(c)
        if case["path"] == "batches" and n >= 2:
            # the in-memory segment written by several writers in turn (what
            # BufferedWriter does for every document): first half, then one
            # writer per remaining document
            half = (n + 1) // 2
            bounds = [(0, half)] + [(i, i + 1) for i in range(half, n)]
        else:
            bounds = [(0, n)]
        for lo, hi in bounds:
            w = codec.writer(schema)
            add_docs(w, model, lo, hi)
            w.commit()
        if n:
            h.reader = codec.reader(schema)
        return
    d = core.fresh_dir("c10")
    h.cleanup.append(lambda: shutil.rmtree(d, ignore_errors=True))
    st = FileStorage(d)
    ix = st.create_index(schema)
    kw = {"compound": bool(c.get("compound", True))} if c["kind"] == "w3" else {}
    if case["path"] == "merge" and n >= 2:
        half = (n + 1) // 2
        w = ix.writer(codec=make_codec(c), **kw)
        add_docs(w, model, 0, half)
        w.commit(merge=False)
        w = ix.writer(codec=make_codec(c), **kw)
        add_docs(w, model, half, n)
        w.commit(merge=False)
        # an optimising commit without new documents merges the two segments
        # in order (documents keep their numbers), reading every posting list
        # and vector back and writing it again
        w = ix.writer(codec=make_codec(c), **kw)
        w.commit(optimize=True)
    elif case["path"] == "multiseg" and n >= 2:
        # segments kept apart (commit order = document order): read through the
        # multi-segment reader; compare_leaves() then reads every segment alone
        cut = multiseg_cuts(n)
        for lo, hi in zip([0] + cut, cut + [n]):
            w = ix.writer(codec=make_codec(c), **kw)
            add_docs(w, model, lo, hi)
            w.commit(merge=False)
        r = ix.reader()
        h.reader = r
        if r.is_atomic() or [lr.doc_count_all() for lr, _ in r.leaf_readers()] != [hi - lo for lo, hi in zip([0] + cut, cut + [n])]:
            raise core.HarnessError("expected segments cut at %r, got %r" % (cut, r))
        return
    else:
        w = ix.writer(codec=make_codec(c), **kw)
        add_docs(w, model, 0, n)
        w.commit(merge=False)
    r = ix.reader()
    h.reader = r
    if n and not r.is_atomic():
        raise core.HarnessError("expected one segment, got %r" % (r,))


class ModelLengths(object):
    def __init__(self, model):
        self.model = model

    def doc_field_length(self, docnum, fieldname, default=0):
        if self.model.fields[fieldname][2]:
            return self.model.length(docnum, fieldname)
        return default


def direct_items(model, schema, fname):
    """Encoded postings of one field, straight from Format.word_values():
    -> {btext: [(docnum, weight, vbytes)]} and per doc vector items."""
    fobj = schema[fname]
    posts = {}
    vecs = {}
    for docnum, vals in enumerate(model.values):
        if fname not in vals:
            continue
        value = vals[fname]
        b = model.docs[docnum].get("b") or 1.0
        for btext, freq, weight, vbytes in fobj.index(value):
            posts.setdefault(btext, []).append((docnum, weight * b, vbytes))
        if fobj.vector:
            vitems = fobj.vector.word_values(value, fobj.analyzer, mode="index")
            vecs[docnum] = sorted((text, weight, vbytes) for text, _, weight, vbytes in vitems)
    return posts, vecs


def build_direct(case, model, h):
    """Public codec API: PerDocumentWriter + FieldWriter (start_field /
    start_term / add / finish_term, or add_postings for path "fwp")."""
    from whoosh.filedb.filestore import FileStorage
    c = case["codec"]
    schema = h.schema
    codec = make_codec(c)
    n = len(model.docs)
    if c["kind"] == "mem":
        st = codec.storage
    else:
        d = core.fresh_dir("c10")
        h.cleanup.append(lambda: shutil.rmtree(d, ignore_errors=True))
        st = FileStorage(d)
    seg = codec.new_segment(st, "direct")
    lengths = ModelLengths(model)
    allposts = {}
    allvecs = {}
    for fname in sorted(model.fields):
        allposts[fname], allvecs[fname] = direct_items(model, schema, fname)
    pdw = codec.per_document_writer(st, seg)
    for docnum in range(n):
        pdw.start_doc(docnum)
        for fname in sorted(model.fields):
            if fname not in model.values[docnum]:
                continue
            fobj = schema[fname]
            length = lengths.doc_field_length(docnum, fname)
            vitems = allvecs[fname].get(docnum)
            if fobj.vector and vitems is not None:
                pdw.add_vector_items(fname, fobj, vitems)
            pdw.add_field(fname, fobj, None, length)
        pdw.finish_doc()
    pdw.close()
    seg.set_doc_count(n)
    fw = codec.field_writer(st, seg)
    if case["path"] == "fwp":
        def gen():
            for fname in sorted(model.fields):
                for btext in sorted(allposts[fname]):
                    for docnum, weight, vbytes in allposts[fname][btext]:
                        yield (fname, btext, docnum, weight, vbytes)
        fw.add_postings(schema, lengths if c["kind"] != "plain" else None, gen())
    else:
        for fname in sorted(model.fields):
            if not allposts[fname]:
                continue
            fw.start_field(fname, schema[fname])
            for btext in sorted(allposts[fname]):
                fw.start_term(btext)
                for docnum, weight, vbytes in allposts[fname][btext]:
                    fw.add(docnum, weight, vbytes, lengths.doc_field_length(docnum, fname))
                fw.finish_term()
            fw.finish_field()
    fw.close()
    h.tr = codec.terms_reader(st, seg)
    h.pdr = codec.per_document_reader(st, seg)


class PWTerms(object):
    """Terms 'reader' of the raw PostingsWriter path: term infos round-trip
    through W3TermInfo.to_bytes/from_bytes, postings through
    Codec.postings_reader."""

    def __init__(self, codec, dbfile, table):
        self.codec = codec
        self.dbfile = dbfile
        self.table = table

    def __contains__(self, term):
        return term in self.table

    def terms_from(self, fname, prefix):
        return sorted(k for k in self.table if k[0] == fname)

    def term_info(self, fname, btext):
        from whoosh.codec.whoosh3 import W3TermInfo
        return W3TermInfo.from_bytes(self.table[fname, btext])

    def matcher(self, fname, btext, format_):
        return self.codec.postings_reader(self.dbfile, self.term_info(fname, btext),
                                          format_, term=(fname, btext))

    def close(self):
        self.dbfile.close()


def build_pw(case, model, h):
    """W3Codec.postings_writer / postings_reader on a bare file."""
    from whoosh.filedb.filestore import FileStorage
    from whoosh.codec.whoosh3 import W3TermInfo
    c = case["codec"]
    if c["kind"] != "w3":
        raise core.HarnessError("pw path is W3 only")
    schema = h.schema
    codec = make_codec(c)
    d = core.fresh_dir("c10")
    h.cleanup.append(lambda: shutil.rmtree(d, ignore_errors=True))
    st = FileStorage(d)
    lengths = ModelLengths(model)
    f = st.create_file("raw.pst")
    table = {}
    for fname in sorted(model.fields):
        posts, _ = direct_items(model, schema, fname)
        pw = codec.postings_writer(f)
        for btext in sorted(posts):
            pw.start_postings(schema[fname].format, W3TermInfo())
            for docnum, weight, vbytes in posts[btext]:
                pw.add_posting(docnum, weight, vbytes, lengths.doc_field_length(docnum, fname))
            ti = pw.finish_postings()
            table[fname, btext] = ti.to_bytes()
    f.close()
    h.tr = PWTerms(codec, st.open_file("raw.pst"), table)


def build(case, model):
    h = Handle()
    try:
        h.schema = make_schema(case["fields"])
        path = case["path"]
        if path in ("writer", "merge", "multiseg", "batches"):
            build_writer(case, model, h)
        elif path in ("fw", "fwp"):
            build_direct(case, model, h)
        elif path == "pw":
            build_pw(case, model, h)
        else:
            raise core.HarnessError("path %r" % path)
    except BaseException:
        h.close()
        raise
    return h


# -------------------------------------------------------------------------
# comparison

def where(e):
    tb = traceback.extract_tb(e.__traceback__)
    fr = [f for f in tb if "/whoosh/" in f.filename] or list(tb)
    return "%s:%s" % (fr[-1].filename.split("/")[-1], fr[-1].name)


def feq(a, b):
    try:
        return abs(a - b) <= RTOL * max(1.0, abs(a), abs(b))
    except TypeError:
        return False


def seq_eq(got, exp, floatcol):
    """Decoded position-ish lists: ints exact, the boost column to float
    tolerance."""
    try:
        got = list(got)
    except TypeError:
        return False
    if len(got) != len(exp):
        return False
    for g, e in zip(got, exp):
        if isinstance(e, tuple):
            try:
                g = tuple(g)
            except TypeError:
                return False
            if len(g) != len(e):
                return False
            for i, (x, y) in enumerate(zip(g, e)):
                if i == floatcol:
                    if not feq(x, y):
                        return False
                elif x != y or isinstance(x, float):
                    return False
        elif g != e or isinstance(g, float):
            return False
    return True


FLOATCOL = {"positions": -1, "position_boosts": 1, "characters": -1,
            "character_boosts": 3}


def value_matches(astype, got, exp):
    if astype == "frequency":
        return got == exp
    if astype == "weight":
        return feq(got, exp)
    return seq_eq(got, exp, FLOATCOL[astype])


def short(x, n=160):
    s = repr(x)
    return s if len(s) <= n else s[:n] + "..."


class Diffs(object):
    """First discrepancy of each kind: kind -> (field, detail)."""

    def __init__(self):
        self.d = {}
        self.order = []
        self.n = 0

    def add(self, kind, fname, detail, docnum=None, group=None):
        self.n += 1
        if kind not in self.d:
            self.d[kind] = (fname, detail, docnum, group or kind.split(".")[0])
            self.order.append(kind)

    def exc(self, obs, fname, e, ctxt, docnum=None, kind=None):
        if isinstance(e, core.HarnessError):
            raise e
        group = obs.split("(")[0].strip()
        self.add(kind or "exc:%s@%s" % (type(e).__name__, where(e)), fname,
                 "%s raised %s at %s (%s)" % (obs, short(e, 200), where(e), ctxt), docnum, group)


def lengths_ok(got, exact):
    from whoosh.util.numeric import length_to_byte, byte_to_length
    return got == exact or got == byte_to_length(length_to_byte(exact))


def compare_postings(h, model, case, diffs, stats, only=None):
    ckind = case["codec"]["kind"]
    bl = case["codec"].get("bl", 128) if ckind == "w3" else None
    for fname in sorted(model.fields):
        if only and fname not in only:
            continue
        F, V, scorable = model.fields[fname]
        used = model.used_terms(fname)
        # lexicon == exactly the indexed terms, in byte order
        exp_lex = sorted(model.btexts[ti] for ti in used)
        try:
            if exp_lex or h.reader is not None:
                got_lex = h.lexicon(fname) if (exp_lex or ckind != "plain") else []
                if got_lex != exp_lex:
                    diffs.add("lexicon", fname, "field %s: lexicon %s, indexed %s"
                              % (fname, short(got_lex), short(exp_lex)))
        except Exception as e:
            if exp_lex:
                diffs.exc("lexicon(%s)" % fname, fname, e, "")
        for ti in range(len(model.terms)):
            text = model.terms[ti]
            btext = model.btexts[ti]
            pl = model.plist(fname, ti)
            tname = "%s:t%d" % (fname, ti)
            if ti >= 4 and not pl:
                continue
            try:
                got = bool(h.contains(fname, text, btext))
                if got != bool(pl):
                    diffs.add("contains", fname, "%s in reader -> %r, model list has %d postings"
                              % (tname, got, len(pl)))
            except Exception as e:
                if pl or ckind == "w3":
                    diffs.exc("contains(%s)" % tname, fname, e, "")
            if not pl:
                stats["absent_terms"] = stats.get("absent_terms", 0) + 1
                continue
            stats["lists"] = stats.get("lists", 0) + 1
            if len(pl) >= 2:
                stats["lists_ge2"] = stats.get("lists_ge2", 0) + 1
            if bl is not None and len(pl) > bl:
                stats["multiblock_lists"] = stats.get("multiblock_lists", 0) + 1
            exps = []
            for docnum, toks in pl:
                b = model.docs[docnum].get("b") or 1.0
                exps.append((docnum, expect(F, toks, b)))
            # --- the posting list ---
            try:
                m = h.postings(fname, text, btext)
                i = 0
                while m.is_active():
                    if i >= len(exps):
                        diffs.add("postings.extra", fname, "%s: extra posting id=%r after %d expected"
                                  % (tname, m.id(), len(exps)))
                        break
                    docnum, e = exps[i]
                    gid = m.id()
                    if gid != docnum:
                        diffs.add("postings.id", fname, "%s: posting #%d id=%r, expected %d (ids %s)"
                                  % (tname, i, gid, docnum, short([d for d, _ in exps])))
                        break
                    gw = m.weight()
                    if not feq(gw, e["weight"]):
                        diffs.add("postings.weight", fname, "%s doc %d: weight %r, expected %r"
                                  % (tname, docnum, gw, e["weight"]))
                    for astype in SUPPORTS[F]:
                        gv = m.value_as(astype)
                        if not value_matches(astype, gv, e[astype]):
                            diffs.add("postings." + astype, fname, "%s doc %d: value_as(%s)=%s, expected %s"
                                      % (tname, docnum, astype, short(gv), short(e[astype])))
                    stats["postings"] = stats.get("postings", 0) + 1
                    i += 1
                    m.next()
                else:
                    if i < len(exps):
                        diffs.add("postings.missing", fname, "%s: list ended after %d of %d postings"
                                  % (tname, i, len(exps)))
                # a fresh matcher's all_ids() is the same list
                m2 = h.postings(fname, text, btext)
                ids = list(m2.all_ids())
                if ids != [d for d, _ in exps]:
                    diffs.add("postings.all_ids", fname, "%s: all_ids()=%s expected %s"
                              % (tname, short(ids), short([d for d, _ in exps])))
            except Exception as e:
                diffs.exc("postings(%s)" % tname, fname, e, "%d postings, format %s" % (len(exps), F))
            # --- term statistics ---
            try:
                ti_ = h.term_info(fname, text, btext)
                ws = [e["weight"] for _, e in exps]
                obs = [("doc_frequency", ti_.doc_frequency(), len(exps), None),
                       ("weight", ti_.weight(), sum(ws), "f"),
                       ("max_weight", ti_.max_weight(), max(ws), "f"),
                       ("min_id", ti_.min_id(), exps[0][0], None),
                       ("max_id", ti_.max_id(), exps[-1][0], None)]
                for name, got, exp, mode in obs:
                    ok = feq(got, exp) if mode == "f" else (got == exp and not isinstance(got, float))
                    if not ok:
                        diffs.add("terminfo." + name, fname, "%s: term_info.%s()=%r, true aggregate %r over %d postings"
                                  % (tname, name, got, exp, len(exps)))
                # asking again gives the same answer (the statistics of a
                # committed list do not depend on what was read before)
                ti2 = h.term_info(fname, text, btext)
                for name, exp, mode in (("doc_frequency", len(exps), None), ("weight", sum(ws), "f"),
                                        ("max_weight", max(ws), "f"), ("min_id", exps[0][0], None),
                                        ("max_id", exps[-1][0], None)):
                    got = getattr(ti2, name)()
                    ok = feq(got, exp) if mode == "f" else got == exp
                    if not ok and not diffs.n:
                        diffs.add("terminfo-reread." + name, fname, "%s: the second term_info() call says %s()=%r, true "
                                  "aggregate %r (the first call said %r)" % (tname, name, got, exp, getattr(ti_, name)()))
                if scorable and ckind != "plain":
                    lens = [model.length(d, fname) for d, _ in exps]
                    for name, got, exp in (("min_length", ti_.min_length(), min(lens)),
                                           ("max_length", ti_.max_length(), max(lens))):
                        if not lengths_ok(got, exp):
                            diffs.add("terminfo." + name, fname, "%s: term_info.%s()=%r, true %r (field lengths %s)"
                                      % (tname, name, got, exp, short(lens)))
                if h.reader is not None:
                    df = h.reader.doc_frequency(fname, text)
                    fq = h.reader.frequency(fname, text)
                    if df != len(exps):
                        diffs.add("reader.doc_frequency", fname, "%s: doc_frequency()=%r expected %d" % (tname, df, len(exps)))
                    # documented as "total number of instances"; implemented as
                    # the total weight: either reading is accepted
                    if not (feq(fq, sum(ws)) or fq == sum(e["frequency"] for _, e in exps)):
                        diffs.add("reader.frequency", fname, "%s: frequency()=%r expected %r" % (tname, fq, sum(ws)))
            except Exception as e:
                diffs.exc("term_info(%s)" % tname, fname, e, "%d postings" % len(exps))


def compare_vectors(h, model, case, diffs, stats, only=None):
    if case["path"] == "pw":
        return
    ckind = case["codec"]["kind"]
    bl = case["codec"].get("bl", 128) if ckind == "w3" else None
    for fname in sorted(model.fields):
        if only and fname not in only:
            continue
        F, V, scorable = model.fields[fname]
        if not V:
            continue
        for docnum, per in enumerate(model.doctoks):
            byterm = per.get(fname)
            dname = "%s doc %d" % (fname, docnum)
            if not byterm:
                if fname not in per:
                    # no value at all for this field: no vector
                    try:
                        if h.has_vector(docnum, fname):
                            diffs.add("has_vector", fname, "%s: has_vector() true, document has no value in the field" % dname)
                    except Exception as e:
                        diffs.exc("has_vector(%s)" % dname, fname, e, "")
                continue
            exp = [(model.terms[ti], expect(V, byterm[ti])) for ti in byterm]
            exp.sort(key=lambda x: x[0])
            stats["vectors"] = stats.get("vectors", 0) + 1
            ndiffs = diffs.n
            if bl is not None and len(exp) > bl:
                stats["multiblock_vectors"] = stats.get("multiblock_vectors", 0) + 1
            try:
                if not h.has_vector(docnum, fname):
                    diffs.add("has_vector", fname, "%s: has_vector() false, %d terms indexed" % (dname, len(exp)), docnum)
                    continue
                m = h.vector(docnum, fname)
                i = 0
                while m.is_active():
                    if i >= len(exp):
                        diffs.add("vector.extra", fname, "%s: extra vector entry %r" % (dname, short(m.id(), 40)), docnum)
                        break
                    text, e = exp[i]
                    gid = m.id()
                    if gid != text:
                        diffs.add("vector.id", fname, "%s: vector entry #%d is %s, expected %s"
                                  % (dname, i, short(gid, 40), short(text, 40)), docnum)
                        break
                    gw = m.weight()
                    if not feq(gw, e["weight"]):
                        diffs.add("vector.weight", fname, "%s term %s: weight %r, expected %r"
                                  % (dname, short(text, 20), gw, e["weight"]), docnum)
                    for astype in SUPPORTS[V]:
                        gv = m.value_as(astype)
                        if not value_matches(astype, gv, e[astype]):
                            diffs.add("vector." + astype, fname, "%s term %s: value_as(%s)=%s, expected %s"
                                      % (dname, short(text, 20), astype, short(gv), short(e[astype])), docnum)
                    i += 1
                    m.next()
                else:
                    if i < len(exp):
                        diffs.add("vector.missing", fname, "%s: vector ended after %d of %d terms" % (dname, i, len(exp)), docnum)
            except Exception as e:
                diffs.exc("vector(%s)" % dname, fname, e, "%d terms, vector format %s" % (len(exp), V))
            # reader.vector_as(astype, docnum, field): [(term, decoded)];
            # only where the matcher itself read back correctly
            if (h.reader is not None and docnum < case.get("vector_as_docs", 1 << 30)
                    and diffs.n == ndiffs):
                for astype in ("weight",) + SUPPORTS[V]:
                    try:
                        got = list(h.reader.vector_as(astype, docnum, fname))
                        ok = len(got) == len(exp)
                        if ok:
                            for (gt, gv), (text, e) in zip(got, exp):
                                if gt != text or not value_matches(astype, gv, e[astype]):
                                    ok = False
                                    break
                        if not ok:
                            diffs.add("vector_as", fname, "%s (format %s, vector format %s): vector_as(%s)=%s, expected %s"
                                      % (dname, F, V, astype, short(got), short([(t, e[astype]) for t, e in exp])), docnum)
                        stats["vector_as"] = stats.get("vector_as", 0) + 1
                    except Exception as e:
                        diffs.exc("vector_as(%s, %s)" % (astype, dname), fname, e,
                                  "field format %s, vector format %s" % (F, V), docnum, kind="vector_as")


def execute(case, only=None):
    """Run one case on the real code.  -> (Diffs, stats)"""
    diffs = Diffs()
    stats = {}
    model = Model(case)
    try:
        h = build(case, model)
    except core.HarnessError:
        raise
    except Exception as e:
        diffs.exc("build", None, e, "path %s codec %s" % (case["path"], case["codec"]))
        return diffs, stats
    try:
        if not model.docs and h.reader is None and h.tr is None:
            return diffs, stats
        compare_postings(h, model, case, diffs, stats, only)
        compare_vectors(h, model, case, diffs, stats, only)
        if case["path"] == "multiseg" and h.reader is not None and not h.reader.is_atomic():
            compare_leaves(h, model, case, diffs, stats, only)
    finally:
        h.close()
    return diffs, stats


def compare_leaves(h, model, case, diffs, stats, only=None):
    """multiseg path, AFTER everything was read through the multi-segment reader:
    each segment's own reader must list and summarise its part of every posting
    list with segment-relative document numbers."""
    for lr, offset in h.reader.leaf_readers():
        hi = offset + lr.doc_count_all()
        for fname in sorted(model.fields):
            if only and fname not in only:
                continue
            for ti in model.used_terms(fname):
                text = model.terms[ti]
                tname = "%s:term#%d(segment at %d)" % (fname, ti, offset)
                part = [(d - offset, toks) for d, toks in model.plist(fname, ti) if offset <= d < hi]
                try:
                    present = (fname, text) in lr
                    if present != bool(part):
                        diffs.add("leaf.contains", fname, "%s: term %s in the segment's reader, model has %d postings there"
                                  % (tname, "present" if present else "absent", len(part)))
                        continue
                    if not part:
                        continue
                    stats["leaf_lists"] = stats.get("leaf_lists", 0) + 1
                    ids = list(lr.postings(fname, text).all_ids())
                    if ids != [d for d, _ in part]:
                        diffs.add("leaf.postings.id", fname, "%s: segment-relative ids %s expected %s"
                                  % (tname, short(ids), short([d for d, _ in part])))
                        continue
                    for rnd in (1, 2):
                        tinfo = lr.term_info(fname, text)
                        got = (tinfo.doc_frequency(), tinfo.min_id(), tinfo.max_id())
                        exp = (len(part), part[0][0], part[-1][0])
                        if got != exp:
                            diffs.add("leaf.terminfo", fname, "%s: the segment reader's term_info (call %d) gives (doc_frequency, "
                                      "min_id, max_id)=%r, its list has %r" % (tname, rnd, got, exp))
                            break
                except Exception as e:
                    diffs.exc("leaf(%s)" % tname, fname, e, "%d postings" % len(part))



# -------------------------------------------------------------------------
# shrinking and signatures

def fails(case, kind, budget):
    if budget[0] <= 0 or time.time() > budget[1]:
        budget[0] = 0
        return False
    budget[0] -= 1
    try:
        diffs, _ = execute(case)
    except core.HarnessError:
        return False
    return kind in diffs.d


def fmt_pairs():
    out = [(F, None) for F in FORMATS]
    out += [(F, F) for F in FORMATS]
    out += [(F, V) for F in FORMATS for V in FORMATS if F != V]
    return out


def ddmin(items, test, budget, floor=0):
    """Greedy chunk removal (halves, quarters, ... single items)."""
    chunk = max(1, len(items) // 2)
    while len(items) > floor and budget[0] > 0:
        i = 0
        progressed = False
        while i < len(items) and len(items) > floor and budget[0] > 0:
            cand = items[:i] + items[i + chunk:]
            if len(cand) >= floor and len(cand) < len(items) and test(cand):
                items = cand
                progressed = True
            else:
                i += chunk
        if chunk == 1:
            if not progressed:
                break
        else:
            chunk = max(1, chunk // 2)
    return items


def shrink(case, kind, fname, docnum, budget=200, seconds=10.0):
    """Delta-debug one failing case on the real code while the same
    discrepancy kind persists: one field, fewest documents, fewest and
    simplest tokens, default codec parameters, simplest write path, first
    failing (format, vector format) pair."""
    budget = [budget, time.time() + seconds]
    cur = json.loads(json.dumps(case))
    cur.pop("vector_as_docs", None)
    cur["docs"] = [norm_doc(d, cur["fields"]) for d in cur["docs"]]
    state = {"cur": cur}

    def attempt(cand):
        if fails(cand, kind, budget):
            state["cur"] = cand
            return True
        return False

    def restrict(c, f):
        c2 = dict(c)
        c2["fields"] = {f: c["fields"][f]}
        c2["docs"] = [dict(d, f=dict((k, v) for k, v in d.get("f", {}).items() if k == f))
                      for d in c["docs"]]
        return c2

    def with_doc(c, di, nd):
        return dict(c, docs=c["docs"][:di] + [nd] + c["docs"][di + 1:])

    # 1. the culprit document alone (cheapens everything after it)
    docs = state["cur"]["docs"]
    hinted = (docnum is not None and 0 <= docnum < len(docs) and len(docs) > 1
              and attempt(dict(state["cur"], docs=[docs[docnum]])))
    # 2. one field
    names = [fname] if fname in cur["fields"] else sorted(cur["fields"])
    if len(cur["fields"]) > 1:
        for f in names[:8]:
            if attempt(restrict(state["cur"], f)):
                break
    # 3. ddmin over documents
    if not hinted:
        ddmin(state["cur"]["docs"], lambda cand: attempt(dict(state["cur"], docs=cand)), budget, floor=1)
    def simplify_all():
        # every token of a stream at once (a needed frequency survives this)
        for di in range(len(state["cur"]["docs"])):
            d = state["cur"]["docs"][di]
            if d.get("b") not in (None, 1.0):
                nd = dict(d)
                nd.pop("b")
                attempt(with_doc(state["cur"], di, nd))
            for f in sorted(d.get("f", {})):
                for col, simple in ((0, 0), (1, 0), (2, 1)):
                    d = state["cur"]["docs"][di]
                    st2 = [list(t) for t in d["f"][f] or ()]
                    if all(t[col] == simple for t in st2):
                        continue
                    for t in st2:
                        t[col] = simple
                    attempt(with_doc(state["cur"], di, dict(d, f=dict(d["f"], **{f: st2}))))

    def normalise_config():
        if state["cur"]["codec"]["kind"] == "w3":
            for key in ("bl", "comp", "il", "compound"):
                c = state["cur"]["codec"]
                if c.get(key, DEFAULT_CODEC[key]) != DEFAULT_CODEC[key]:
                    attempt(dict(state["cur"], codec=dict(c, **{key: DEFAULT_CODEC[key]})))
        for path in ("writer", "fw", "fwp", "merge"):
            if path == state["cur"]["path"]:
                break
            if path == "merge" and state["cur"]["codec"]["kind"] != "w3":
                continue
            if attempt(dict(state["cur"], path=path)):
                break
        if state["cur"].get("alpha", "full") != "full":
            attempt(dict(state["cur"], alpha="full"))
        if (state["cur"]["codec"]["kind"] != "w3" and state["cur"]["path"] in ("writer", "fw", "fwp")
                and len(state["cur"]["fields"]) == 1):
            attempt(dict(state["cur"], codec=dict(DEFAULT_CODEC)))

    # 4. the cheap single-shot normalisations first (they decide the signature)
    if len(state["cur"]["docs"]) <= 4:
        simplify_all()
    normalise_config()
    # 5. fewest tokens
    for di in range(len(state["cur"]["docs"])):
        for f in sorted(state["cur"]["docs"][di].get("f", {})):
            stream = state["cur"]["docs"][di]["f"][f]
            if not stream:
                continue

            def test(cand, di=di, f=f):
                d = state["cur"]["docs"][di]
                return attempt(with_doc(state["cur"], di, dict(d, f=dict(d["f"], **{f: cand}))))
            ddmin(stream, test, budget)
    # 6. simplest tokens one by one
    for di in range(len(state["cur"]["docs"])):
        d = state["cur"]["docs"][di]
        for f in sorted(d.get("f", {})):
            if len(state["cur"]["docs"][di]["f"][f] or ()) > 6:
                continue
            for k in range(len(state["cur"]["docs"][di]["f"][f] or ())):
                for col, simple in ((1, 0), (2, 1), (0, 0)):
                    d = state["cur"]["docs"][di]
                    if d["f"][f][k][col] == simple:
                        continue
                    st2 = [list(t) for t in d["f"][f]]
                    st2[k][col] = simple
                    attempt(with_doc(state["cur"], di, dict(d, f=dict(d["f"], **{f: st2}))))
    if state["cur"].get("alpha", "full") != "full":
        attempt(dict(state["cur"], alpha="full"))
    # 7. first failing (format, vector format) pair
    cur = state["cur"]
    if len(cur["fields"]) == 1:
        f = list(cur["fields"])[0]
        F0, V0, sc0 = cur["fields"][f]
        for F, V in fmt_pairs():
            if (F, V) == (F0, V0):
                break
            if attempt(dict(state["cur"], fields={f: [F, V, sc0]})):
                break
    cur = state["cur"]
    # canonical field name
    if len(cur["fields"]) == 1:
        f = list(cur["fields"])[0]
        if f != "p":
            cur = dict(cur, fields={"p": cur["fields"][f]},
                       docs=[dict(d, f=dict(("p", v) for k, v in d.get("f", {}).items())) for d in cur["docs"]])
    cur["kind"] = kind
    return cur


def signature(case, kind, group=None):
    """Root-cause class: discrepancy kind (exception class + whoosh function
    for exceptions), codec, the codec parameters / write path / alphabet that
    the shrunk witness still needs; for value mismatches also the first
    failing format pair and the size class of the witness.  When the witness
    needs several fields, the observation that happens to differ is
    arbitrary (data of another field), so only its group is kept."""
    c = case["codec"]
    multi = len(case["fields"]) > 1
    if multi and group:
        kind = {"has_vector": "vector", "vector_as": "vector", "contains": "postings",
                "lexicon": "postings", "term_info": "terminfo"}.get(group, group)
    parts = [kind, c["kind"]]
    if multi:
        return "|".join(parts + ["multifield"])
    if c["kind"] == "w3":
        nd = ["%s=%s" % (k, c[k]) for k in ("bl", "comp", "il", "compound")
              if c.get(k, DEFAULT_CODEC[k]) != DEFAULT_CODEC[k]]
        if nd:
            parts.append(",".join(nd))
    if case["path"] != "writer":
        parts.append("path=" + case["path"])
    if case.get("alpha", "full") != "full":
        parts.append("alpha=" + case["alpha"])
    if "exc:" not in kind:
        F, V, _ = list(case["fields"].values())[0]
        if kind == "vector_as":
            parts.append("F!=V" if F != V else "F==V")
        else:
            parts.append("%s/%s" % (F, V))
    if "exc:" not in kind:
        nd = len(case["docs"])
        parts.append("docs=%s" % (nd if nd < 3 else "3+"))
    return "|".join(parts)


_SHRUNK = {}   # per process: preliminary signature -> (sig, shrunk case, what)
SHRINK_SECONDS_PER_TASK = 30.0


def primary_kinds(kinds):
    """Drop discrepancies that are mere consequences of an earlier one in the
    same case (aggregates of a list that already differs, the same number
    through a second accessor)."""
    ks = list(kinds)
    if any(k.startswith("postings.") for k in ks):
        ks = [k for k in ks if not (k.startswith("terminfo.") or k.startswith("reader."))]
    if "terminfo.weight" in ks:
        ks = [k for k in ks if k != "reader.frequency"]
    if "terminfo.doc_frequency" in ks:
        ks = [k for k in ks if k != "reader.doc_frequency"]
    if any(k in ks for k in ("postings.id", "postings.missing", "postings.extra")):
        ks = [k for k in ks if k != "postings.all_ids"]
    return ks


def report(acc, case, diffs, clock):
    for kind in primary_kinds(diffs.order):
        fname, detail, docnum, group = diffs.d[kind]
        c = case["codec"]
        pre = [kind, c["kind"], str(c.get("il")), case["path"], case.get("alpha", "full")]
        if fname is not None and fname in case["fields"] and kind != "vector_as":
            # the format that produced the differing value
            pre.append(str(case["fields"][fname][1 if group in ("vector", "has_vector") else 0]))
        pre = "|".join(pre)
        if pre not in _SHRUNK:
            t0 = time.time()
            if clock[0] > SHRINK_SECONDS_PER_TASK:
                # flooded: report unshrunk under the same signature scheme
                small = dict(json.loads(json.dumps(case)), kind=kind)
                small.pop("vector_as_docs", None)
                acc.violation(signature(small, kind, group), small, detail)
                continue
            small = shrink(case, kind, fname, docnum)
            d2, _ = execute(small)
            if kind in d2.d:
                what = d2.d[kind][1]
                group = d2.d[kind][3]
            else:
                small = dict(json.loads(json.dumps(case)), kind=kind)
                what = detail
            _SHRUNK[pre] = (signature(small, kind, group), small, what)
            clock[0] += time.time() - t0
        sig, small, what = _SHRUNK[pre]
        acc.violation(sig, small, what)


# -------------------------------------------------------------------------
# case families

def stream_docs(maxlen, gaps, terms=(0, 1, 2, 3), nboost=3):
    """Every token stream of length <= maxlen over terms x boosts x gaps,
    simplest first; one document each (same stream in every field); the
    document boost rotates through 1, 2, 0.5."""
    toks = [[t, b, g] for t in terms for b in range(nboost) for g in gaps]
    docs = []
    for L in range(maxlen + 1):
        for combo in itertools.product(toks, repeat=L):
            d = {"s": [list(t) for t in combo]}
            b = (None, 2.0, 0.5)[len(docs) % 3]
            if b:
                d["b"] = b
            docs.append(d)
    return docs


def list_ids(n, N, shape):
    if shape == 0:
        return list(range(n))
    if shape == 1:
        return list(range(N - n, N))
    return sorted(set((k * N) // n for k in range(n))) if n else []


def length_docs(lists, N):
    """lists: [(n, shape)]; four lists per field g<j> (terms 0..3).  Term t
    of field g<j> occurs in exactly n documents out of N (ids by shape:
    prefix / suffix / spread); frequencies 1..3 (now and then 12, so field
    lengths leave the exact range of the one-byte length code), boosts and
    gaps vary with (document, occurrence)."""
    nf = (len(lists) + 3) // 4
    fnames = ["g%03d" % j for j in range(nf)]
    docs = [{"f": {}} for _ in range(N)]
    for li, (n, shape) in enumerate(lists):
        j, t = divmod(li, 4)
        fname = fnames[j]
        for i in list_ids(n, N, shape):
            freq = 1 + (i * 7 + t * 3 + n) % 3
            if (i + t) % 11 == 5:
                freq = 12
            stream = docs[i]["f"].setdefault(fname, [])
            for k in range(freq):
                stream.append([t, (i + k + t) % 3, 1 + ((i + k) % 2) * 2])
    for i, d in enumerate(docs):
        b = (None, None, 2.0, 0.5)[i % 4]
        if b:
            d["b"] = b
    return fnames, docs


def vector_docs(maxk, fname="v"):
    """Documents whose vector has k = 0..maxk distinct terms (first k and
    last k terms of the 10-term extended alphabet)."""
    docs = []
    for k in range(maxk + 1):
        for tis in (list(range(k)), list(range(10 - k, 10))):
            stream = []
            for ti in tis:
                for r in range(1 + (k + ti) % 2):
                    stream.append([ti, (ti + r) % 3, 1 + (ti % 2) * 2])
            docs.append({"f": {fname: stream}})
    return docs


def special_docs():
    """Boundary values of the value encodings: frequencies / gaps around the
    pickle integer widths and byte 0x3d ('=')."""
    docs = []
    for freq in (1, 61, 255, 256):
        for gap in (1, 61, 256, 65536):
            docs.append({"s": [[len(docs) % 4, k % 3, gap] for k in range(freq)]})
    return docs


def w3_configs(bls, comps=(0, 3), ils=(1, 2), compounds=(True, False)):
    return [{"kind": "w3", "bl": bl, "comp": comp, "il": il, "compound": cp}
            for bl in bls for comp in comps for il in ils for cp in compounds]


def paths_for(codec):
    """(path, compound matters?)"""
    if codec["kind"] == "w3":
        return ["writer", "merge", "multiseg", "fw", "fwp", "pw"]
    if codec["kind"] == "mem":
        return ["writer", "batches", "fw", "fwp"]
    return ["writer", "fw", "fwp"]


def expand(codecs):
    """codec configs x write paths; the compound flag only exists on the
    IndexWriter paths."""
    out = []
    seen = set()
    for c in codecs:
        for path in paths_for(c):
            if c["kind"] == "w3" and path in ("fw", "fwp", "pw"):
                key = (c["bl"], c["comp"], c["il"], path)
                if key in seen:
                    continue
                seen.add(key)
            out.append((c, path))
    return out


def field_groups(vecs="all"):
    """One group per posting format: that format with every vector format
    (and none)."""
    out = []
    for F in FORMATS:
        fs = {}
        for i, V in enumerate([None] + FORMATS):
            if vecs == "same" and V not in (None, F):
                continue
            fs["%s_%d" % (F[:3].lower() + F[-3:].lower(), i)] = [F, V, True]
        out.append(fs)
    return out


def make_cases(t):
    """Expand one task descriptor into its cases (generators keep the
    task list small and picklable)."""
    fam = t["fam"]
    seed = t["seed"]
    base = {"seed": seed, "alpha": t.get("alpha", "full")}
    if fam == "stream":
        docs = stream_docs(t["maxlen"], t["gaps"], tuple(t.get("terms", (0, 1, 2, 3))))
        for c, path in t["configs"]:
            yield dict(base, fields=t["fields"], docs=docs, codec=c, path=path,
                       vector_as_docs=t.get("vector_as_docs", 40))
    elif fam == "special":
        docs = special_docs()
        for c, path in t["configs"]:
            yield dict(base, fields=t["fields"], docs=docs, codec=c, path=path)
    elif fam == "length":
        fnames, docs = length_docs([tuple(x) for x in t["lists"]], t["N"])
        F = t["F"]
        fields = dict((f, [F, F if t.get("vec", True) else None, t.get("scorable", True)]) for f in fnames)
        if t.get("vdocs"):
            fields["v"] = [F, F, True]
            vd = vector_docs(10)
            docs = [dict(d, f=dict(d["f"], **(vd[i]["f"] if i < len(vd) else {}))) for i, d in enumerate(docs)]
            docs += vd[len(docs):]
        for c, path in t["configs"]:
            yield dict(base, fields=fields, docs=docs, codec=c, path=path,
                       vector_as_docs=t.get("vector_as_docs", 24))
    else:
        raise core.HarnessError("family %r" % fam)


# ---------------------------------------------------------------------------
# several scorable fields with DIFFERENT lengths in the same document: term
# statistics of one field must not pick up another field's lengths

XF_LENS = (0, 1, 3, 40)


def xfield_case(lens, codecname, blocklimit):
    """lens: per document (la, lb, lc) token counts of fields fa, fb, fc."""
    from whoosh import fields
    from whoosh.filedb.filestore import RamStorage
    from whoosh.util.numeric import length_to_byte, byte_to_length
    schema = fields.Schema(fa=fields.KEYWORD(scorable=True), fb=fields.KEYWORD(scorable=True),
                           fc=fields.KEYWORD(scorable=True))
    ix = RamStorage().create_index(schema)
    if codecname == "w3":
        from whoosh.codec.whoosh3 import W3Codec
        w = ix.writer(codec=W3Codec(blocklimit=blocklimit))
    else:
        w = ix.writer()
    for row in lens:
        doc = {}
        for f, n in zip(("fa", "fb", "fc"), row):
            if n:
                # term "x" in every non-empty field, plus a per-field term
                doc[f] = u" ".join([u"x"] * (n - 1) + [u"y"]) if n > 1 else u"x"
        w.add_document(**doc)
    w.commit()
    res = []
    with ix.searcher() as s:
        r = s.reader()
        for fi, f in enumerate(("fa", "fb", "fc")):
            for term, has in ((u"x", lambda n: n >= 1), (u"y", lambda n: n > 1)):
                docs = [d for d, row in enumerate(lens) if has(row[fi])]
                if not docs:
                    continue
                exact = [lens[d][fi] for d in docs]
                approx = [byte_to_length(length_to_byte(x)) for x in exact]
                ti = r.term_info(f, term)
                for name, got, ex, ap in (("min_length", ti.min_length(), min(exact), min(approx)),
                                          ("max_length", ti.max_length(), max(exact), max(approx))):
                    if got not in (ex, ap):
                        res.append(("xfield|term_info.%s" % name,
                                    "lens %r field %s term %r: %s=%r, documents with the term have lengths %r"
                                    % (lens, f, term, name, got, exact)))
                for d in docs:
                    got = r.doc_field_length(d, f)
                    if got not in (lens[d][fi], byte_to_length(length_to_byte(lens[d][fi]))):
                        res.append(("xfield|doc_field_length", "lens %r: doc_field_length(%d, %s)=%r" % (lens, d, f, got)))
    ix.close()
    return res


def xfield_task(t):
    import itertools as it
    nsl, sl = t
    acc = core.Acc()
    rows = list(it.product(XF_LENS, repeat=3))
    i = 0
    for ndocs in (1, 2):
        for lens in it.product(rows, repeat=ndocs):
            i += 1
            if i % nsl != sl:
                continue
            for codecname, bl in (("w3", 1), ("default", None)):
                acc.count("evaluations")
                acc.count("xfield_cases")
                if len(set(x for row in lens for x in row if x)) > 1:
                    acc.count("distinct_nontrivial")
                try:
                    res = xfield_case([list(r) for r in lens], codecname, bl)
                except Exception as e:
                    res = [("xfield|exc:%s@%s" % (type(e).__name__, where(e)), "lens %r raised %r" % (lens, e))]
                for sig, detail in res:
                    acc.violation(sig, {"xfield": True, "lens": [list(r) for r in lens], "codec": codecname, "blocklimit": bl}, detail)
    return acc.result()


def task(t):
    if isinstance(t, tuple) and t and t[0] == "xfield":
        return xfield_task(t[1:])
    acc = core.Acc()
    t0 = time.time()
    c0 = time.process_time()
    try:
        _task(t, acc)
        acc.count("task_cpu_ms", int((time.process_time() - c0) * 1000))
        return acc.result()
    finally:
        if os.environ.get("C10_TIMING"):
            sys.stderr.write("C10_TIMING %.2f %s %s\n" % (time.time() - t0, t["fam"],
                             json.dumps(dict((k, v) for k, v in t.items() if k not in ("fields", "lists", "configs")))))


def _task(t, acc):
    clock = [0.0]
    for case in make_cases(t):
        acc.count("evaluations")
        diffs, stats = execute(case)
        for k, v in stats.items():
            acc.count(k, v)
        if stats.get("lists_ge2") and not any(k.startswith("exc:") and diffs.d[k][0] is None for k in diffs.order):
            acc.count("distinct_nontrivial")
        c = case["codec"]
        if c["kind"] == "w3" and c.get("il", 1) > 1 and stats.get("lists"):
            acc.count("inlinelimit_gt1_cases_read_back")
        acc.count("cases_%s_%s" % (c["kind"], case["path"]))
        if diffs.order:
            report(acc, case, diffs, clock)
        elif stats.get("lists"):
            acc.sample({"family": t["fam"], "codec": c, "path": case["path"],
                        "fields": dict(list(sorted(case["fields"].items()))[:2]),
                        "ndocs": len(case["docs"]), "stats": stats}, maxn=1)
    return acc.result()


def chunks(lst, n):
    return [lst[i:i + n] for i in range(0, len(lst), n)]


def plan(tier, seed):
    tasks = []
    quick = tier == "quick"
    mem = {"kind": "mem"}
    plain = {"kind": "plain"}
    allw3 = w3_configs((1, 2, 3, 128))

    # --- A. value content: every token stream, every format x vector format
    if quick:
        scfg = expand([c for c in allw3 if c["il"] == 1
                       and (c["compound"] == (c["bl"] in (1, 3)) ^ (c["comp"] == 0))]
                      + [mem])
        # each (config, path) once per format group
        for fs in field_groups():
            for part in chunks(scfg, 1):
                tasks.append({"fam": "stream", "seed": seed, "maxlen": 2, "gaps": [0, 1, 3],
                              "fields": fs, "configs": part})
        # inline limit 2 (currently dies in commit): every block size once
        il2 = expand([c for c in allw3 if c["il"] == 2 and c["comp"] == 3 and c["compound"]])
        for fs in field_groups("same"):
            tasks.append({"fam": "stream", "seed": seed, "maxlen": 1, "gaps": [0, 1, 3],
                          "fields": fs, "configs": il2})
    else:
        scfg = expand(allw3 + [mem])
        for fs in field_groups():
            for part in chunks(scfg, 3):
                tasks.append({"fam": "stream", "seed": seed, "maxlen": 2, "gaps": [0, 1, 3],
                              "fields": fs, "configs": part})
        # length 3 streams (13 825 documents): two W3 configurations x
        # {IndexWriter, merge, FieldWriter} and the memory codec
        big = [(c, p) for c in ({"kind": "w3", "bl": 2, "comp": 3, "il": 1, "compound": True},
                                {"kind": "w3", "bl": 128, "comp": 0, "il": 1, "compound": False})
               for p in ("writer", "merge", "fw")] + [(mem, "writer")]
        for fs in field_groups():
            for cp in big:
                tasks.append({"fam": "stream", "seed": seed, "maxlen": 3, "gaps": [1, 3],
                              "fields": fs, "configs": [cp], "vector_as_docs": 25})
    # plain-text codec: every lookup is a linear scan with literal_eval per
    # line, so short streams and two fields per case (format F with vector F,
    # next format with its vector: two vector fields per document); full
    # alphabet and the Latin-1 variant
    for alpha in ("full", "latin1"):
        for i, F in enumerate(FORMATS):
            G = FORMATS[(i + 1) % len(FORMATS)]
            fs = {"pa": [F, F, True], "pb": [G, G, True]}
            tasks.append({"fam": "stream", "seed": seed, "alpha": alpha, "maxlen": 1,
                          "gaps": [0, 1, 3], "fields": fs, "configs": expand([plain]),
                          "vector_as_docs": 12})
            tasks.append({"fam": "stream", "seed": seed, "alpha": alpha, "maxlen": 2,
                          "gaps": [1], "terms": [0, 2, 3], "fields": {"pa": [F, F, True]},
                          "configs": expand([plain]), "vector_as_docs": 8})
    # boundary values
    spc = expand([c for c in allw3 if c["il"] == 1 and c["compound"] and c["bl"] in (2, 128)] + [mem, plain])
    for fs in field_groups("same"):
        tasks.append({"fam": "special", "seed": seed, "fields": fs, "configs": spc})
        tasks.append({"fam": "special", "seed": seed, "alpha": "latin1", "fields": fs,
                      "configs": expand([plain])})

    # --- B. list lengths 0..3b+1 (+1) x id shapes, vectors of 0..10 terms
    for F in FORMATS:
        for bl in (1, 2, 3):
            lists = [(n, sh) for n in range(0, 3 * bl + 3) for sh in range(3)]
            cfgs = expand(w3_configs((bl,)))
            for part in chunks(cfgs, 8):
                tasks.append({"fam": "length", "seed": seed, "F": F, "lists": lists,
                              "N": 3 * bl + 2, "vdocs": True, "configs": part})
        lists = [(n, sh) for n in range(0, 12) for sh in range(3)]
        tasks.append({"fam": "length", "seed": seed, "F": F, "lists": lists, "N": 11,
                      "vdocs": True, "configs": expand([mem])})
        for alpha in ("full", "latin1"):
            tasks.append({"fam": "length", "seed": seed, "alpha": alpha, "F": F,
                          "lists": [(n, n % 3) for n in range(0, 8)],
                          "N": 7, "vdocs": True, "configs": expand([plain]), "vector_as_docs": 4})
        # non-scorable field (no stored lengths), no vectors
        tasks.append({"fam": "length", "seed": seed, "F": F, "lists": [(n, n % 3) for n in range(0, 8)],
                      "N": 7, "scorable": False, "vec": False,
                      "configs": expand(w3_configs((1, 2, 128), ils=(1,)) + [mem])})
        # block limit 128
        if quick:
            ns = [0, 1, 2] + [m * 128 + d for m in (1, 2, 3) for d in (-2, -1, 0, 1, 2) if m * 128 + d <= 385]
            groups = [[(n, n % 3) for n in ns]]
        else:
            groups = chunks([(n, n % 3) for n in range(0, 386)], 32)
        cfgs = expand(w3_configs((128,)))
        if not quick:
            cfgs = [(c, p) for c, p in cfgs if p != "merge" or c["il"] == 1]
        for g in groups:
            N = max(1, max(n for n, _ in g))
            for part in chunks(cfgs, 4 if quick else 3):
                tasks.append({"fam": "length", "seed": seed, "F": F, "lists": g, "N": N,
                              "configs": part, "vector_as_docs": 4})
        if not quick:
            g = [(n, (n + 1) % 3) for n in (1, 127, 128, 129, 255, 256, 257, 383, 384, 385)]
            tasks.append({"fam": "length", "seed": seed, "F": F, "lists": g, "N": 385,
                          "configs": expand([mem]), "vector_as_docs": 4})
    return tasks


def run(ctx):
    tasks = plan(ctx.tier, ctx.seed)
    # simplest first: small corpora before big ones
    ctx.rule = (
        "a case = (corpus, field formats, codec configuration, write path), each enumerated once. "
        "Corpora: (A) every token stream of length <=2 (thorough: <=3) over 4 terms x 3 boosts x "
        "position/character gaps, one document per stream, fed to one field per (posting format x "
        "vector format or none); boundary frequencies/gaps 61,255,256,65536; (B) for block limit "
        "b in {1,2,3}: posting lists of every length 0..3b+2 in three id shapes (prefix, suffix, "
        "spread) and vectors of 0..10 terms; b=128: lengths 0..385 (quick: 0,1,2 and +-2 around "
        "128,256,384). Codecs: W3(blocklimit x compression {0,3} x inlinelimit {1,2}) on disk as "
        "compound file and loose files, MemoryCodec, PlainTextCodec (short corpora). Paths: "
        "IndexWriter, IndexWriter + optimising merge, IndexWriter with 2-3 segments kept apart (read through the "
        "multi-segment reader - MultiMatcher, combined term infos - and afterwards through each segment's own reader "
        "with segment-relative ids), MemoryCodec written by several writers in turn, PerDocumentWriter+FieldWriter calls, "
        "FieldWriter.add_postings, W3 PostingsWriter/postings_reader. Every posting (id, weight, "
        "value_as each supported type), term_info (asked twice), lexicon, vector and vector_as is compared with "
        "the token model. A case is non-trivial when it committed and at least one posting list "
        "with >=2 postings was read back.")
    ctx.assumptions = [
        "weights compared with relative tolerance 1e-6 (float32 round trip is documented); positions, "
        "characters, ids, frequencies exactly",
        "term_info min/max length may be the exact length or its one-byte approximation "
        "byte_to_length(length_to_byte(x)); not compared for the plain-text codec (length_stats=False) "
        "or non-scorable fields",
        "value_as('weight') is not compared (formats.py documents that it ignores boosts); Existence "
        "reports frequency 1 and weight = field boost x document boost, as its docstring says",
        "an absent term (list length 0) must not be in the reader / lexicon; an empty posting list "
        "is never written through the codec API",
        "has_vector is not checked for a document whose field value produced no tokens",
        "vector_as is evaluated on the first 4-40 documents of each corpus (same code for all documents)",
        "plain-text codec: only corpora of <=160 documents (every lookup is a linear scan); merging "
        "plain-text segments is unsupported (PlainSegment has no doc_count_all) and not attempted",
    ]
    ctx.extra["tasks"] = len(tasks)
    ctx.extra["formats"] = FORMATS
    ctx.extra["alphabet"] = [t if len(t) < 12 else "%s...(%d chars, %d bytes)" % (t[:3], len(t), len(t.encode("utf8")))
                             for t in alphabet(ctx.seed)[0][:4]]
    ctx.extra["boosts"] = alphabet(ctx.seed)[1]
    ctx.extra["w3_configs"] = "blocklimit {1,2,3,128} x compression {0,3} x inlinelimit {1,2} x {compound, loose}"
    ctx.extra["write_paths"] = ["writer", "merge", "fw", "fwp", "pw"]
    ctx.pmap(task, tasks + [("xfield", 16, sl) for sl in range(16)])
    cn = ctx.counters
    if cn.get("multiblock_lists", 0) < 100 or cn.get("multiblock_vectors", 0) < 100:
        raise core.HarnessError("vacuous: multi-block lists %s, multi-block vectors %s"
                                % (cn.get("multiblock_lists"), cn.get("multiblock_vectors")))
    if cn.get("postings", 0) < 10000 or cn.get("vectors", 0) < 1000:
        raise core.HarnessError("vacuous: %s postings, %s vectors read back"
                                % (cn.get("postings"), cn.get("vectors")))


def replay(case):
    core.setup_process(case.get("seed", 0))
    if case.get("xfield"):
        res = xfield_case(case["lens"], case["codec"], case["blocklimit"])
        return {"ok": not res, "what": res}
    diffs, stats = execute(case)
    kinds = list(diffs.order)
    want = case.get("kind")
    if want is not None and want in diffs.d:
        what = diffs.d[want][1]
    elif kinds:
        what = "; ".join("%s: %s" % (k, diffs.d[k][1]) for k in kinds[:4])
    else:
        what = "read back == token model"
    return {"ok": not kinds, "what": what, "kinds": kinds, "stats": stats}
