"""C13 - numeric and date fields order and range-match exactly.

E1 (bounded-exhaustive, real code against a plain-Python oracle):

 (a) 8-bit signed/unsigned, exhaustively: the sortable encoding is a strictly
     monotone bijection onto 0..255 and to_bytes/from_bytes (and the column
     value) round-trip; split_ranges as a pure function for EVERY start<=end
     and step 1..8, tiered_ranges for EVERY (start, end, startexcl, endexcl)
     incl. None and step 0..8: the pieces must tile exactly the requested
     interval; NumericRange on a real index holding every value (and one with
     holes, duplicates and three segments) for every (start, end, startexcl,
     endexcl) incl. None; sortedby order.
 (b) boundary alphabets (~30-45 values) for 16/32/64-bit ints signed and
     unsigned, floats, Decimal (decimal_places=2) and DATETIME: every ordered
     pair as (start, end) x four exclusivity combinations x shift_step against
     an index holding the whole alphabet, through NumericRange/DateRange,
     search() and the query parser; Term per value; lexicon / column / sort
     round trips through the sortable encodings.
 (b') tiers: the same index-backed inclusive family (every start<=end pair
     of the alphabet incl. unbounded ends) plus the lexicon / column / sort
     round trips for EVERY remaining shift_step 1..8 on every width and
     number type, so that the terms the indexing side writes per precision
     tier and the tiers the query side asks for are compared for every step -
     in particular the steps that do not divide the bit width (3, 5, 6, 7),
     whose coarsest tier is a partial one.
 (c) domain: min-1, max+1, wrapping and overflowing values must be rejected
     at indexing time, by the field API, by NumericRange and by the parser.

Oracle: Python's own comparison on the original values."""
import datetime
import math
import random
import struct
import traceback
from decimal import Decimal

from mc import core

PID = "C13"
LEVEL = "exploration"

PLACES = 2
INF = float("inf")
DT_MIN = datetime.datetime.min
DT_MAX = datetime.datetime.max
DT_TOP = ((DT_MAX - DT_MIN).days * 86400 + (DT_MAX - DT_MIN).seconds) * 1000000 \
    + (DT_MAX - DT_MIN).microseconds

# name -> (kind, bits, signed)
CFGS = {
    "i8s": ("int", 8, True), "i8u": ("int", 8, False),
    "i16s": ("int", 16, True), "i16u": ("int", 16, False),
    "i32s": ("int", 32, True), "i32u": ("int", 32, False),
    "i64s": ("int", 64, True), "i64u": ("int", 64, False),
    "f64": ("float", 64, True), "f64u": ("float", 64, False),
    "dec32s": ("dec", 32, True), "dec64u": ("dec", 64, False),
    "dt": ("dt", 64, True),
}
WIDE = ["i8s", "i8u", "i16s", "i16u", "i32s", "i32u", "i64s", "i64u",
        "f64", "f64u", "dec32s", "dec64u", "dt"]


# ---------------------------------------------------------------------------
# configurations, values, JSON coding

def make_field(cfg, step, sortable=False):
    from whoosh import fields
    kind, bits, signed = CFGS[cfg]
    if kind == "int":
        return fields.NUMERIC(int, bits, signed=signed, shift_step=step, sortable=sortable)
    if kind == "float":
        return fields.NUMERIC(float, signed=signed, shift_step=step, sortable=sortable)
    if kind == "dec":
        return fields.NUMERIC(int, bits, decimal_places=PLACES, signed=signed,
                              shift_step=step, sortable=sortable)
    if kind == "dt":
        return fields.DATETIME(sortable=sortable)
    raise ValueError(cfg)


def steps_of(cfg, steps):
    # DATETIME has no shift_step argument (fixed at 8)
    return [8] if CFGS[cfg][0] == "dt" else list(steps)


def int_dom(bits, signed):
    if signed:
        return -(1 << (bits - 1)), (1 << (bits - 1)) - 1
    return 0, (1 << bits) - 1


def dom(cfg):
    kind, bits, signed = CFGS[cfg]
    if kind == "int":
        return int_dom(bits, signed)
    if kind == "dec":
        lo, hi = int_dom(bits, signed)
        return Decimal(lo).scaleb(-PLACES), Decimal(hi).scaleb(-PLACES)
    if kind == "float":
        return (-INF if signed else 0.0), INF
    return DT_MIN, DT_MAX


def enc(kind, v):
    if v is None:
        return None
    if kind == "dec":
        return str(v)
    if kind == "dt":
        return v.isoformat()
    return v


def dec(kind, j):
    if j is None:
        return None
    if kind == "dec":
        return Decimal(j)
    if kind == "dt":
        return datetime.datetime.fromisoformat(j)
    if kind == "float" and isinstance(j, int) and abs(j) < 10 ** 300:
        return float(j)
    return j


def okey(kind, v):
    """Sort key of the oracle order (floats: -0.0 before 0.0)."""
    if kind == "float":
        return (v, math.copysign(1.0, v))
    return v


def same(kind, a, b):
    try:
        return type(b) is not bool and a == b
    except Exception:
        return False


def scaled_ints(bits, signed, seed):
    lo, hi = int_dom(bits, signed)
    offs = [0, 1, 2, 15, 16, 17, 255, 256, 257]
    mid = (lo + hi + 1) // 2
    half = 1 << (bits // 2)
    vals = set()
    for o in offs:
        vals.update((lo + o, hi - o, mid + o, mid - o))
    vals.update((mid + half, mid + half - 1, mid - half, mid - half + 1))
    # two seed-rotated interior values
    span = hi - lo
    vals.update((lo + span // 3 + 7 * seed, lo + 2 * (span // 3) - 11 * seed))
    return sorted(v for v in vals if lo <= v <= hi)


def alphabet(cfg, seed=0):
    kind, bits, signed = CFGS[cfg]
    if kind == "int":
        return scaled_ints(bits, signed, seed)
    if kind == "dec":
        lo, hi = int_dom(bits, signed)
        ints = set(scaled_ints(bits, signed, seed))
        ints.update(v for v in (5, -5, 50, -50, 99, 100, 101, -99, -100, -101, 12345, -12345)
                    if lo <= v <= hi)
        return [Decimal(i).scaleb(-PLACES) for i in sorted(ints)]
    if kind == "float":
        eps = 2.0 ** -52
        den = 5e-324
        pos = [den, 2 * den, 2.2250738585072009e-308, 2.2250738585072014e-308,
               1e-300, 0.1, 1.0 / 3, 0.5, 1.0 - eps / 2, 1.0, 1.0 + eps, 2.0,
               math.pi, 123456.789 + seed, 2.0 ** 53, 2.0 ** 53 + 2, 1e300,
               1.7976931348623157e308, INF]
        vals = [0.0] + pos
        if signed:
            vals = [-x for x in pos] + [-0.0] + vals
        return sorted(vals, key=lambda v: okey("float", v))
    # datetimes: offsets from datetime.min in microseconds
    ks = {0, 1, 2, 255, 256, 257, 65535, 65536, 2 ** 24 - 1, 2 ** 24, 2 ** 32 - 1, 2 ** 32,
          2 ** 32 + 1, 2 ** 40 - 1, 2 ** 40, 2 ** 48 - 1, 2 ** 48, 2 ** 56 - 1, 2 ** 56,
          2 ** 56 + 1, 2 ** 58 - 1, 2 ** 58, DT_TOP - 256, DT_TOP - 255, DT_TOP - 2,
          DT_TOP - 1, DT_TOP}
    vals = set(DT_MIN + datetime.timedelta(microseconds=k) for k in ks)
    vals.update((datetime.datetime(1969, 12, 31, 23, 59, 59, 999999),
                 datetime.datetime(1970, 1, 1), datetime.datetime(1970, 1, 1, 0, 0, 0, 1),
                 datetime.datetime(2000, 2, 29, 12, 34, 56, 789012),
                 datetime.datetime(2038, 1, 19, 3, 14, 7), datetime.datetime(2038, 1, 19, 3, 14, 8),
                 datetime.datetime(2026, 9, 24, 4, 0, 0, 123456) + datetime.timedelta(days=seed)))
    return sorted(vals)


def outside(cfg):
    """Values just outside / far outside the domain (none for DATETIME: Python
    cannot build such a datetime)."""
    kind, bits, signed = CFGS[cfg]
    if kind in ("int", "dec"):
        lo, hi = int_dom(bits, signed)
        ints = [lo - 1, hi + 1, hi + (1 << bits), lo - (1 << bits), lo + (1 << bits),
                10 ** 30, -10 ** 30]
        ints = sorted(set(i for i in ints if i < lo or i > hi))
        if kind == "int":
            return ints + [INF, -INF]
        return [Decimal(i).scaleb(-PLACES) for i in ints] + [Decimal("Infinity"), Decimal("-Infinity")]
    if kind == "float":
        out = [10 ** 400, -10 ** 400]
        if not signed:
            out += [-5e-324, -1.0, -INF]
        return out
    return []


# ---------------------------------------------------------------------------
# oracle

def expect(kind, v, start, end, se, ee):
    """True / False / None (don't care: +0.0 against -0.0)."""
    dc = False
    if start is not None:
        if kind == "float" and v == 0 and start == 0 and \
                math.copysign(1, v) != math.copysign(1, start):
            dc = True
        elif (v <= start) if se else (v < start):
            return False
    if end is not None:
        if kind == "float" and v == 0 and end == 0 and \
                math.copysign(1, v) != math.copysign(1, end):
            dc = True
        elif (v >= end) if ee else (v > end):
            return False
    return None if dc else True


def where(e):
    tb = traceback.extract_tb(e.__traceback__)
    fr = [f for f in tb if "/whoosh/" in f.filename] or list(tb)
    return "%s:%s" % (fr[-1].filename.split("/")[-1], fr[-1].name)


def exc_kind(e):
    return "exc:%s@%s" % (type(e).__name__, where(e))


# ---------------------------------------------------------------------------
# pure decomposition model

def tile(pieces, bits, step, s, e):
    """pieces: (a, b, shift) as produced by split_ranges / tiered_ranges.  A
    piece selects the terms of tier ``shift`` whose shifted value lies in
    [a>>shift, b>>shift] (that is how NumericRange turns it into a
    Term/TermRange), i.e. the values v with a>>shift <= v>>shift <= b>>shift.
    Returns None when the pieces tile [s, e] (nothing when s > e) exactly,
    else the discrepancy kind."""
    top = (1 << bits) - 1
    ivs = []
    nshift = set()
    for a, b, sh in pieces:
        if sh < 0 or sh >= bits or (sh and (not step or sh % step)):
            return "bad-shift", 0
        pa, pb = a >> sh, b >> sh
        if pa < 0 or pb < 0 or pa > top or pb > top:
            return "unpackable", 0
        nshift.add(sh)
        if pa > pb:
            continue
        ivs.append((pa << sh, min(((pb + 1) << sh) - 1, top)))
    ivs.sort()
    total = 0
    merged = []
    for l, h in ivs:
        total += h - l + 1
        if merged and l <= merged[-1][1] + 1:
            merged[-1][1] = max(merged[-1][1], h)
        else:
            merged.append([l, h])
    s, e = max(s, 0), min(e, top)
    want = [[s, e]] if s <= e else []
    if merged == want:
        if total != sum(h - l + 1 for l, h in merged):
            return "overlap", len(nshift)
        return None, len(nshift)
    if not want:
        return "extra", len(nshift)
    if any(l < s or h > e for l, h in merged):
        return "extra", len(nshift)
    return "missing", len(nshift)


def pure_split(bits, step, s, e):
    from whoosh.util.numeric import split_ranges
    try:
        pieces = list(split_ranges(bits, step, s, e))
    except Exception as ex:
        return exc_kind(ex), "split_ranges(%d, %d, %d, %d) raised %r" % (bits, step, s, e, ex), 0
    kind, nsh = tile(pieces, bits, step, s, e)
    if kind is None:
        return None, None, nsh
    return kind, "split_ranges(intsize=%d, step=%d, start=%d, end=%d) -> %r does not tile [start, end] (%s)" \
        % (bits, step, s, e, pieces, kind), nsh


def sortable_of(cfg, field, v):
    """whoosh's own sortable integer of an in-domain value (its monotonicity
    is checked separately by the encoding tasks)."""
    from whoosh.util.numeric import to_sortable
    from whoosh.util.times import datetime_to_long
    kind, bits, signed = CFGS[cfg]
    if kind == "dt":
        x = datetime_to_long(v)
    else:
        x = field.prepare_number(v)
    return to_sortable(field.numtype, field.bits, field.signed, x)


def want_interval(cfg, field, start, end, se, ee):
    bits = CFGS[cfg][1]
    s = 0 if start is None else sortable_of(cfg, field, start) + (1 if se else 0)
    e = (1 << bits) - 1 if end is None else sortable_of(cfg, field, end) - (1 if ee else 0)
    return s, e


def root_of(cfg, field, step, start, end, se, ee, known=None):
    """Which stage of the decomposition is already wrong for this interval
    (violation signatures are keyed by it).  None: the decomposition is fine
    and the discrepancy arises later (indexed terms / term expansion /
    matching)."""
    bits = CFGS[cfg][1]
    try:
        s, e = want_interval(cfg, field, start, end, se, ee)
        k = known or pure_tiered(cfg, field, step, start, end, se, ee)[0]
    except Exception:
        return None
    if not k:
        return None
    if s > (1 << bits) - 1 or e < 0:
        return "tiered_ranges:exclusive-bound-at-domain-edge"
    if s > e:
        return "tiered_ranges:start>end"
    if step and pure_split(bits, step, s, e)[0]:
        return "split_ranges"
    # split_ranges is right on the wanted interval: the bounds handed to it are not
    return "tiered_ranges:bounds"


def pure_tiered(cfg, field, step, start, end, se, ee):
    from whoosh.util.numeric import tiered_ranges
    from whoosh.util.times import datetime_to_long
    kind, bits, signed = CFGS[cfg]

    def prep(v):
        if v is None:
            return None
        return datetime_to_long(v) if kind == "dt" else field.prepare_number(v)
    s, e = want_interval(cfg, field, start, end, se, ee)
    try:
        pieces = list(tiered_ranges(field.numtype, bits, field.signed, prep(start), prep(end),
                                    step, se, ee))
    except Exception as ex:
        return exc_kind(ex), "tiered_ranges raised %r" % (ex,), 0
    k, nsh = tile(pieces, bits, step, s, e)
    if k is None:
        return None, None, nsh
    return k, "tiered_ranges(%s, bits=%d, signed=%s, start=%r, end=%r, step=%d, startexcl=%s, endexcl=%s) -> %r " \
        "does not tile the sortable interval [%d, %d] (%s)" \
        % (field.numtype.__name__, bits, field.signed, start, end, step, se, ee, pieces, s, e, k), nsh


# ---------------------------------------------------------------------------
# real indexes

def present8(u, seed):
    return (((u >> 2) * 5 + (u >> 5) + seed) % 3 != 0) and (u % 11 != 5)


def index_values(cfg, ixname, seed):
    """(values per document number, segment sizes).  Document order is
    scrambled so document order never equals value order."""
    kind, bits, signed = CFGS[cfg]
    if ixname == "full":
        lo, hi = dom(cfg)
        vals = [lo + (i * 37 + 11 + seed) % 256 for i in range(256)]
        return vals, [256]
    if ixname == "holes":
        lo, hi = dom(cfg)
        base = []
        for u in range(256):
            if present8(u, seed):
                base.append(lo + u)
                if u % 4 == 1:
                    base.append(lo + u)
    else:
        base = alphabet(cfg, seed)
        base = base + base[:2] + base[-2:]
    n = len(base)
    order = sorted(range(n), key=lambda i: ((i * 7919 + seed * 13) % 10007, i))
    vals = [base[i] for i in order]
    if ixname == "holes":
        a = n // 3
        return vals, [a, a, n - 2 * a]
    a = n // 2
    return vals, [a, n - a]


def build(cfg, step, ixname, seed, sortable=True):
    from whoosh import fields
    from whoosh.filedb.filestore import RamStorage
    random.seed(seed)
    vals, segs = index_values(cfg, ixname, seed)
    schema = fields.Schema(n=make_field(cfg, step, sortable=sortable),
                           m=make_field(cfg, step, sortable=False))
    ix = RamStorage().create_index(schema)
    pos = 0
    for n in segs:
        w = ix.writer()
        for v in vals[pos:pos + n]:
            w.add_document(n=v, m=v)
        w.commit(merge=False)
        pos += n
    return ix, vals


class BuildFailed(Exception):
    """In-domain values could not be indexed at all (reported as a violation)."""

    def __init__(self, sig, case, what):
        Exception.__init__(self, what)
        self.sig, self.case, self.what = sig, case, what


class Env(object):
    def __init__(self, cfg, step, ixname, seed):
        from whoosh.qparser import QueryParser
        self.cfg, self.step, self.ixname, self.seed = cfg, step, ixname, seed
        self.kind, self.bits, self.signed = CFGS[cfg]
        self.colerr = None
        try:
            self.ix, self.vals = build(cfg, step, ixname, seed)
        except Exception as ex:
            # a sortable (column) field that cannot be written at all is
            # reported once by index_level(); everything else runs without it
            self.colerr = (exc_kind(ex), "indexing into %s with sortable=True raised %r at %s"
                           % (cfg, ex, where(ex)))
            try:
                self.ix, self.vals = build(cfg, step, ixname, seed, sortable=False)
            except Exception as ex2:
                raise BuildFailed("indexing|%s|%s" % (self.kind, exc_kind(ex2)),
                                  {"mode": "build", "cfg": cfg, "step": step, "index": ixname, "seed": seed},
                                  "indexing the in-domain values of the %s index of %s (shift_step=%d) raised %r at %s"
                                  % (ixname, cfg, step, ex2, where(ex2)))
        self.s = self.ix.searcher()
        self.field = self.ix.schema["n"]
        self.qp = QueryParser("n", self.ix.schema)
        self.ndocs = len(self.vals)

    def close(self):
        try:
            self.s.close()
            self.ix.close()
        except Exception:
            pass

    def base(self, mode):
        return {"mode": mode, "cfg": self.cfg, "step": self.step, "index": self.ixname,
                "seed": self.seed}


def text_of(kind, v):
    if kind == "dec":
        return format(v, "f")
    if kind == "float":
        return repr(float(v))
    return str(v)


def range_text(kind, start, end, se, ee):
    return "n:%s%sTO%s%s" % ("{" if se else "[", "" if start is None else text_of(kind, start) + " ",
                              "" if end is None else " " + text_of(kind, end), "}" if ee else "]")


def make_range(env, start, end, se, ee, path):
    from whoosh import query
    if path == "parser":
        return env.qp.parse(range_text(env.kind, start, end, se, ee))
    if env.kind == "dt":
        return query.DateRange("n", start, end, se, ee)
    return query.NumericRange("n", start, end, se, ee)


def run_query(env, q, path):
    if path == "search":
        r = env.s.search(q, limit=None)
        got = [d for _, d in r.top_n]
        if len(r) != len(got):
            return got, "len(results)=%d but %d hits" % (len(r), len(got))
    else:
        got = list(env.s.docs_for_query(q))
    if len(set(got)) != len(got):
        return got, "duplicate document numbers %r" % (got,)
    return got, None


def range_case(env, start, end, se, ee, path="docs"):
    """Runs one range query on the real index.  Returns (kind, what, trivial)."""
    try:
        q = make_range(env, start, end, se, ee, path)
        got, bad = run_query(env, q, path)
    except Exception as ex:
        return exc_kind(ex), "%s raised %r at %s" % (describe(env, start, end, se, ee, path), ex, where(ex)), True
    if bad:
        return "dup", "%s: %s" % (describe(env, start, end, se, ee, path), bad), True
    kind = env.kind
    vals = env.vals
    yes = set()
    dc = set()
    for i, v in enumerate(vals):
        x = expect(kind, v, start, end, se, ee)
        if x:
            yes.add(i)
        elif x is None:
            dc.add(i)
    gs = set(got)
    extra = gs - yes - dc
    missing = yes - gs
    trivial = (not yes) or len(yes) == len(vals)
    env.last_missing = [vals[i] for i in sorted(missing)]
    if not extra and not missing:
        return None, None, trivial
    k = "extra" if extra else "missing"
    what = "%s returned values %s; expected %s (extra %s, missing %s)" % (
        describe(env, start, end, se, ee, path),
        brief(sorted((vals[i] for i in gs), key=lambda v: okey(kind, v))),
        brief(sorted((vals[i] for i in yes), key=lambda v: okey(kind, v))),
        brief(sorted((vals[i] for i in extra), key=lambda v: okey(kind, v))),
        brief(sorted((vals[i] for i in missing), key=lambda v: okey(kind, v))))
    return k, what, trivial


def brief(lst, n=8):
    lst = [str(x) for x in lst]
    if len(lst) <= n:
        return "[" + ", ".join(lst) + "]"
    return "[" + ", ".join(lst[:n // 2]) + ", ... (%d values) ..., " % len(lst) + ", ".join(lst[-n // 2:]) + "]"


def describe(env, start, end, se, ee, path):
    kind, bits, signed = CFGS[env.cfg]
    f = {"int": "NUMERIC(int, %d, signed=%s, shift_step=%d)" % (bits, signed, env.step),
         "float": "NUMERIC(float, signed=%s, shift_step=%d)" % (signed, env.step),
         "dec": "NUMERIC(int, %d, decimal_places=%d, signed=%s, shift_step=%d)" % (bits, PLACES, signed, env.step),
         "dt": "DATETIME"}[kind]
    if path == "parser":
        qd = "parse(%r)" % range_text(kind, start, end, se, ee)
    else:
        qd = "%s('n', %r, %r, startexcl=%s, endexcl=%s)" % (
            "DateRange" if kind == "dt" else "NumericRange", start, end, se, ee)
    return "%s over %s [%s index, %d docs] via %s" % (qd, f, env.ixname, env.ndocs, path)


def range_sig(env, start, end, se, ee, path, kind, direct_ok=None):
    """Signature = root cause class + discrepancy kind."""
    if path != "docs" and direct_ok:
        return "%s-path|%s|%s" % (path, env.kind, kind)
    root = root_of(env.cfg, env.field, env.step, start, end, se, ee)
    if root:
        if kind.startswith("exc:error@fields.py:sortable_to_bytes"):
            kind = "unpackable"     # the same thing as seen by the pure check
        return "%s|%s" % (root, kind)
    if kind == "missing":
        absent = absent_tier(env, start, end, se, ee)
        if absent is not None:
            return "indexed-tiers|%s|%s" % (env.kind, absent)
    return "search|%s|%s" % (env.kind, kind)


def tier_pieces(env, start, end, se, ee):
    """the (a, b, shift) pieces of the (correct, see root_of) decomposition"""
    from whoosh.util.numeric import tiered_ranges
    from whoosh.util.times import datetime_to_long
    field = env.field

    def prep(v):
        if v is None:
            return None
        return datetime_to_long(v) if env.kind == "dt" else field.prepare_number(v)
    return list(tiered_ranges(field.numtype, env.bits, field.signed, prep(start), prep(end),
                              env.step, se, ee))


def absent_tier(env, start, end, se, ee):
    """The decomposition of the interval is right but a document inside it was
    not found: is the term of that document's value at the precision tier the
    decomposition uses for it absent from the index?  Returns a root-cause
    label (the indexing side did not write that tier) or None."""
    try:
        reader = env.s.reader()
        pieces = tier_pieces(env, start, end, se, ee)
        for v in getattr(env, "last_missing", ())[:4]:
            x = sortable_of(env.cfg, env.field, v)
            for a, b, sh in pieces:
                if (a >> sh) <= (x >> sh) <= (b >> sh):
                    if sh and ("n", env.field.to_bytes(v, sh)) not in reader:
                        top = sh + env.step >= env.bits
                        return "%s-tier-term-absent%s" % (
                            "top" if top else "coarse",
                            "(step-does-not-divide-width)" if env.bits % env.step else "")
    except Exception:
        return None
    return None


def report_range(acc, env, start, end, se, ee, path, kind, what, direct_ok=None):
    case = env.base("range")
    case.update({"start": enc(env.kind, start), "end": enc(env.kind, end), "se": se, "ee": ee,
                 "path": path})
    acc.violation(range_sig(env, start, end, se, ee, path, kind, direct_ok), case, what)


# ---------------------------------------------------------------------------
# 8-bit families

def fam8(lo, hi, family, step):
    W = 2 * (1 << min(step or 4, 4)) + 1
    allx = ((False, False), (True, False), (False, True), (True, True))
    exc = allx[1:]
    if family == "incl":
        yield (None, None, False, False)
        for w in range(256):
            for a in range(lo, hi - w + 1):
                yield (a, a + w, False, False)
        for a in range(lo, hi + 1):
            yield (a, None, False, False)
            yield (None, a, False, False)
    elif family in ("excl_narrow", "excl_wide"):
        narrow_wanted = family == "excl_narrow"
        if narrow_wanted:
            for se, ee in exc:
                yield (None, None, se, ee)
        for w in range(256):
            for a in range(lo, hi - w + 1):
                b = a + w
                narrow = w <= W or a <= lo + 2 or b >= hi - 2
                if narrow != narrow_wanted:
                    continue
                for se, ee in exc:
                    yield (a, b, se, ee)
        if narrow_wanted:
            for a in range(lo, hi + 1):
                for se, ee in exc:
                    yield (a, None, se, ee)
                    yield (None, a, se, ee)
    elif family == "edge":
        # exclusive bounds next to the domain edges / unbounded ends only
        for se, ee in exc:
            yield (None, None, se, ee)
        for w in range(256):
            for a in range(lo, hi - w + 1):
                b = a + w
                if a <= lo + 2 or b >= hi - 2:
                    for se, ee in exc:
                        yield (a, b, se, ee)
        for a in range(lo, hi + 1):
            for se, ee in exc:
                yield (a, None, se, ee)
                yield (None, a, se, ee)
    elif family == "inv_narrow":
        for w in (1, 2):
            for b in range(lo, hi - w + 1):
                for se, ee in allx:
                    yield (b + w, b, se, ee)
    elif family == "inv_wide":
        for w in range(3, 256):
            for b in range(lo, hi - w + 1):
                yield (b + w, b, False, False)
    else:
        raise ValueError(family)


def all8(lo, hi):
    """Every (start, end, startexcl, endexcl) incl. None, simplest first."""
    allx = ((False, False), (True, False), (False, True), (True, True))
    vals = [None] + list(range(lo, hi + 1))
    for a in vals:
        for b in vals:
            for se, ee in allx:
                yield a, b, se, ee


# ---------------------------------------------------------------------------
# encoding checks (field level)

def enc_root(env_field, cfg, v):
    """Is prepare/unprepare alone already wrong for this value?"""
    kind = CFGS[cfg][0]
    if kind != "dec":
        return None
    try:
        back = env_field.unprepare_number(env_field.prepare_number(v))
        if same(kind, v, back):
            return None
        return "wrong-value"
    except Exception as ex:
        return "exc"


def encode_value(field, cfg, v):
    """Round trips of one value through the sortable encodings.  Returns a
    list of (what-kind, message)."""
    kind, bits, signed = CFGS[cfg]
    out = []
    for name, to, frm in (("bytes", field.to_bytes, field.from_bytes),
                          ("column", field.to_column_value, field.from_column_value)):
        try:
            x = to(v)
        except Exception as ex:
            out.append(("to_%s:%s" % (name, exc_kind(ex)), "to_%s(%r) raised %r" % (name, v, ex)))
            continue
        if name == "bytes" and (len(x) != 1 + bits // 8 or x[0:1] != b"\x00"):
            out.append(("to_bytes:shape", "to_bytes(%r) = %r" % (v, x)))
        if name == "column" and not (isinstance(x, int) and 0 <= x < (1 << bits)):
            out.append(("to_column_value:range", "to_column_value(%r) = %r" % (v, x)))
        try:
            back = frm(x)
        except Exception as ex:
            out.append(("from_%s:exc" % name, "from_%s(to_%s(%r)) raised %r at %s" % (name, name, v, ex, where(ex))))
            continue
        if not same(kind, v, back):
            out.append(("from_%s:wrong-value" % name, "from_%s(to_%s(%r)) == %r" % (name, name, v, back)))
    return out


def encode_pair(field, cfg, a, b):
    """a < b in the oracle order (or a is -0.0 and b is +0.0)."""
    kind, bits, signed = CFGS[cfg]
    out = []
    tie = kind == "float" and a == b
    try:
        xa, xb = field.to_bytes(a), field.to_bytes(b)
        if not (xa <= xb if tie else xa < xb):
            out.append(("to_bytes:order", "to_bytes(%r)=%r !< to_bytes(%r)=%r" % (a, xa, b, xb)))
        ca, cb = field.to_column_value(a), field.to_column_value(b)
        if not (ca <= cb if tie else ca < cb):
            out.append(("to_column_value:order", "to_column_value(%r)=%r !< to_column_value(%r)=%r" % (a, ca, b, cb)))
        if kind in ("int", "float"):
            from whoosh.util.numeric import to_sortable, from_sortable
            nt = int if kind == "int" else float
            sa, sb = to_sortable(nt, bits, signed, a), to_sortable(nt, bits, signed, b)
            if not (sa <= sb if tie else sa < sb):
                out.append(("to_sortable:order", "to_sortable(%r)=%r !< to_sortable(%r)=%r" % (a, sa, b, sb)))
            for v, sv in ((a, sa), (b, sb)):
                if not (0 <= sv < (1 << bits)):
                    out.append(("to_sortable:range", "to_sortable(%r)=%r" % (v, sv)))
                bk = from_sortable(nt, bits, signed, sv)
                if not same(kind, v, bk):
                    out.append(("from_sortable:wrong-value", "from_sortable(to_sortable(%r)) == %r" % (v, bk)))
    except Exception as ex:
        out.append((exc_kind(ex), "encoding %r / %r raised %r" % (a, b, ex)))
    return out


def task_enc(t):
    _, cfg, seed = t
    acc = core.Acc()
    kind, bits, signed = CFGS[cfg]
    field = make_field(cfg, 4 if kind != "dt" else 8, sortable=True)
    if bits == 8:
        lo, hi = dom(cfg)
        vals = list(range(lo, hi + 1))
    else:
        vals = alphabet(cfg, seed)
    for v in vals:
        acc.count("evaluations")
        acc.count("encode_roundtrips")
        res = encode_value(field, cfg, v)
        for k, msg in res:
            r = enc_root(field, cfg, v)
            if r:
                sig = "unprepare_number|dec|%s" % r
            else:
                sig = "encode|%s|%s" % (kind, k)
            acc.violation(sig, {"mode": "encode", "cfg": cfg, "value": enc(kind, v)},
                          "%s: %s" % (cfg, msg))
    for a, b in zip(vals, vals[1:]):
        acc.count("evaluations")
        acc.count("encode_order_pairs")
        for k, msg in encode_pair(field, cfg, a, b):
            acc.violation("encode|%s|%s" % (kind, k),
                          {"mode": "encode_pair", "cfg": cfg, "a": enc(kind, a), "b": enc(kind, b)},
                          "%s: %s" % (cfg, msg))
    if bits == 8:
        from whoosh.util.numeric import to_sortable
        acc.count("evaluations")
        try:
            img = sorted(to_sortable(int, 8, signed, v) for v in vals)
            by = sorted(field.to_bytes(v) for v in vals)
        except Exception:
            img = by = None      # already reported per value above
        if img != list(range(256)) or by != [b"\x00" + bytes([i]) for i in range(256)]:
            acc.violation("encode|int|not-onto", {"mode": "encode_onto", "cfg": cfg},
                          "%s: image of the sortable encoding is not 0..255" % cfg)
    acc.sample({"mode": "encode", "cfg": cfg, "values": len(vals)})
    return acc.result()


# ---------------------------------------------------------------------------
# pure tasks

def task_split8(t):
    _, step = t
    acc = core.Acc()
    for w in range(256):
        for s in range(0, 256 - w):
            e = s + w
            acc.count("evaluations")
            acc.count("pure_split_cases")
            k, what, nsh = pure_split(8, step, s, e)
            if nsh > 1:
                acc.count("pure_multi_tier")
            if 0 < w < 255:
                acc.count("distinct_nontrivial")
            if k:
                acc.violation("split_ranges|%s" % k,
                              {"mode": "split", "bits": 8, "step": step, "s": s, "e": e}, what)
    acc.sample({"mode": "split", "bits": 8, "step": step, "pairs": "all 0<=start<=end<=255"})
    return acc.result()


def sortable_alphabet(bits):
    top = (1 << bits) - 1
    S = {0, 1, 2, 3, top - 3, top - 2, top - 1, top}
    for k in range(1, bits):
        S.update(((1 << k) - 1, 1 << k, (1 << k) + 1, top - (1 << k), top - (1 << k) + 1))
    return sorted(x for x in S if 0 <= x <= top)


def task_splitwide(t):
    _, bits, step = t
    acc = core.Acc()
    S = sortable_alphabet(bits)
    top = (1 << bits) - 1
    for i, s in enumerate(S):
        for e in S[i:]:
            acc.count("evaluations")
            acc.count("pure_split_cases")
            k, what, nsh = pure_split(bits, step, s, e)
            if nsh > 1:
                acc.count("pure_multi_tier")
            if not (s == 0 and e == top):
                acc.count("distinct_nontrivial")
            if k:
                acc.violation("split_ranges|%s" % k,
                              {"mode": "split", "bits": bits, "step": step, "s": s, "e": e}, what)
    return acc.result()


def task_tiered(t):
    """tiered_ranges as a pure function: every (start, end, startexcl,
    endexcl) incl. None; 8-bit exhaustive, wider over the alphabet."""
    _, cfg, step, seed = t
    acc = core.Acc()
    kind, bits, signed = CFGS[cfg]
    field = make_field(cfg, step)
    if bits == 8:
        lo, hi = dom(cfg)
        cases = all8(lo, hi)
    else:
        A = [None] + alphabet(cfg, seed)
        cases = ((a, b, se, ee) for a in A for b in A
                 for se, ee in ((False, False), (True, False), (False, True), (True, True)))
    top = (1 << bits) - 1
    for start, end, se, ee in cases:
        acc.count("evaluations")
        acc.count("pure_tiered_cases")
        try:
            k, what, nsh = pure_tiered(cfg, field, step, start, end, se, ee)
            s, e = want_interval(cfg, field, start, end, se, ee)
        except Exception as ex:
            acc.violation("encode|%s|%s" % (kind, exc_kind(ex)),
                          {"mode": "tiered", "cfg": cfg, "step": step, "start": enc(kind, start),
                           "end": enc(kind, end), "se": se, "ee": ee},
                          "%s: sortable encoding of in-domain bounds %r / %r raised %r at %s"
                          % (cfg, start, end, ex, where(ex)))
            continue
        if nsh > 1:
            acc.count("pure_multi_tier")
        if s <= e and (s, e) != (0, top):
            acc.count("distinct_nontrivial")
        if k:
            root = root_of(cfg, field, step, start, end, se, ee, known=k) or "tiered_ranges"
            acc.violation("%s|%s" % (root, k),
                          {"mode": "tiered", "cfg": cfg, "step": step, "start": enc(kind, start),
                           "end": enc(kind, end), "se": se, "ee": ee}, what)
    acc.sample({"mode": "tiered", "cfg": cfg, "step": step})
    return acc.result()


# ---------------------------------------------------------------------------
# end-to-end 8-bit

def task_e2e8(t):
    _, cfg, step, ixname, family, nsl, sl, seed = t
    acc = core.Acc()
    try:
        env = Env(cfg, step, ixname, seed)
    except BuildFailed as bf:
        acc.count("evaluations")
        acc.violation(bf.sig, bf.case, bf.what)
        return acc.result()
    try:
        lo, hi = dom(cfg)
        if sl == 0 and family == "incl":
            index_level(acc, env)
        for i, (a, b, se, ee) in enumerate(fam8(lo, hi, family, step)):
            if i % nsl != sl:
                continue
            acc.count("evaluations")
            acc.count("range_queries_8bit")
            k, what, trivial = range_case(env, a, b, se, ee, "docs")
            if not trivial:
                acc.count("distinct_nontrivial")
            if k:
                report_range(acc, env, a, b, se, ee, "docs", k, what)
            if i % 9973 == 17:
                acc.sample({"cfg": cfg, "step": step, "index": ixname, "start": a, "end": b,
                            "startexcl": se, "endexcl": ee})
    finally:
        env.close()
    return acc.result()


# ---------------------------------------------------------------------------
# index-level round trips: lexicon, column, sort

def index_level(acc, env):
    from whoosh import query
    kind = env.kind
    vals = env.vals
    field = env.field
    r = env.s.reader()
    # lexicon
    acc.count("evaluations")
    want = sorted(set(vals), key=lambda v: okey(kind, v)) if kind != "float" else \
        sorted(set((v, math.copysign(1, v)) for v in vals))
    try:
        got = [field.from_bytes(t) for t in field.sortable_terms(r, "n")]
        if kind == "float":
            ok = len(got) == len(want) and all(g == w[0] for g, w in zip(got, want))
        else:
            ok = got == want
        if not ok:
            bad = next((v for v in vals if enc_root(field, env.cfg, v)), None)
            sig = "unprepare_number|dec|wrong-value" if bad is not None else "lexicon|%s|wrong-value" % kind
            acc.violation(sig, env.base("lexicon"),
                          "%s: decoded full-precision terms %s != sorted distinct values %s"
                          % (env.cfg, brief(got), brief([w[0] if kind == "float" else w for w in want])))
    except Exception as ex:
        bad = next((v for v in vals if enc_root(field, env.cfg, v)), None)
        sig = "unprepare_number|dec|exc" if bad is not None else "lexicon|%s|%s" % (kind, exc_kind(ex))
        acc.violation(sig, env.base("lexicon"), "%s: decoding the lexicon raised %r at %s" % (env.cfg, ex, where(ex)))
    # column
    acc.count("evaluations")
    if env.colerr:
        acc.violation("sortable-column|%s|%s" % (kind, env.colerr[0]), env.base("column"), env.colerr[1])
    try:
        cr = None if env.colerr else r.column_reader("n")
    except Exception as ex:
        acc.violation("column|%s|%s" % (kind, exc_kind(ex)), env.base("column"), "column_reader raised %r" % (ex,))
        cr = None
    if cr is not None:
        for i, v in enumerate(vals):
            try:
                g = cr[i]
                if not same(kind, v, g):
                    rt = enc_root(field, env.cfg, v)
                    acc.violation("unprepare_number|dec|wrong-value" if rt else "column|%s|wrong-value" % kind,
                                  dict(env.base("column"), doc=i),
                                  "%s: column value of doc %d is %r, indexed %r" % (env.cfg, i, g, v))
            except Exception as ex:
                rt = enc_root(field, env.cfg, v)
                acc.violation("unprepare_number|dec|exc" if rt else "column|%s|%s" % (kind, exc_kind(ex)),
                              dict(env.base("column"), doc=i),
                              "%s: reading the column value of doc %d (indexed %r) raised %r at %s"
                              % (env.cfg, i, v, ex, where(ex)))
    # sort
    for fname in (("m",) if env.colerr else ("n", "m")):
        for rev in (False, True):
            acc.count("evaluations")
            acc.count("sorted_searches")
            k, what = sort_case(env, fname, rev)
            if k:
                rt = next((enc_root(field, env.cfg, v) for v in vals if enc_root(field, env.cfg, v)), None)
                acc.violation("unprepare_number|dec|%s" % rt if rt and k.startswith("exc:") else
                              "sort|%s|%s|%s" % (kind, "column" if fname == "n" else "nocolumn", k),
                              dict(env.base("sort"), field=fname, reverse=rev), what)


def sort_case(env, fname, rev):
    from whoosh import query
    kind = env.kind
    vals = env.vals
    try:
        r = env.s.search(query.Every(), sortedby=fname, reverse=rev, limit=None)
        docs = [h.docnum for h in r]
    except Exception as ex:
        return exc_kind(ex), "sortedby=%r reverse=%s raised %r at %s" % (fname, rev, ex, where(ex))
    if sorted(docs) != list(range(len(vals))):
        return "not-permutation", "sortedby=%r reverse=%s returned docs %r" % (fname, rev, docs)
    seq = [vals[d] for d in docs]
    for x, y in zip(seq, seq[1:]):
        if (x < y) if rev else (x > y):
            return "order", "%s sortedby=%r reverse=%s: %r comes before %r; sequence %s" % (
                env.cfg, fname, rev, x, y, brief(seq, 12))
    return None, None


# ---------------------------------------------------------------------------
# wide alphabets: ranges, terms, parser, domain

def term_case(env, v):
    from whoosh import query
    try:
        got, bad = run_query(env, query.Term("n", v), "docs")
    except Exception as ex:
        return exc_kind(ex), "Term('n', %r) raised %r at %s" % (v, ex, where(ex))
    want = set(i for i, x in enumerate(env.vals)
               if x == v and (env.kind != "float" or math.copysign(1, x) == math.copysign(1, v)))
    soft = set(i for i, x in enumerate(env.vals) if x == v)
    gs = set(got)
    if bad or not (want <= gs <= soft):
        return "wrong-docs", "%s: Term('n', %r) matched values %r" % (env.cfg, v, [env.vals[i] for i in got])
    return None, None


def task_wide(t):
    _, cfg, step, family, far, nsl, sl, seed = t
    acc = core.Acc()
    try:
        env = Env(cfg, step, "alpha", seed)
    except BuildFailed as bf:
        acc.count("evaluations")
        acc.violation(bf.sig, bf.case, bf.what)
        return acc.result()
    kind = env.kind
    allx = ((False, False), (True, False), (False, True), (True, True))
    try:
        A = alphabet(cfg, seed)
        AN = [None] + A
        if family == "tiers" and sl == 0:
            index_level(acc, env)
        if family.startswith("main") and sl == 0:
            index_level(acc, env)
            for v in A:
                acc.count("evaluations")
                acc.count("term_queries")
                k, what = term_case(env, v)
                if k:
                    acc.violation("term|%s|%s" % (kind, k), dict(env.base("term"), value=enc(kind, v)), what)
            domain_checks(acc, env)
            if kind == "dt" and family == "main":
                typed_date_checks(acc, env)
        n = 0
        for ia, a in enumerate(AN):
            for ib, b in enumerate(AN):
                inverted = a is not None and b is not None and ia > ib
                if inverted and ia - ib > 2 and not far:
                    continue
                for se, ee in allx:
                    if inverted and (se or ee) and ia - ib > 2:
                        continue
                    if family == "main":
                        # search() repeats the inclusive cases through the collector
                        paths = ("docs",) if (se or ee) else ("docs", "search")
                    elif family == "main_docs":
                        paths = ("docs",)
                    elif family == "tiers":
                        # every start<=end pair (+ unbounded ends), inclusive
                        if inverted or se or ee:
                            continue
                        paths = ("docs",)
                    else:
                        if inverted or kind == "dt" or (a is None and b is None):
                            continue
                        if not far and not (a is None or b is None or ib - ia <= 3
                                            or ia == 1 or ib == len(A)):
                            # quick: near-diagonal pairs, unbounded ends, domain extremes
                            continue
                        paths = ("parser",)
                    n += 1
                    if n % nsl != sl:
                        continue
                    direct_ok = None
                    if family == "tiers":
                        acc.count("range_queries_tiers_family")
                        if uses_partial_top_tier(env, a, b, se, ee):
                            acc.count("range_queries_answered_from_a_partial_top_tier")
                    for path in paths:
                        acc.count("evaluations")
                        acc.count("range_queries_alphabet")
                        k, what, trivial = range_case(env, a, b, se, ee, path)
                        if path == "docs":
                            direct_ok = k is None
                        if not trivial:
                            acc.count("distinct_nontrivial")
                        if k:
                            if path == "parser":
                                direct_ok = range_case(env, a, b, se, ee, "docs")[0] is None
                                if not direct_ok:
                                    # reported by the main family under its root cause
                                    acc.count("parser_cases_masked_by_direct_failure")
                                    continue
                            if path == "search" and not direct_ok:
                                continue
                            report_range(acc, env, a, b, se, ee, path, k, what, direct_ok)
                    if n % 1511 == 3:
                        acc.sample({"cfg": cfg, "step": step, "start": enc(kind, a), "end": enc(kind, b),
                                    "startexcl": se, "endexcl": ee, "paths": list(paths)})
    finally:
        env.close()
    return acc.result()


def uses_partial_top_tier(env, start, end, se, ee):
    """vacuity evidence: the decomposition of this interval contains a piece
    at the coarsest tier and that tier is a partial one (shift_step does not
    divide the bit width)"""
    if not env.step or env.bits % env.step == 0:
        return False
    try:
        top = (env.bits - 1) // env.step * env.step
        return any(sh == top for _, _, sh in tier_pieces(env, start, end, se, ee))
    except Exception:
        return False


def domain_checks(acc, env):
    for v in outside(env.cfg):
        for c in ("index", "field", "range", "term", "parser"):
            acc.count("evaluations")
            acc.count("domain_cases")
            k, what, how = domain_case(env, v, c)
            if how:
                acc.count("domain_%s" % how)
            if k:
                acc.violation("domain|%s|%s|%s" % (env.kind, c, k),
                              dict(env.base("domain"), value=enc(env.kind, v), ctx=c), what)


# ---------------------------------------------------------------------------
# DATETIME: a date typed to a period (year .. microsecond) through the query
# parser reads as the whole period, also as a range bound (docs/dates.rst) -
# including the periods that touch the two ends of the domain

PERIOD_NAMES = ["", "year", "month", "day", "hour", "minute", "second", "microsecond"]


def typed_period(v, prec):
    """(text, first instant, last instant) of the period of precision prec that contains v"""
    dt = datetime.datetime
    comps = [v.year, v.month, v.day, v.hour, v.minute, v.second][:min(prec, 6)]
    text = "%04d" % comps[0] + "".join("%02d" % x for x in comps[1:])
    if prec == 7:
        return text + "%06d" % v.microsecond, v, v
    first = dt(*(comps + [1, 1, 0, 0, 0][len(comps) - 1:]))
    try:
        if prec == 1:
            nxt = dt(v.year + 1, 1, 1)
        elif prec == 2:
            nxt = dt(v.year + (v.month == 12), v.month % 12 + 1, 1)
        else:
            nxt = first + [None, None, None, datetime.timedelta(days=1), datetime.timedelta(hours=1),
                           datetime.timedelta(minutes=1), datetime.timedelta(seconds=1)][prec]
        last = nxt - datetime.timedelta(microseconds=1)
    except (ValueError, OverflowError):
        last = dt.max           # no successor: the period runs to the end of the domain
    return text, first, last


def typed_case(env, text, lo, hi):
    """parse ``text`` with the field's parser and compare the matched values with [lo, hi]"""
    try:
        q = env.qp.parse(text)
        got = set(env.s.docs_for_query(q))
    except Exception as ex:
        return exc_kind(ex), "parsing/searching %r raised %r at %s" % (text, ex, where(ex)), True
    yes = set(i for i, v in enumerate(env.vals) if expect("dt", v, lo, hi, False, False))
    trivial = (not yes) or len(yes) == len(env.vals)
    if got == yes:
        return None, None, trivial
    extra, missing = got - yes, yes - got
    return ("extra" if extra else "missing"), "%r (parsed as %r) returned values %s; the typed period(s) cover %s .. %s, i.e. %s" % (
        text, q, brief(sorted(env.vals[i] for i in got)), lo, hi, brief(sorted(env.vals[i] for i in yes))), trivial


def typed_date_checks(acc, env):
    A = alphabet(env.cfg, env.seed)
    done = set()
    for ia, a in enumerate(A):
        for prec in range(1, 8):
            ta, fa, la = typed_period(a, prec)
            forms = [("term", "n:%s" % ta, fa, la), ("from", "n:[%s TO]" % ta, fa, None), ("upto", "n:[TO %s]" % ta, None, la)]
            for b in A[ia:ia + 3]:
                tb, fb, lb = typed_period(b, prec)
                forms.append(("range", "n:[%s TO %s]" % (ta, tb), fa, lb))
            for form, text, lo, hi in forms:
                if text in done:
                    continue
                done.add(text)
                acc.count("evaluations")
                acc.count("typed_period_queries")
                k, what, trivial = typed_case(env, text, lo, hi)
                if not trivial:
                    acc.count("distinct_nontrivial")
                if hi == datetime.datetime.max or lo == datetime.datetime.min:
                    acc.count("typed_periods_touching_a_domain_end")
                if k:
                    acc.violation("typed|dt|%s|%s|%s" % (form, PERIOD_NAMES[prec], k),
                                  dict(env.base("typed"), text=text, lo=enc("dt", lo), hi=enc("dt", hi)), what)


def clamped(env, start, end):
    return set(i for i, x in enumerate(env.vals) if expect(env.kind, x, start, end, False, False))


def domain_case(env, v, c):
    """An out-of-domain value must be rejected.  Returns (kind, what, how);
    how = 'raised' | 'empty' | 'clamped' for the evidence counters."""
    from whoosh import query
    from whoosh.qparser.common import QueryParserError
    kind = env.kind
    field = env.field
    lo = env.vals[0]
    A = sorted(set(env.vals), key=lambda x: okey(kind, x))
    if c == "index":
        w = env.ix.writer()
        try:
            try:
                w.add_document(n=v)
            except Exception:
                return None, None, "raised"
            return "accepted", "%s: add_document(n=%r) was accepted (domain %r..%r)" % ((env.cfg, v) + dom(env.cfg)), None
        finally:
            w.cancel()
    if c == "field":
        bad = []
        for name, fn in (("to_bytes", field.to_bytes), ("index", lambda x: list(field.index(x))),
                         ("to_column_value", field.to_column_value)):
            try:
                r = fn(v)
                bad.append("%s(%r) returned %r" % (name, v, r))
            except Exception:
                pass
        try:
            if field.is_valid(v):
                bad.append("is_valid(%r) is True" % (v,))
        except Exception:
            pass
        if bad:
            return "accepted", "%s: %s" % (env.cfg, "; ".join(bad)), None
        return None, None, "raised"
    if c == "range":
        how = "raised"
        for start, end in ((v, None), (None, v), (A[1], v), (v, A[-2]), (v, v)):
            try:
                got, _ = run_query(env, query.NumericRange("n", start, end), "docs")
            except Exception:
                continue
            if set(got) != clamped(env, start, end):
                return "wrapped", "%s: NumericRange('n', %r, %r) with an out-of-domain bound was not rejected and " \
                    "matched values %s" % (env.cfg, start, end, brief([env.vals[i] for i in got])), None
            how = "clamped"
        return None, None, how
    if c == "term":
        try:
            got, _ = run_query(env, query.Term("n", v), "docs")
        except Exception:
            return None, None, "raised"
        if got:
            return "wrapped", "%s: Term('n', %r) matched values %r" % (env.cfg, v, [env.vals[i] for i in got]), None
        return None, None, "empty"
    if c == "parser":
        if kind == "float":
            return None, None, None     # the text of a huge number parses to inf, which is in the domain
        try:
            tv = text_of(kind, v)
        except Exception:
            return None, None, None
        how = "raised"
        for text, start, end in (("n:[%s TO %s]" % (text_of(kind, A[1]), tv), A[1], v),
                                 ("n:[%s TO %s]" % (tv, text_of(kind, A[-2])), v, A[-2]),
                                 ("n:[%s TO]" % tv, v, None), ("n:[TO %s]" % tv, None, v),
                                 ("n:%s" % tv, v, v)):
            try:
                q = env.qp.parse(text)
                got, _ = run_query(env, q, "docs")
            except Exception:
                continue
            if got and set(got) != clamped(env, start, end):
                return "wrapped", "%s: parse(%r) -> %r matched values %s" % (
                    env.cfg, text, q, brief([env.vals[i] for i in got])), None
            how = "empty" if not got else "clamped"
        # the field-level parser API raises QueryParserError
        for name, call in (("parse_range", lambda: field.parse_range("n", text_of(kind, A[1]), tv, False, False)),
                           ("parse_query", lambda: field.parse_query("n", tv))):
            try:
                q = call()
            except Exception:
                continue
            try:
                got, _ = run_query(env, q, "docs")
            except Exception:
                continue
            want = clamped(env, A[1], v) if name == "parse_range" else set()
            if got and set(got) != want:
                return "wrapped", "%s: field.%s with out-of-domain text %r returned %r matching %s" % (
                    env.cfg, name, tv, q, brief([env.vals[i] for i in got])), None
        return None, None, how
    raise ValueError(c)


# ---------------------------------------------------------------------------
# construction of the documented configurations

def construct_case(cfg):
    try:
        make_field(cfg, 4, sortable=True)
        return None, None
    except Exception as ex:
        kind, bits, signed = CFGS[cfg]
        return exc_kind(ex), "constructing the documented configuration %s (kind=%s bits=%d signed=%s) raised %r at %s" % (
            cfg, kind, bits, signed, ex, where(ex))


# ---------------------------------------------------------------------------

def task(t):
    return {"enc": task_enc, "split8": task_split8, "splitwide": task_splitwide,
            "tiered": task_tiered, "e2e8": task_e2e8, "wide": task_wide}[t[0]](t)


def run(ctx):
    seed = ctx.seed
    quick = ctx.tier == "quick"
    usable = []
    for cfg in WIDE:
        ctx.count("evaluations")
        k, what = construct_case(cfg)
        if k:
            kind, bits, signed = CFGS[cfg]
            ctx.violation("construct|NUMERIC(%s, signed=%s)|%s" % (kind, signed, k),
                          {"mode": "construct", "cfg": cfg}, what)
        else:
            usable.append(cfg)
    tasks = []
    for cfg in usable:
        tasks.append(("enc", cfg, seed))
    for step in range(1, 9):
        tasks.append(("split8", step))
        for bits in (16, 32, 64):
            tasks.append(("splitwide", bits, step))
    for cfg in usable:
        kind, bits, signed = CFGS[cfg]
        if kind in ("int", "float"):
            for step in range(0, 9):
                tasks.append(("tiered", cfg, step, seed))
    rot = (1, 2, 3, 5, 6, 7)[seed % 6]
    F3 = ("incl", "excl_narrow", "inv_narrow")
    if quick:
        e2e = [("i8u", 4, "full", F3),
               ("i8s", rot, "full", ("incl", "inv_narrow")),
               ("i8s", 0, "full", ("edge", "inv_narrow")),
               ("i8s", 4, "holes", ("incl", "inv_narrow"))]
    else:
        fams = F3 + ("excl_wide", "inv_wide")
        e2e = []
        for step in (0, 1, 3, 4, 8):
            for cfg in ("i8s", "i8u"):
                e2e.append((cfg, step, "full", fams))
        for step in (0, 2, 4):
            for cfg in ("i8s", "i8u"):
                e2e.append((cfg, step, "holes", F3))
    NSL = {"incl": 32, "excl_narrow": 12, "edge": 6, "inv_narrow": 1, "excl_wide": 64, "inv_wide": 16}
    heavy = []
    for cfg, step, ixname, fams in e2e:
        for fam in fams:
            for sl in range(NSL[fam]):
                heavy.append(("e2e8", cfg, step, ixname, fam, NSL[fam], sl, seed))
    wide_plan = {}
    tiers_plan = {}
    for cfg in usable:
        kind, bits, signed = CFGS[cfg]
        if quick:
            st = [4, rot] + ([0, 8] if cfg in ("i64s", "f64") else [])
            pst = [4]
        else:
            st = list(range(0, 9))
            pst = [0, 4]
        st = steps_of(cfg, st)
        wide_plan[cfg] = st
        for step in st:
            for sl in range(3):
                fam = "main" if (step == 4 or not quick or kind == "dt") else "main_docs"
                heavy.append(("wide", cfg, step, fam, not quick, 3, sl, seed))
        if kind != "dt":
            for step in pst:
                for sl in range(3):
                    heavy.append(("wide", cfg, step, "parser", not quick, 3, sl, seed))
            # every other precision step (thorough runs them all as "main")
            tst = [step for step in range(1, 9) if step not in st]
            tiers_plan[cfg] = tst
            for step in tst:
                heavy.append(("wide", cfg, step, "tiers", False, 1, 0, seed))
    # heavy tasks first so the pool stays busy until the end
    ctx.extra["configurations"] = usable
    ctx.extra["alphabet_sizes"] = dict((c, len(alphabet(c, seed))) for c in usable)
    ctx.extra["end_to_end_8bit"] = [list(x[:3]) + [list(x[3])] for x in e2e]
    ctx.extra["alphabet_shift_steps"] = wide_plan
    ctx.extra["tiers_family_shift_steps"] = tiers_plan
    ctx.rule = (
        "pure: split_ranges for every 0<=start<=end<=255 x step 1..8 and every ordered pair of a sortable boundary "
        "alphabet (2^k-1, 2^k, 2^k+1, top-2^k ...) for 16/32/64 bits; tiered_ranges for every (start, end, startexcl, "
        "endexcl) incl. None x step 0..8 (8-bit: all 257x257x4; wider ints and float: all pairs of the value "
        "alphabet + None). index, 8 bits: NumericRange through docs_for_query on an index holding every value (and "
        "one with holes, duplicates, 3 segments), families: incl = every start<=end inclusive + unbounded ends; "
        "excl_narrow / edge = the 3 exclusive combinations for end-start <= 2*2^step+1 or a bound within 2 of a "
        "domain extreme or None; inv_narrow = start-end in {1,2} x 4 combinations; thorough adds excl_wide (all "
        "remaining exclusive cases) and inv_wide (every start>end). index, wider types: every ordered pair of the "
        "boundary alphabet (+None) x 4 exclusivity combinations (start>end beyond 2 alphabet positions: inclusive "
        "only, thorough only) via docs_for_query, the inclusive ones also via search(limit=None); the query parser "
        "(quick: pairs within 3 alphabet positions, unbounded ends, domain extremes; thorough: all start<=end); "
        "Term per value; lexicon / column / sortedby round trips; out-of-domain values in 5 contexts. tiers family "
        "(quick; thorough runs every step in the main family): for every width / number type and EVERY remaining "
        "shift_step of 1..8 - so also the steps 3, 5, 6, 7 that do not divide the bit width and end in a partial "
        "coarsest tier - every start<=end pair of the alphabet (+None) inclusive via docs_for_query on a real "
        "two-segment index, plus the lexicon / column / sortedby round trips (sortable_terms must stop at the "
        "first coarse term for every step). Enumerated "
        "without repetition; a range case is non-trivial when the expected result is neither empty nor everything")
    ctx.assumptions = [
        "oracle: Python comparison of the original values; a document whose value is a zero of the opposite sign "
        "of a range bound (+0.0 vs -0.0) is a don't-care",
        "NaN is outside the property (unordered) and is never used",
        "the expected sortable interval of the pure decomposition checks uses whoosh's own to_sortable, whose "
        "strict monotonicity (8-bit: bijection onto 0..255) is checked separately in the same run",
        "an out-of-domain bound in a query counts as rejected if the call raises, or returns nothing / exactly the "
        "documents of the clamped interval; any other result is a wrap",
        "a start > end interval is empty",
        "DATETIME ranges are queried with DateRange objects (parser date syntax is C16); Decimals have exactly "
        "decimal_places digits (truncation of longer inputs is documented and not exercised)",
    ]
    ctx.pmap(task, heavy + tasks)
    if ctx.counters.get("pure_multi_tier", 0) < 1000:
        raise core.HarnessError("vacuous: tiered decomposition used more than one tier in only %d pure cases"
                                % ctx.counters.get("pure_multi_tier", 0))
    if quick and any(tiers_plan.values()) and \
            ctx.counters.get("range_queries_answered_from_a_partial_top_tier", 0) < 1000:
        raise core.HarnessError("vacuous: only %d range queries of the tiers family were answered from a partial top tier"
                                % ctx.counters.get("range_queries_answered_from_a_partial_top_tier", 0))
    if ctx.counters.get("domain_cases", 0) < 50 or ctx.counters.get("range_queries_8bit", 0) < 1000:
        raise core.HarnessError("vacuous: too few domain / range cases ran")


# ---------------------------------------------------------------------------

def replay(case):
    core.setup_process(case.get("seed", 0))
    mode = case["mode"]
    if mode == "construct":
        k, what = construct_case(case["cfg"])
        return {"ok": k is None, "kind": k, "what": what}
    if mode == "split":
        k, what, _ = pure_split(case["bits"], case["step"], case["s"], case["e"])
        return {"ok": k is None, "kind": k, "what": what}
    cfg = case["cfg"]
    kind = CFGS[cfg][0]
    if mode == "tiered":
        field = make_field(cfg, case["step"])
        try:
            k, what, _ = pure_tiered(cfg, field, case["step"], dec(kind, case["start"]), dec(kind, case["end"]),
                                     case["se"], case["ee"])
        except Exception as ex:
            k, what = exc_kind(ex), "sortable encoding of the bounds raised %r at %s" % (ex, where(ex))
        return {"ok": k is None, "kind": k, "what": what}
    if mode in ("encode", "encode_pair", "encode_onto"):
        field = make_field(cfg, 8 if kind == "dt" else 4, sortable=True)
        if mode == "encode":
            res = encode_value(field, cfg, dec(kind, case["value"]))
        elif mode == "encode_pair":
            res = encode_pair(field, cfg, dec(kind, case["a"]), dec(kind, case["b"]))
        else:
            lo, hi = dom(cfg)
            try:
                by = sorted(field.to_bytes(v) for v in range(lo, hi + 1))
            except Exception:
                by = None
            res = [] if by == [b"\x00" + bytes([i]) for i in range(256)] else [("not-onto", "image != 0..255")]
        return {"ok": not res, "kind": [k for k, _ in res], "what": "; ".join(m for _, m in res)}
    try:
        env = Env(cfg, case["step"], case["index"], case.get("seed", 0))
    except BuildFailed as bf:
        return {"ok": False, "kind": bf.sig, "what": bf.what}
    if mode == "build":
        env.close()
        return {"ok": True, "kind": None, "what": "index built"}
    try:
        if mode == "range":
            k, what, _ = range_case(env, dec(kind, case["start"]), dec(kind, case["end"]),
                                    case["se"], case["ee"], case["path"])
            return {"ok": k is None, "kind": k, "what": what}
        if mode == "typed":
            k, what, _ = typed_case(env, case["text"], dec(kind, case["lo"]), dec(kind, case["hi"]))
            return {"ok": k is None, "kind": k, "what": what}
        if mode == "term":
            k, what = term_case(env, dec(kind, case["value"]))
            return {"ok": k is None, "kind": k, "what": what}
        if mode == "sort":
            k, what = sort_case(env, case["field"], case["reverse"])
            return {"ok": k is None, "kind": k, "what": what}
        if mode == "domain":
            k, what, how = domain_case(env, dec(kind, case["value"]), case["ctx"])
            return {"ok": k is None, "kind": k, "what": what, "how": how}
        if mode in ("lexicon", "column"):
            acc = core.Acc()
            index_level(acc, env)
            v = [x for x in acc.result()["viol"] if x[1].get("mode") == mode]
            return {"ok": not v, "kind": [x[0] for x in v], "what": "; ".join(x[2] for x in v)}
    finally:
        env.close()
    raise ValueError("unknown replay mode %r" % mode)
