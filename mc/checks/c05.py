"""C05 - search(q, limit=k) == first k entries of search(q, limit=None).
E1: every 2-leaf tree over all 64x64 posting-list alignments of U(6) (and
3-leaf / nested / boosted trees over a reduced alignment set) x k=1..5 x
weighting models x block sizes 1..3 x segment layouts x deletion sets, plus
filter/mask/collapse/terms variants.  Oracle: the exhaustive ranking on the
same searcher."""
import itertools
import traceback

from mc import core, corpus, qast
from mc.checks.c01 import children, top_shape, NARY, BINOPS

PID = "C05"
LEVEL = "exploration"
D = 6
RED = [0b111111, 0b101010, 0b010101, 0b000111, 0b111000, 0b100001,
       0b001100, 0b011110, 0b000001, 0b100000, 0b110011, 0b010010]
TOL = 1e-9


def weighting(name):
    from whoosh import scoring
    if name == "bm25":
        return scoring.BM25F()
    if name == "bm25_b0":
        return scoring.BM25F(B=0.0, K1=2.0)
    if name == "bm25_b1":
        return scoring.BM25F(B=1.0, K1=0.5)
    if name == "bm25_fieldb":
        return scoring.BM25F(B=0.75, s_B=0.1, w_B=1.0)
    if name == "tfidf":
        return scoring.TF_IDF()
    if name == "freq":
        return scoring.Frequency()
    if name == "pl2":
        return scoring.PL2()
    if name == "multi":
        return scoring.MultiWeighting(scoring.BM25F(), s=scoring.TF_IDF(), w=scoring.Frequency())
    if name == "dfree":
        return scoring.DFree()
    if name == "reverse":
        return scoring.ReverseWeighting(scoring.BM25F())
    if name == "function":
        return scoring.FunctionWeighting(_posfn)
    if name == "final":
        class FinalBM25(scoring.BM25F):
            use_final = True

            def final(self, searcher, docnum, score):
                # document-level adjustment that reorders hits
                return score * (1.0 + (docnum * 7 % 5))
        return FinalBM25()
    raise ValueError(name)


def _posfn(searcher, fieldname, text, matcher):
    return 1.0 + matcher.weight() / (1.0 + matcher.id())


def T(m):
    return ["term", "s", corpus.sterm(m)]


def gen(family):
    allm = list(range(0, 1 << D))
    if family == "one":
        for a in allm:
            yield T(a)
        for a in RED:
            yield ["boost", T(a), 2.0]
            # scores of zero or less still rank (after everything positive, in document order)
            yield ["boost", T(a), 0.0]
            yield ["boost", T(a), -1.0]
            yield ["not", T(a)]
    elif family == "two":
        for op in NARY:
            for a in allm:
                for b in allm:
                    yield [op, [T(a), T(b)]]
        for op in BINOPS:
            for a in allm:
                for b in allm:
                    yield [op, T(a), T(b)]
    elif family == "two_red":
        for op in NARY:
            for a in RED:
                for b in RED:
                    yield [op, [T(a), T(b)]]
        for op in BINOPS:
            for a in RED:
                for b in RED:
                    yield [op, T(a), T(b)]
    elif family == "boost":
        for op in NARY:
            for a in RED:
                for b in RED:
                    for ba, bb in ((2.0, 1.0), (0.5, 1.0), (1.0, 3.0), (0.25, 4.0), (0.0, 1.0), (0.0, 0.0), (-1.0, 2.0)):
                        yield [op, [["boost", T(a), ba], ["boost", T(b), bb]]]
        for op in ("andmaybe",):
            for a in RED:
                for b in RED:
                    yield [op, ["boost", T(a), 0.5], ["boost", T(b), 2.0]]
    elif family == "three":
        for op in NARY:
            for a in RED:
                for b in RED:
                    for c in RED:
                        yield [op, [T(a), T(b), T(c)]]
    elif family == "nested":
        R = RED[:7]
        for outer in NARY:
            for inner in NARY + ("not",) + BINOPS:
                for a in R:
                    for b in R:
                        for c in R:
                            if inner == "not":
                                i = ["not", T(b)]
                            elif inner in NARY:
                                i = [inner, [T(b), T(c)]]
                            else:
                                i = [inner, T(b), T(c)]
                            yield [outer, [T(a), i]]
                            if inner == "not":
                                break
        for outer in BINOPS:
            for inner in NARY:
                for a in R:
                    for b in R:
                        for c in R:
                            yield [outer, [inner, [T(a), T(b)]], T(c)]
                            yield [outer, T(a), [inner, [T(b), T(c)]]]
    elif family == "special":
        sp = [["nrange", "n", -1, 64, False, False], ["phrase", "p", ["x", "y"], 2],
              ["prefix", "w", "a"], ["every"], ["fuzzy", "w", "abc", 1, 0],
              ["const", ["term", "s", corpus.sterm(0b011110)], 0.7],
              ["wild", "w", "*b"], ["phrase", "p", ["y", "x"], 1]]
        for op in NARY:
            for a in RED:
                for b in sp:
                    yield [op, [T(a), b]]
                    yield [op, [b, T(a)]]
        for op in BINOPS:
            for a in RED:
                for b in sp:
                    yield [op, T(a), b]
                    yield [op, b, T(a)]
        for b in sp:
            yield b
    else:
        raise ValueError(family)


def close(a, b):
    return abs(a - b) <= TOL * max(1.0, abs(a), abs(b))


def compare(full, lim, k):
    """full, lim: lists of (score, docnum) in rank order.  None if lim is the
    k-prefix of full (modulo float noise inside near-ties)."""
    exp = full[:k]
    if len(lim) != len(exp):
        return "count:%d!=%d" % (len(lim), len(exp))
    if all(d1 == d2 and close(s1, s2) for (s1, d1), (s2, d2) in zip(lim, exp)):
        return None
    fs = dict((d, s) for s, d in full)
    if len(set(d for _, d in lim)) != len(lim):
        return "duplicate"
    for i, (s, d) in enumerate(lim):
        if d not in fs:
            return "extra-doc"
        if not close(s, fs[d]):
            return "score"
        if not close(fs[d], exp[i][0]):
            return "wrong-doc"
    for i, (s, d) in enumerate(lim):
        if d != exp[i][1] and fs[d] == exp[i][0] and s == exp[i][0]:
            return "tie-order"
    return None


def variant_kwargs(variant, s):
    from whoosh import query as Q, sorting
    if variant == "plain":
        return {}
    if variant == "terms":
        return {"terms": True}
    if variant == "filter":
        return {"filter": Q.Term("s", corpus.sterm(0b011111))}
    if variant == "mask":
        return {"mask": Q.Term("s", corpus.sterm(0b000110))}
    if variant == "collapse":
        return {"collapse": sorting.FieldFacet("b"), "collapse_limit": 1}
    if variant == "noopt":
        return {"optimize": False}
    raise ValueError(variant)


def full_and_limited(s, q, k, kw):
    r = s.search(q, limit=k, **kw)
    c = r.collector
    while not hasattr(c, "skipped_times") and hasattr(c, "child"):
        c = c.child
    return list(r.top_n), getattr(c, "skipped_times", 0), getattr(c, "replaced_times", 0)


def outcome(s, ast, k, variant):
    try:
        q = qast.to_whoosh(ast)
        kw = variant_kwargs(variant, s)
        full = list(s.search(q, limit=None, **kw).top_n)
        # the exhaustive ranking itself must be ordered (score desc, doc asc)
        for (s1, d1), (s2, d2) in zip(full, full[1:]):
            if s1 < s2 or (s1 == s2 and d1 > d2):
                return "full-unordered", "exhaustive ranking not ordered: %r" % (full,), 0, 0
        lim, sk, rp = full_and_limited(s, q, k, kw)
    except Exception as e:
        tb = traceback.extract_tb(e.__traceback__)
        fr = [f for f in tb if "/whoosh/" in f.filename] or list(tb)
        where = "%s:%s" % (fr[-1].filename.split("/")[-1], fr[-1].name)
        return "exc:%s@%s" % (type(e).__name__, where), "raised %r at %s" % (e, where), 0, 0
    res = compare(full, lim, k)
    if res is None:
        return None, None, sk, rp
    return res.split(":")[0], "limit=%d got %r, exhaustive prefix %r (full %r)" % (k, lim, full[:k], full), sk, rp


def culprit(s, ast, k, variant):
    for c in children(ast):
        if c[0] == "not":
            continue
        kind, _, _, _ = outcome(s, c, k, variant)
        if kind is not None:
            return culprit(s, c, k, variant)
    return ast

# ---------------------------------------------------------------------------
# positional queries: every assignment of token sequences to 3 (4) documents

SPAN_SEQS = ["x y", "x y x y", "x y pad pad pad", "x y x y x y pad", "pad x z y", "y x z",
             "x y z pad pad pad pad pad", "z"]


def span_queries():
    from whoosh import query as Q
    from whoosh.query import spans as SP
    x, y, z = Q.Term("p", u"x"), Q.Term("p", u"y"), Q.Term("p", u"z")
    return [("phrase", Q.Phrase("p", [u"x", u"y"])),
            ("phrase_slop2", Q.Phrase("p", [u"x", u"y"], slop=2)),
            ("or_phrase_term", Q.Or([Q.Phrase("p", [u"x", u"y"]), z])),
            ("and_phrase_term", Q.And([Q.Phrase("p", [u"x", u"y"]), z])),
            ("andmaybe_term_phrase", Q.AndMaybe(z, Q.Phrase("p", [u"x", u"y"]))),
            ("spannear", SP.SpanNear(x, y, slop=2, ordered=False)),
            ("spannear2", SP.SpanNear2([x, y], slop=1)),
            ("spanfirst", SP.SpanFirst(x)),
            ("spanor", SP.SpanOr([x, z])),
            ("spannot", SP.SpanNot(x, z)),
            ("spanbefore", SP.SpanBefore(x, z)),
            ("spancontains", SP.SpanContains(SP.SpanNear(x, z, slop=3), y))]


def span_task(t):
    seed, D, nsl, sl, wnames = t
    acc = core.Acc()
    # (the collector only raises its bar once a full heap has been improved
    # on, and hands it to replace() at the start of the next segment or one
    # bar-move late: 4 documents and a 2+2 split are the smallest shape that
    # reaches replace(q>0) with a better document still ahead)
    layouts = [{"segs": [D], "blocklimit": 1}, {"segs": [D], "blocklimit": 2}, {"segs": [1, D - 1], "blocklimit": 1},
               {"segs": [2, D - 2], "blocklimit": 1}]
    docsets = itertools.product(range(len(SPAN_SEQS)), repeat=D)
    queries = span_queries()
    for i, assign in enumerate(docsets):
        if i % nsl != sl:
            continue
        rot = (seed + i) % len(SPAN_SEQS)
        docs = [{"key": "k%d" % j, "live": True, "s": [], "w": [], "p": SPAN_SEQS[(a + rot) % len(SPAN_SEQS)].split(),
                 "n": None, "d": None, "b": None} for j, a in enumerate(assign)]
        for layout in layouts:
            ix, _ = corpus.build_index(docs, layout)
            try:
                for wname in wnames:
                    with ix.searcher(weighting=weighting(wname)) as s:
                        for qname, q in queries:
                            acc.count("span_queries")
                            engaged = False
                            for k in range(1, D):
                                acc.count("evaluations")
                                try:
                                    full = list(s.search(q, limit=None).top_n)
                                    lim, sk, rp = full_and_limited(s, q, k, {})
                                except Exception as e:
                                    tb = traceback.extract_tb(e.__traceback__)
                                    fr = [f for f in tb if "/whoosh/" in f.filename] or list(tb)
                                    where = "%s:%s" % (fr[-1].filename.split("/")[-1], fr[-1].name)
                                    acc.violation("span:%s|%s|exc:%s@%s" % (qname, wname, type(e).__name__, where),
                                                  {"kind": "span", "seed": seed, "docs": [d["p"] for d in docs],
                                                   "layout": layout, "weighting": wname, "query": qname, "k": k},
                                                  "%r raised %r at %s" % (q, e, where))
                                    continue
                                if sk or rp > 1:
                                    engaged = True
                                res = compare(full, lim, k)
                                if res is not None:
                                    acc.violation("span:%s|%s|%s" % (qname, wname, res.split(":")[0]),
                                                  {"kind": "span", "seed": seed, "docs": [d["p"] for d in docs],
                                                   "layout": layout, "weighting": wname, "query": qname, "k": k},
                                                  "%r over p-fields %r (%r) weighting=%s limit=%d got %r, exhaustive %r"
                                                  % (q, [" ".join(d["p"]) for d in docs], layout, wname, k, lim, full))
                            if engaged:
                                acc.count("distinct_nontrivial")
                                acc.count("span_cases_engaging_quality")
            finally:
                corpus.destroy_index(ix)
    return acc.result()


def task(t):
    if t[0] == "span":
        return span_task(t[1:])
    return _task(t)


def _task(t):
    seed, layout, wname, family, variant, nsl, sl = t
    acc = core.Acc()
    docs = corpus.universe_docs(D, seed, mix=True)
    ix, docs = corpus.build_index(docs, layout)
    try:
        nlive = sum(1 for d in docs if d["live"])
        with ix.searcher(weighting=weighting(wname)) as s:
            for i, ast in enumerate(gen(family)):
                if i % nsl != sl:
                    continue
                acc.count("queries")
                engaged = False
                for k in range(1, 6):
                    if k >= nlive and k > 1:
                        continue
                    acc.count("evaluations")
                    kind, detail, sk, rp = outcome(s, ast, k, variant)
                    if sk:
                        acc.count("cases_with_block_skips")
                        engaged = True
                    if rp > 1:
                        acc.count("cases_with_matcher_replaced")
                        engaged = True
                    if kind is None:
                        continue
                    cu = culprit(s, ast, k, variant)
                    ck, cdetail, _, _ = outcome(s, cu, k, variant)
                    acc.violation("%s|%s|%s|%s" % (top_shape(cu), wname, variant, ck),
                                  {"seed": seed, "layout": layout, "weighting": wname,
                                   "variant": variant, "ast": cu, "k": k, "found_in": ast},
                                  "%s weighting=%s variant=%s: %s" % (qast.shape(cu), wname, variant, cdetail))
                if engaged:
                    acc.count("distinct_nontrivial")
                if i % 4001 == 7:
                    acc.sample({"layout": layout, "weighting": wname, "variant": variant,
                                "ast": ast, "k": "1..5"})
    finally:
        corpus.destroy_index(ix)
    return acc.result()


def layouts(tier, seed=0):
    if tier == "quick":
        # 9 variants: every block size x every segment composition, deletion
        # family rotated (by seed) so that each appears with each block size
        out = []
        segsets = [[6], [3, 3], [2, 2, 2]]
        dels = [[], [0], [2, 3]]
        for bi, bl in enumerate((1, 2, 3)):
            for si, segs in enumerate(segsets):
                out.append({"segs": segs, "deleted": dels[(bi + si + seed) % 3], "blocklimit": bl})
        return out
    out = []
    segsets = [[6], [3, 3], [2, 2, 2]] if tier == "quick" else [[6], [3, 3], [2, 2, 2], [1, 5], [4, 2], [1, 1, 1, 1, 1, 1]]
    dels = [[], [0], [2, 3]] if tier == "quick" else [[], [0], [2, 3], [5], [0, 1, 2]]
    for bl in (1, 2, 3):
        for segs in segsets:
            for de in dels:
                out.append({"segs": segs, "deleted": de, "blocklimit": bl})
    return out


WEIGHTINGS = ["bm25", "bm25_b0", "bm25_b1", "bm25_fieldb", "tfidf", "freq", "pl2", "multi",
              "dfree", "reverse", "function", "final"]


def run(ctx):
    seed = ctx.seed
    lays = layouts(ctx.tier, seed)
    tasks = []
    if ctx.tier == "quick":
        # all 64x64 alignments of every binary operator: block sizes 1..3 on
        # one layout each (rotated by seed), default weighting
        rot = seed % 3
        for bl in (1, 2, 3):
            pick = [l for l in lays if l["blocklimit"] == bl]
            lay = pick[(rot + bl) % len(pick)]
            for sl in range(8):
                tasks.append((seed, lay, "bm25", "two", "plain", 8, sl))
        # bare terms (every posting list) on every layout of the thorough set:
        # all deletion families, so that a deleted document is the best /
        # first posting of a skipped-to block somewhere
        for lay in layouts("thorough"):
            tasks.append((seed, lay, "bm25", "one", "plain", 1, 0))
            if lay["deleted"]:
                tasks.append((seed, lay, "tfidf", "one", "plain", 1, 0))
        # every weighting model x reduced alignments x all layouts
        for li, lay in enumerate(lays):
            for wi, w in enumerate(WEIGHTINGS):
                tasks.append((seed, lay, w, "two_red", "plain", 1, 0))
                if (li + wi + seed) % 4 == 0:
                    tasks.append((seed, lay, w, "boost", "plain", 1, 0))
                    tasks.append((seed, lay, w, "special", "plain", 1, 0))
            tasks.append((seed, lay, "bm25", "three", "plain", 1, 0))
            tasks.append((seed, lay, "bm25", "nested", "plain", 2, li % 2))
            for v in ("terms", "filter", "mask", "collapse", "noopt"):
                tasks.append((seed, lay, "bm25", "two_red", v, 1, 0))
    else:
        # sized with VERIF_PROGRESS=1 (worker seconds per task kind: one 3,
        # two_red 20, boost 60, special 75, two/4 185, three 440, nested 590)
        # to about half an hour on 16 cores
        qlays = layouts("quick", seed)                     # 9: block size x segment composition
        blays = [[l for l in qlays if l["blocklimit"] == bl][(seed + bl) % 3] for bl in (1, 2, 3)]
        for lay in lays:                                   # 90 index variants
            for w in WEIGHTINGS:
                tasks.append((seed, lay, w, "one", "plain", 1, 0))
        for lay in qlays:
            for sl in range(4):
                tasks.append((seed, lay, "bm25", "two", "plain", 4, sl))
            for w in WEIGHTINGS:
                tasks.append((seed, lay, w, "two_red", "plain", 1, 0))
        for lay in blays:
            for w in WEIGHTINGS:
                tasks.append((seed, lay, w, "boost", "plain", 1, 0))
                tasks.append((seed, lay, w, "special", "plain", 1, 0))
            tasks.append((seed, lay, "bm25", "three", "plain", 1, 0))
            tasks.append((seed, lay, "bm25", "nested", "plain", 1, 0))
            for v in ("terms", "filter", "mask", "collapse", "noopt"):
                for fam in ("two_red", "special", "boost"):
                    tasks.append((seed, lay, "bm25", fam, v, 1, 0))
        for w in ("tfidf", "freq"):
            tasks.append((seed, blays[0], w, "three", "plain", 1, 0))
            tasks.append((seed, blays[1], w, "nested", "plain", 1, 0))
    # positional queries (Phrase and the span family): every assignment of 8
    # token sequences to 3 (thorough: 4) documents
    if ctx.tier == "quick":
        for sl in range(16):
            tasks.append(("span", seed, 4, 16, sl, ("bm25", "freq")))
    else:
        for sl in range(128):
            tasks.append(("span", seed, 5, 128, sl, ("bm25", "freq")))
    ctx.extra["index_variants"] = len(lays)
    ctx.extra["weightings"] = WEIGHTINGS
    ctx.rule = ("for each (index variant, weighting, query tree, variant): search(limit=k), k=1..5, "
                "compared with the k-prefix of search(limit=None) on the same searcher; trees: every "
                "binary operator over all 64x64 posting-list alignments of U(6), 3-leaf/nested/boosted/"
                "special-leaf trees over 12 representative alignments; a query is counted non-trivial "
                "when block skipping or matcher replacement actually engaged for some k "
                "(skipped_times>0 or replaced_times>1); enumerated without repetition; plus 12 positional queries "
                "(Phrase, slop, Phrase inside Or/And/AndMaybe, SpanNear/Near2/First/Or/Not/Before/Contains) over every "
                "assignment of 8 token sequences (differing in phrase frequency and field length) to 4 (thorough 5) "
                "documents x block size 1/2 x segment splits [D], [1,D-1], [2,D-2], k < D")
    ctx.assumptions = ["scores compared with relative tolerance 1e-9; order compared exactly except inside "
                       "groups whose exhaustive scores differ by less than the tolerance",
                       "the exhaustive ranking (limit=None) is itself decided by C09/C01"]
    ctx.pmap(task, tasks)
    if ctx.counters.get("cases_with_block_skips", 0) < 1000:
        raise core.HarnessError("vacuous: block skipping engaged in only %d cases"
                                % ctx.counters.get("cases_with_block_skips", 0))


def replay(case):
    core.setup_process(case.get("seed", 0))
    if case.get("kind") == "span":
        docs = [{"key": "k%d" % j, "live": True, "s": [], "w": [], "p": p, "n": None, "d": None, "b": None}
                for j, p in enumerate(case["docs"])]
        ix, _ = corpus.build_index(docs, case["layout"])
        q = dict(span_queries())[case["query"]]
        with ix.searcher(weighting=weighting(case["weighting"])) as s:
            full = list(s.search(q, limit=None).top_n)
            lim, sk, rp = full_and_limited(s, q, case["k"], {})
        res = compare(full, lim, case["k"])
        return {"ok": res is None, "kind": res, "query": repr(q), "what": "limited %r exhaustive %r" % (lim, full)}
    docs = corpus.universe_docs(D, case.get("seed", 0), mix=True)
    ix, docs = corpus.build_index(docs, case["layout"])
    with ix.searcher(weighting=weighting(case["weighting"])) as s:
        kind, detail, sk, rp = outcome(s, case["ast"], case["k"], case["variant"])
    return {"ok": kind is None, "kind": kind, "what": detail,
            "query": repr(qast.to_whoosh(case["ast"])), "skipped_times": sk, "replaced_times": rp}
